"""C01 implementation runner: drives the real view classes and sequences.

Runs inside the implementation interpreter.  Every case is a *batch* of
observations; the runner returns the digest of the canonical serialisation of
the batch (the same digest the Coq runner computes, see Model/ViewRun.v), the
violations of the plain-Python oracle it saw (Python's own slicing of str and
list, str.translate), and - with detail=True - the observations themselves.
"""
import inspect
import itertools
import math
import sys

from vcheck.val import Exc, exc_code, jsonable

MASK48 = (1 << 48) - 1
NAME = "s1"


# ------------------------------------------------------------------ digest (mirror of ViewRun.flat / mix)

def flat(v, out):
    if isinstance(v, Exc):
        out.append(4)
        out.append(v.code)
    elif v is None:
        out.append(5)
    elif isinstance(v, bool):
        out.append(6)
        out.append(1 if v else 0)
    elif isinstance(v, int):
        out.append(1)
        out.append(v)
    elif isinstance(v, str):
        out.append(2)
        out.append(len(v))
        out.extend(map(ord, v))
    elif isinstance(v, (list, tuple)):
        out.append(3)
        out.append(len(v))
        for x in v:
            flat(x, out)
    else:
        raise TypeError(f"no val for {type(v)}")
    return out


def digest(v):
    h = 7
    for x in flat(v, []):
        h = (h * 1000003 + x + 1048576) & MASK48
    return h


def catch(fn):
    try:
        return fn()
    except Exception as e:  # noqa: BLE001
        return Exc(exc_code(e))


# ------------------------------------------------------------------ kernel level

_CACHE = {}


def _alpha():
    if "alpha" not in _CACHE:
        from cogent3.core import new_moltype

        _CACHE["alpha"] = new_moltype.get_moltype("dna").most_degen_alphabet()
    return _CACHE["alpha"]


def build_view(cls, p, off):
    if cls == "old":
        from cogent3.core.sequence import SeqView

        return SeqView(seq=p, seqid=NAME, offset=off)
    if cls == "new":
        from cogent3.core.new_sequence import SeqView

        return SeqView(seq=p, seqid=NAME, alphabet=_alpha(), offset=off)
    if cls == "sdv":
        from cogent3.core import new_alignment

        sd = new_alignment.SeqsData(data={NAME: p}, alphabet=_alpha())
        if off == 0:
            return sd.get_seq_view(NAME)
        return new_alignment.SeqDataView(seq=sd, seqid=NAME, seq_len=len(p), offset=off)
    raise ValueError(cls)


def ctor_view(cls, p, a, b, c, off):
    if cls == "old":
        from cogent3.core.sequence import SeqView

        return SeqView(seq=p, seqid=NAME, start=a, stop=b, step=c, offset=off)
    if cls == "new":
        from cogent3.core.new_sequence import SeqView

        return SeqView(seq=p, seqid=NAME, alphabet=_alpha(), start=a, stop=b, step=c, offset=off)
    if cls == "sdv":
        from cogent3.core import new_alignment

        sd = new_alignment.SeqsData(data={NAME: p}, alphabet=_alpha())
        return new_alignment.SeqDataView(seq=sd, seqid=NAME, seq_len=len(p), start=a, stop=b, step=c, offset=off)
    raise ValueError(cls)


def obs_view(w):
    return [int(w.start), int(w.stop), int(w.step), int(w.seq_len), int(w.offset), len(w),
            int(w.parent_start), int(w.parent_stop), str(w)]


def obs_positions(w):
    n = len(w)
    rels = range(-1, n + 2)
    abss = range(w.offset - 1, w.offset + w.seq_len + 2)
    return [
        [catch(lambda i=i: int(w.absolute_position(i))) for i in rels],
        [catch(lambda i=i: int(w.absolute_position(i, include_boundary=True))) for i in rels],
        [catch(lambda i=i: int(w.relative_position(i))) for i in abss],
        [catch(lambda i=i: int(w.relative_position(i, stop=True))) for i in abss],
    ]


class KOracle:
    """plain-Python account of a view: the list of displayed parent indices and the orientation"""

    def __init__(self, p, off):
        self.p, self.off = p, off
        self.idx = list(range(len(p)))
        self.sign = 1
        self.stride = 1

    def copy(self):
        o = KOracle(self.p, self.off)
        o.idx, o.sign, o.stride = list(self.idx), self.sign, self.stride
        return o

    def apply(self, op):
        """returns a new oracle, or an Exc, or None when the specification does not speak (step 0)"""
        o = self.copy()
        if op[0] == "s":
            a, b, c = op[1:]
            if c == 0:
                return None
            o.idx = self.idx[a:b:c]
            cc = 1 if c is None else c
            o.sign = self.sign * (1 if cc > 0 else -1)
            o.stride = self.stride * abs(cc)
            return o
        i = op[1]
        try:
            o.idx = [self.idx[i]]
        except IndexError:
            return Exc(1)
        o.stride = 1
        return o

    def string(self):
        return "".join(self.p[i] for i in self.idx)

    def check(self, ob):
        """ob: obs_view list or Exc; returns the name of the aspect that is wrong, or None"""
        if isinstance(ob, Exc):
            return "raised"
        exp = self.string()
        if ob[8] != exp:
            return "str"
        if ob[5] != len(exp):
            return "len"
        if self.idx:
            if (ob[2] < 0) != (self.sign < 0):
                return "strand"
            ps, pe = ob[6] - self.off, ob[7] - self.off
            if not (0 <= ps <= pe <= len(self.p)):
                return "parent-range"
            seg = self.p[ps:pe]
            if abs(ob[2]) != self.stride and len(exp) > 1:
                return "step"
            if seg[:: self.sign * self.stride] != exp:
                return "parent-segment"
        return None


def kroutes(cls, w2, matrix):
    """the three realisations of a new-style view (str_value, bytes_value, array_value) must agree;
    returns the name of the deviating one.  Old-style SeqView has the single route `value`."""
    if cls == "old":
        return None
    s = str(w2)
    sc = "+1" if w2.step == 1 else "-1" if w2.step == -1 else "+k" if w2.step > 1 else "-k"
    for route in ("str_value", "bytes_value", "array_value"):
        cell = f"kernel-{cls}|{route}|{sc}"
        matrix[cell] = matrix.get(cell, 0) + 1
    if w2.str_value != s:
        return "str_value"
    if w2.bytes_value.decode("utf8") != s:
        return "bytes_value"
    a = _alpha().from_indices(w2.array_value)
    a = a if isinstance(a, str) else "".join(a)
    if a != s:
        return "array_value"
    return None


def apply_kop(w, op):
    if op[0] == "s":
        return w[slice(op[1], op[2], op[3])]
    return w[op[1]]


def dir_name(step):
    return "rev" if step < 0 else "fwd"


def kkey(cls, aspect, w, op, off):
    if cls == "sdv" and off != 0:
        return f"kernel:sdv:offset:{aspect}"
    if op[0] == "s":
        c = 1 if op[3] is None else op[3]
        return f"kernel:{cls}:{aspect}:{dir_name(c)}-slice-of-{dir_name(w.step)}-view"
    return f"kernel:{cls}:{aspect}:index-of-{dir_name(w.step)}-view"


def run_klattice(case):
    cls, p, off = case["cls"], case["p"], case["off"]
    w = build_view(cls, p, off)
    orc = KOracle(p, off)
    for op in case["pre"]:
        op = tuple(op)
        try:
            w2 = apply_kop(w, op)
        except Exception:  # noqa: BLE001
            continue
        o2 = orc.apply(op)
        w = w2
        if isinstance(o2, KOracle):
            orc = o2
    base = catch(lambda: obs_view(w))
    # A SeqDataView constructed with a non-zero offset is not reachable through the library (SeqsData
    # has no offsets: get_seq_view never passes one, "SeqsData needs new fields that record the offsets");
    # the property does not speak about it.  The block stays as model-vs-implementation correspondence only.
    speaks = not (cls == "sdv" and off != 0)
    out = []
    bad = []
    states = {}
    nontrivial = 0
    seen_keys = set()
    matrix = {}
    for a in case["avals"]:
        for b in case["bvals"]:
            for c in case["cvals"]:
                op = ("s", a, b, c)
                w2 = catch(lambda: apply_kop(w, op))
                ob = w2 if isinstance(w2, Exc) else catch(lambda: obs_view(w2))
                out.append(ob)
                o2 = orc.apply(op) if speaks else None
                if o2 is None:
                    continue
                aspect = o2.check(ob)
                if aspect is not None:
                    key = kkey(cls, aspect, w, op, off)
                    if key not in seen_keys:
                        seen_keys.add(key)
                        bad.append(dict(key=key, ops=case["pre"] + [list(op)], expected_str=o2.string(),
                                        expected_indices=o2.idx, observed=jsonable(ob), aspect=aspect))
                elif not isinstance(ob, Exc):
                    dev = catch(lambda: kroutes(cls, w2, matrix)) if speaks else None
                    if dev is not None:
                        key = kkey(cls, dev if isinstance(dev, str) else "realisation-raised", w, op, off)
                        if key not in seen_keys:
                            seen_keys.add(key)
                            bad.append(dict(key=key, ops=case["pre"] + [list(op)], expected_str=o2.string(),
                                            observed=jsonable(ob), aspect=str(dev)))
                    if ob[8] and (abs(1 if c is None else c) > 1 or (a is not None and a < 0) or (b is not None and b < 0)):
                        nontrivial += 1
                    st = tuple(ob[:5])
                    if case.get("want_states") and st not in states:
                        states[st] = [a, b, c]
    full = [base, out]
    res = dict(digest=digest(full), n=len(out), nontrivial=nontrivial, bad=bad, matrix=matrix)
    if case.get("want_states"):
        res["states"] = [[list(k), v] for k, v in states.items()]
    if case.get("detail"):
        res["full"] = jsonable(full)
    return res


def run_kchain(case):
    cls, p, off = case["cls"], case["p"], case["off"]
    w = build_view(cls, p, off)
    orc = KOracle(p, off)
    full = [[obs_view(w), obs_positions(w)]]
    bad = []
    nontrivial = False
    applied = []
    matrix = {}
    for op in case["ops"]:
        op = tuple(op)
        applied.append(list(op))
        try:
            w2 = apply_kop(w, op)
            ob = obs_view(w2)
        except Exception as e:  # noqa: BLE001
            w2, ob = None, Exc(exc_code(e))
        o2 = orc.apply(op) if not bad else None   # after a finding the oracle's account no longer describes the object
        if o2 is None:
            pass
        elif isinstance(o2, Exc):
            if ob != o2:
                bad.append(dict(key=kkey(cls, "no-IndexError", w, op, off), ops=list(applied), expected="IndexError",
                                observed=jsonable(ob)))
        else:
            aspect = o2.check(ob)
            if aspect is not None:
                bad.append(dict(key=kkey(cls, aspect, w, op, off), ops=list(applied), expected_str=o2.string(),
                                expected_indices=o2.idx, observed=jsonable(ob), aspect=aspect))
            else:
                if o2.idx and op[0] == "s" and abs(op[3] or 1) > 1:
                    nontrivial = True
                dev = catch(lambda: kroutes(cls, w2, matrix))
                if dev is not None:
                    bad.append(dict(key=kkey(cls, dev if isinstance(dev, str) else "realisation-raised", w, op, off), ops=list(applied),
                                    expected_str=o2.string(), observed=jsonable(ob), aspect=str(dev)))
        if w2 is not None:
            full.append([ob, obs_positions(w2)])
            w = w2
            if isinstance(o2, KOracle):
                orc = o2
            elif o2 is None:
                # step 0 accepted by the implementation (empty view / a == b shortcut): the result is empty
                orc = orc.copy()
                orc.idx = []
        else:
            full.append([ob, None])
    res = dict(digest=digest(full), n=len(full), nontrivial=1 if nontrivial else 0, bad=bad[:3], matrix=matrix)
    if case.get("detail"):
        res["full"] = jsonable(full)
    return res


def run_kctor(case):
    cls, n, off = case["cls"], case["n"], case["off"]
    p = "".join(chr(97 + i) for i in range(n)) if cls != "sdv" else "ACGTRYWSKMBDHVN"[:n]
    out = []
    bad = []
    seen = set()
    for a in case["avals"]:
        for b in case["bvals"]:
            for c in case["cvals"]:
                ob = catch(lambda: obs_view(ctor_view(cls, p, a, b, c, off)))
                if cls == "sdv" and not isinstance(ob, Exc):
                    ob = ob[:8] + ["".join(chr(97 + "ACGTRYWSKMBDHVN".index(ch)) for ch in ob[8])]
                out.append(ob)
                if c == 0:
                    continue
                pp = "".join(chr(97 + i) for i in range(n))
                exp = pp[a:b:c]
                if isinstance(ob, Exc) or ob[8] != exp or ob[5] != len(exp):
                    key = f"kernel:{cls}:constructor:{dir_name(1 if c is None else c)}"
                    if key not in seen:
                        seen.add(key)
                        bad.append(dict(key=key, args=[a, b, c], n=n, expected_str=exp, observed=jsonable(ob)))
    res = dict(digest=digest(out), n=len(out), nontrivial=sum(1 for o in out if not isinstance(o, Exc) and o[8]), bad=bad)
    if case.get("detail"):
        res["full"] = jsonable(out)
    return res


# ------------------------------------------------------------------ sequence level

COMP = {"dna": str.maketrans("ACGTRYMKBVDH", "TGCAYRKMVBHD"), "rna": str.maketrans("ACGURYMKBVDH", "UGCAYRKMVBHD")}


def make(impl, mt, s, off=0, name=NAME):
    import cogent3

    kw = dict(new_type=True) if impl == "new" else {}
    if off:
        kw["annotation_offset"] = off
    return cogent3.make_seq(s, name=name, moltype=mt, **kw)


ORIGINS = {"old": ["standalone", "coll_get", "coll_rc", "aln_get", "aln_gapped"],
           "new": ["standalone", "coll_get", "coll_seqs", "coll_rc"]}
ROUTES = {"old": ["str", "iter", "getitem"], "new": ["str", "iter", "getitem", "bytes", "array"]}
STEP_CLASSES = ["+1", "+k", "-1", "-k"]


def make_origin(impl, mt, s, off, origin, name=NAME):
    """the same sequence obtained through different public routes; returns (seq, origin actually used).
    Collections carry no annotation offset, so those origins are only used with off == 0."""
    import cogent3

    if origin == "standalone" or off:
        return make(impl, mt, s, off, name), "standalone"
    kw = dict(new_type=True) if impl == "new" else {}
    data = {name: s, "zz": (s[:2] or "A") if not origin.startswith("aln") else s}
    if origin in ("coll_get", "coll_seqs", "coll_rc"):
        c = cogent3.make_unaligned_seqs(data, moltype=mt, **kw)
        if origin == "coll_rc":
            c = c.rc()
        return (c.seqs[name] if origin == "coll_seqs" else c.get_seq(name)), origin
    if origin in ("aln_get", "aln_gapped"):
        a = cogent3.make_aligned_seqs(data, moltype=mt)
        return (a.get_seq(name) if origin == "aln_get" else a.get_gapped_seq(name)), origin
    raise ValueError(origin)


def step_class(seq):
    st = seq._seq.step
    return "+1" if st == 1 else "-1" if st == -1 else "+k" if st > 1 else "-k"


def realisations(seq, impl):
    """every route by which the displayed characters can be read, each rendered as a str (or an Exc)"""
    import numpy

    n = len(seq)
    out = {
        "str": catch(lambda: str(seq)),
        "iter": catch(lambda: "".join(str(x) for x in seq)),
        "getitem": catch(lambda: "".join(str(seq[j]) for j in range(n))),
    }
    if impl == "new":
        out["bytes"] = catch(lambda: bytes(seq).decode("utf8"))

        def via_array():
            view = seq._seq
            alpha = getattr(view, "alphabet", None) or view.seq.alphabet
            arr = numpy.array(seq)
            res = alpha.from_indices(arr)
            return res if isinstance(res, str) else "".join(res)

        out["array"] = catch(via_array)
    return out


def check_routes(seq, impl, origin, expected, matrix, bad, applied, seen):
    """compare every realisation route with the oracle's string; count the cell (origin, route, step class)"""
    sc = step_class(seq)
    for route, got in realisations(seq, impl).items():
        cell = f"{origin}|{route}|{sc}"
        matrix[cell] = matrix.get(cell, 0) + 1
        if got != expected:
            key = f"seq:{impl}:route-{route}:{origin}:{'strided' if sc.endswith('k') else 'contiguous'}-{'rev' if sc[0] == '-' else 'fwd'}-view"
            if key not in seen:
                seen.add(key)
                bad.append(dict(key=key, ops=list(applied), aspect=f"route-{route}", expected_str=expected,
                                observed=jsonable(got), origin=origin, step_class=sc))


def kind_code(seq):
    lab = seq.moltype.label
    return 0 if lab == "dna" else 1 if lab == "rna" else 2


def obs_seq(s):
    n = len(s)
    pc = s.parent_coordinates()
    return [str(s), n, kind_code(s), [pc[0] == NAME, int(pc[1]), int(pc[2]), int(pc[3])], int(s.annotation_offset),
            [catch(lambda j=j: str(s[j])) for j in range(-n - 1, n + 1)]]


class SOracle:
    """the same chain on the plain string"""

    def __init__(self, p, mt, off):
        self.P, self.off, self.mt = p, off, mt
        self.idx = list(range(len(p)))
        self.sign, self.stride = 1, 1
        self.rerooted = False

    def clone(self):
        o = SOracle(self.P, self.mt, self.off)
        o.idx, o.sign, o.stride, o.rerooted = list(self.idx), self.sign, self.stride, self.rerooted
        return o

    def string(self):
        s = "".join(self.P[i] for i in self.idx)
        if self.sign < 0 and self.mt in COMP:
            s = s.translate(COMP[self.mt])
        return s

    def apply(self, op):
        o = self.clone()
        k = op[0]
        if k == "slice":
            a, b, c = op[1:]
            if c == 0:
                return None
            cc = 1 if c is None else c
            o.idx = self.idx[a:b:c]
            o.sign = self.sign * (1 if cc > 0 else -1)
            o.stride = self.stride * abs(cc)
        elif k == "index":
            try:
                o.idx = [self.idx[op[1]]]
            except IndexError:
                return Exc(1)
            o.stride = 1
        elif k == "rc":
            if self.mt not in COMP:
                return Exc(3)
            o.idx = self.idx[::-1]
            o.sign = -self.sign
        elif k in ("to_rna", "to_dna"):
            if self.mt not in COMP:
                return Exc(3)
            target = k[3:]
            if target != self.mt:
                s = self.string()
                s = s.replace("T", "U") if target == "rna" else s.replace("U", "T")
                o = SOracle(s, target, 0)
                o.rerooted = True
        elif k == "copy":
            pass
        return o

    def check(self, ob):
        if isinstance(ob, Exc):
            return "raised"
        exp = self.string()
        if ob[0] != exp:
            return "str"
        if ob[1] != len(exp):
            return "len"
        items = [exp[j] if -len(exp) <= j < len(exp) else Exc(1) for j in range(-len(exp) - 1, len(exp) + 1)]
        if ob[5] != items:
            return "item"
        if ob[2] != (0 if self.mt == "dna" else 1 if self.mt == "rna" else 2):
            return "moltype"
        if self.idx:
            hasid, ps, pe, strand = ob[3]
            if strand != self.sign:
                return "strand"
            if not self.rerooted and not hasid:
                return "seqid"
            ps, pe = ps - self.off, pe - self.off
            if not (0 <= ps <= pe <= len(self.P)):
                return "parent-range"
            raw = "".join(self.P[i] for i in self.idx)
            if self.P[ps:pe][:: self.sign * self.stride] != raw:
                return "parent-segment"
            if ob[4] != ob[3][1]:
                return "annotation_offset"
        return None


def apply_sop(s, op):
    k = op[0]
    if k == "slice":
        return s[slice(op[1], op[2], op[3])]
    if k == "index":
        return s[op[1]]
    if k == "rc":
        return s.rc()
    if k == "to_rna":
        return s.to_rna()
    if k == "to_dna":
        return s.to_dna()
    if k == "copy":
        return s.copy()
    raise ValueError(k)


def op_shape(op):
    k = op[0]
    if k == "slice":
        c = 1 if op[3] is None else op[3]
        return f"{dir_name(c)}-slice"
    if k in ("to_rna", "to_dna", "to_moltype"):
        return "to_moltype"
    return k


def seq_key(impl, name, s, aspect=None, raised_value_error=False):
    """stable classifier of a sequence-level finding: implementation, operation / method, orientation of
    the view it was applied to (+ the aspect when it is not the string itself)"""
    if name == "copy" and raised_value_error and s._seq.offset != 0:
        return f"seq:{impl}:copy:offset"
    view = "rev-view" if s._seq.step < 0 else "fwd-view"
    extra = f":{aspect}" if aspect not in (None, "str", "raised") else ""
    return f"seq:{impl}:{name}:{view}{extra}"


def skey(impl, aspect, op, s, ob=None):
    return seq_key(impl, op_shape(op), s, aspect, isinstance(ob, Exc) and ob.code == 2)


def run_schain(case):
    impl, mt, p, off = case["impl"], case["mt"], case["p"], case["off"]
    s, origin = make_origin(impl, mt, p, off, case.get("origin", "standalone"))
    orc = SOracle(p, mt, off)
    if origin == "coll_rc":
        orc = orc.apply(("rc",)) if mt in COMP else orc.apply(("slice", None, None, -1))
    full = [obs_seq(s)]
    bad = []
    applied = []
    nontrivial = False
    matrix = {}
    seen_routes = set()
    first = orc.check(full[0])
    if first is not None:
        bad.append(dict(key=f"seq:{impl}:origin-{origin}:{first}", ops=[], aspect=first, expected_str=orc.string(), observed=jsonable(full[0])))
    else:
        check_routes(s, impl, origin, orc.string(), matrix, bad, applied, seen_routes)
    for op in case["ops"]:
        op = tuple(op)
        applied.append(list(op))
        try:
            s2 = apply_sop(s, op)
            ob = obs_seq(s2)
        except Exception as e:  # noqa: BLE001
            s2, ob = None, Exc(exc_code(e))
        o2 = orc.apply(op) if not bad else None   # after a finding the oracle's account no longer describes the object
        if o2 is None:
            pass
        elif isinstance(o2, Exc):
            if not isinstance(ob, Exc):
                bad.append(dict(key=skey(impl, "no-exception", op, s), ops=list(applied),
                                expected=jsonable(o2), observed=jsonable(ob)))
        else:
            aspect = o2.check(ob)
            if aspect is not None:
                bad.append(dict(key=skey(impl, aspect, op, s, ob), ops=list(applied), aspect=aspect,
                                expected_str=o2.string(), expected_indices=o2.idx, observed=jsonable(ob)))
            else:
                if o2.idx and (o2.sign < 0 or o2.stride > 1):
                    nontrivial = True
                if s2 is not None and not bad:
                    check_routes(s2, impl, origin, o2.string(), matrix, bad, applied, seen_routes)
        full.append(ob)
        if s2 is not None:
            s = s2
            if isinstance(o2, SOracle):
                orc = o2
            elif o2 is None:
                orc = orc.clone()
                orc.idx = []
    res = dict(digest=digest(full), n=len(full), nontrivial=1 if nontrivial else 0, bad=bad[:3], matrix=matrix, origin=origin)
    if case.get("detail"):
        res["full"] = jsonable(full)
    return res


def run_comptable(case):
    """complement of every character, one at a time, through a reversed one-letter sequence and moltype.complement"""
    mt = case["mt"]
    chars = case["chars"]
    out = {}
    for impl in ("old", "new"):
        res = []
        for ch in chars:
            try:
                s = make(impl, mt, ch)
                res.append(str(s[::-1]))
            except Exception:  # noqa: BLE001
                res.append(None)
        out[impl] = res
    return out


# ------------------------------------------------------------------ methods: view-backed sequence vs fresh sequence

DENY = {
    # mutators
    "add_feature", "annotate_from_gff", "annotate_matches_to", "copy_annotations", "replace_annotation_db",
    "make_feature",
    # plotting / display
    "get_drawable", "get_drawables", "to_html",
    # random
    "shuffle",
    # output legitimately depends on the history (parent coordinates, offsets, name, info) - observed elsewhere
    "parent_coordinates", "to_rich_dict", "to_json", "get_name", "get_features", "from_rich_dict",
    # need maps / features (C03, C04, C08)
    "gapped_by_map", "gapped_by_map_motif_iter", "gapped_by_map_segment_iter", "with_masked_annotations",
    "matrix_distance", "frac_similar",
    # observed separately (string and parent coordinates must survive)
    "copy",
}


def seeded_args(name, other, mt):
    """arguments for methods that need some; `other` is a sequence of the same moltype"""
    table = {
        "count": [("A",), ("AC",), ("-",)],
        "counts": [(), (2,)],
        "get_kmers": [(1,), (2,), (3, False)],
        "iter_kmers": [(2,)],
        "get_in_motif_size": [(2,), (3,)],
        "sliding_windows": [(2, 1), (3, 2)],
        "is_gap": [("-",), ("A",)],
        "replace": [("A", "C"), ("C", "G")],
        "to_moltype": [("dna",), ("rna",), ("text",)] if mt in COMP else [("text",)],
        "can_match": [(other,)], "can_mismatch": [(other,)], "must_match": [(other,)],
        "can_pair": [(other,)], "can_mispair": [(other,)], "must_pair": [(other,)],
        "diff": [(other,)], "distance": [(other,)], "frac_same": [(other,)], "frac_diff": [(other,)],
        "frac_same_gaps": [(other,)], "frac_diff_gaps": [(other,)], "frac_same_non_gaps": [(other,)],
        "frac_diff_non_gaps": [(other,)],
        "disambiguate": [("strip",)],
        "mw": [()],
        "to_fasta": [()], "to_phylip": [()],
        "strand_symmetry": [()],
        "get_translation": [(), (1, True)] if mt in COMP else [],
        "has_terminal_stop": [()], "trim_stop_codon": [()],
    }
    return table.get(name)


def canon(x, depth=0):
    """canonical, comparable rendering of a method result"""
    import numpy

    if depth > 6:
        return "<deep>"
    if x is None or isinstance(x, (bool, str)):
        return x
    if isinstance(x, bytes):
        return ["bytes", x.decode("latin1")]
    if isinstance(x, (int, numpy.integer)):
        return int(x)
    if isinstance(x, (float, numpy.floating)):
        return ["float", None if math.isnan(x) else float(f"{float(x):.9g}")]
    if isinstance(x, numpy.ndarray):
        return ["array", canon(x.tolist(), depth + 1)]
    if isinstance(x, (list, tuple)):
        return [canon(y, depth + 1) for y in x]
    if isinstance(x, (set, frozenset)):
        return ["set", sorted((canon(y, depth + 1) for y in x), key=repr)]
    if isinstance(x, dict):
        return ["dict", sorted(([canon(k, depth + 1), canon(v, depth + 1)] for k, v in x.items()), key=repr)]
    if hasattr(x, "moltype") and hasattr(x, "parent_coordinates"):
        return ["seq", x.moltype.label, str(x)]    # the class name is not observed (to_rna keeps the DnaSequence class)
    if inspect.isgenerator(x) or isinstance(x, (map, filter, zip, itertools.chain)):
        return ["iter", [canon(y, depth + 1) for y in x]]
    if hasattr(x, "to_dict") and callable(x.to_dict):
        try:
            return ["to_dict", type(x).__name__, canon(x.to_dict(), depth + 1)]
        except Exception:  # noqa: BLE001
            pass
    if hasattr(x, "to_rich_dict") and callable(x.to_rich_dict):
        try:
            d = x.to_rich_dict()
            d.pop("version", None)
            return ["rich", type(x).__name__, canon(d, depth + 1)]
        except Exception:  # noqa: BLE001
            pass
    r = repr(x)
    if " at 0x" in r:
        return ["object", type(x).__name__]
    return ["repr", r]


def call(fn, *a):
    try:
        return canon(fn(*a))
    except Exception as e:  # noqa: BLE001
        return ["raised", type(e).__name__]


def discover(seq):
    names = []
    for name in dir(type(seq)):
        if name.startswith("_") or name in DENY:
            continue
        attr = inspect.getattr_static(type(seq), name)
        if isinstance(attr, property):
            continue
        if not callable(getattr(seq, name, None)):
            continue
        names.append(name)
    return names


def run_methods(case):
    """apply the chain, then compare every discovered method on the view-backed sequence and on
    make_seq(str(view)); also the dunder protocol"""
    impl, mt, p, off = case["impl"], case["mt"], case["p"], case["off"]
    s, origin = make_origin(impl, mt, p, off, case.get("origin", "standalone"))
    for op in case["ops"]:
        try:
            s = apply_sop(s, tuple(op))
        except Exception:  # noqa: BLE001
            pass
    text = str(s)
    label = s.moltype.label
    fresh = make(impl, label, text)
    other_text = case.get("other") or text
    # `other` for the binary methods: same length as the view where possible
    other_text = (other_text * (len(text) // max(1, len(other_text)) + 1))[: len(text)]
    try:
        other = make(impl, label, other_text)
    except Exception:  # noqa: BLE001
        other = fresh
    results = []
    skipped = []
    view_dir = "rev-view" if s._seq.step < 0 else "fwd-view"
    strided = "strided" if abs(s._seq.step) > 1 else "contiguous"
    # findings on collection-backed sequences get their own key (the standalone keys are those of the first report)
    origin_tag = "" if origin == "standalone" else f":{origin}:{strided}"
    state_before = (str(s), s.parent_coordinates())

    def record(name, args, rv, rf):
        if rv != rf:
            results.append(dict(key=seq_key(impl, op_shape((name,)), s) + origin_tag,
                                method=name, args=[a if not hasattr(a, "moltype") else f"<seq {a!s}>" for a in args],
                                on_view=rv, on_fresh=rf, view_str=text, view_state=[view_dir, strided]))

    for name in discover(s):
        sig = None
        try:
            sig = inspect.signature(getattr(s, name))
        except (TypeError, ValueError):
            pass
        argsets = seeded_args(name, other, label)
        if argsets is None:
            required = [q for q in (sig.parameters.values() if sig else [])
                        if q.default is inspect.Parameter.empty and q.kind in (q.POSITIONAL_ONLY, q.POSITIONAL_OR_KEYWORD, q.KEYWORD_ONLY)]
            if sig is None or required:
                skipped.append(name)
                continue
            argsets = [()]
        for args in argsets:
            rv = call(getattr(s, name), *args)
            rf = call(getattr(fresh, name), *args)
            record(name, args, rv, rf)
    # protocol methods
    record("__len__", (), len(s), len(fresh))
    record("__iter__", (), list(s), list(fresh))
    record("__eq__", (), call(lambda: s == fresh), True)
    record("__hash__", (), call(lambda: hash(s) == hash(fresh)), True)
    record("__contains__", (), call(lambda: [m in s for m in ("A", "AC", "-", "Z")]), call(lambda: [m in fresh for m in ("A", "AC", "-", "Z")]))
    record("__lt__", (), call(lambda: [s < other, other < s]), call(lambda: [fresh < other, other < fresh]))
    record("__add__", (), call(lambda: str(s + other)), call(lambda: str(fresh + other)))
    if impl == "new":
        record("__bytes__", (), call(lambda: bytes(s)), call(lambda: bytes(fresh)))
        import numpy

        record("__array__", (), call(lambda: numpy.array(s)), call(lambda: numpy.array(fresh)))
    # a read-only method must not change the object it is called on
    state_after = (str(s), s.parent_coordinates())
    if state_after != state_before:
        results.append(dict(key=f"seq:{impl}:mutated-by-read-only-method:{view_dir}", method="<any>", on_view=list(map(str, state_after)),
                            on_fresh=list(map(str, state_before)), view_str=text, view_state=[view_dir, strided]))
    # copy() keeps string and parent coordinates
    cp = call(lambda: (lambda c: [str(c), list(c.parent_coordinates())])(s.copy()))
    want = [text, canon(list(s.parent_coordinates()))]
    if cp != want:
        results.append(dict(key=seq_key(impl, "copy", s, None, cp == ["raised", "ValueError"]),
                            method="copy", on_view=cp, on_fresh=want, view_str=text, view_state=[view_dir, strided]))
    return dict(origin=origin, step_class=step_class(s), n_methods=len(discover(s)), skipped=skipped, bad=results, view=text, nontrivial=1 if (s._seq.step < 0 or abs(s._seq.step) > 1) and text else 0,
                methods=discover(s) if case.get("list_methods") else None)


# ------------------------------------------------------------------ replace(old, new) on views

REPLACE_STREAMS = {
    # structural classes of (view, pattern) for which the pinned old-style replace works on the parent string and is
    # known to answer differently from the view's string; they are keyed separately so that every other case stays clean
    "length-changing": "replace:length-changing:partial-or-reversed-view",
    "strided": "replace:strided-view-multichar",
    "straddle": "replace:partial-view-straddle",
    "overlap": "replace:reversed-view-overlapping-matches",
}


def occurrences(text, pat):
    return [i for i in range(len(text) - len(pat) + 1) if text.startswith(pat, i)] if pat else []


def replace_class(orc, shown, old, new):
    """classification from the plain-string side only (parent string, displayed indices, pattern)"""
    full_fwd = orc.sign > 0 and orc.idx == list(range(len(orc.P)))
    if len(old) != len(new):
        return "clean" if full_fwd else "length-changing"
    if len(old) == 1 or not orc.idx:
        return "clean"
    if orc.stride > 1 and len(orc.idx) > 1:
        return "strided"
    po = old[::-1] if orc.sign < 0 else old
    if orc.sign < 0 and orc.mt in COMP:
        po = po.translate(COMP[orc.mt])
    lo, hi = min(orc.idx), max(orc.idx) + 1
    for i in occurrences(orc.P, po):
        if i < lo < i + len(po) or i < hi < i + len(po):
            return "straddle"
    if orc.sign < 0:
        occ = occurrences(shown, old)
        if any(b - a < len(old) for a, b in zip(occ, occ[1:])):
            return "overlap"
    return "clean"


def run_replace(case):
    """str(view.replace(o, n)) == str(view).replace(o, n) for 1-, 2- and 3-character patterns"""
    impl, mt, p, off = case["impl"], case["mt"], case["p"], case["off"]
    s, origin = make_origin(impl, mt, p, off, case.get("origin", "standalone"))
    orc = SOracle(p, mt, off)
    for op in case["ops"]:
        op = tuple(op)
        try:
            s2 = apply_sop(s, op)
        except Exception:  # noqa: BLE001
            continue
        o2 = orc.apply(op)
        s = s2
        if isinstance(o2, SOracle):
            orc = o2
    shown = orc.string()
    bad, counts = [], {}
    if str(s) != shown or not hasattr(s, "replace"):
        return dict(n=0, bad=[], counts={}, skipped="view string differs from the oracle (reported by the chain block)")
    view_dir = "rev-view" if s._seq.step < 0 else "fwd-view"
    partial = "partial" if len(orc.idx) < len(orc.P) else "whole"
    pats = [tuple(x) for x in case["patterns"]]
    # patterns taken from the displayed string itself (so that they occur), replaced by a same-length word
    fill = {"dna": "GTN", "rna": "GUN", "protein": "KLM", "text": "XYZ"}[mt]
    for k in (1, 2, 3):
        for st in case.get("starts", []):
            if shown and len(shown) >= k:
                w = shown[st % (len(shown) - k + 1):][:k]
                pats.append((w, fill[:k]))
    seen = set()
    steered = {}
    for old, new in pats:
        if (old, new) in seen or not old:
            continue
        seen.add((old, new))
        cls = replace_class(orc, shown, old, new)
        if cls != "clean" and not case.get("known_witness"):
            # the four structural classes are listed findings: emitted once each by the corpus witnesses, the generators
            # steer away from them everywhere else (counted, not evaluated)
            steered[cls] = steered.get(cls, 0) + 1
            continue
        expected = catch(lambda: shown.replace(old, new))
        got = catch(lambda: str(s.replace(old, new)))
        cell = f"{cls}|{view_dir}|{partial}|len{min(len(old), 3)}"
        counts[cell] = counts.get(cell, 0) + 1
        if got != expected:
            key = REPLACE_STREAMS.get(cls) or f"seq:{impl}:replace:{view_dir}" + ("" if len(old) == 1 else ":multichar")
            bad.append(dict(key=key, method="replace", args=[old, new], on_view=jsonable(got), on_fresh=jsonable(expected),
                            view_str=shown, stream=cls, view_state=[view_dir, partial, f"stride{orc.stride}"],
                            parent=orc.P, shown_parent_indices=orc.idx[:40]))
    return dict(n=len(seen) - sum(steered.values()), bad=bad, counts=counts, origin=origin, steered=steered)


# ------------------------------------------------------------------ dispatch

def run_case(case):
    kind = case["kind"]
    if kind == "klattice":
        return run_klattice(case)
    if kind == "kchain":
        return run_kchain(case)
    if kind == "kctor":
        return run_kctor(case)
    if kind == "schain":
        return run_schain(case)
    if kind == "comptable":
        return run_comptable(case)
    if kind == "methods":
        return run_methods(case)
    if kind == "replace":
        return run_replace(case)
    raise ValueError(kind)


def main():
    import warnings

    warnings.filterwarnings("ignore")
    from vcheck.implutil import serve

    serve(run_case, limit=120)


if __name__ == "__main__":
    main()
