"""C20 implementation runner: drives the real cogent3 Table API, Table.write and load_table."""
import gzip
import os
import shutil
import tempfile

from vcheck.implutil import serve
from vcheck.val import exc_code


def cv(x):
    """canonical JSON-able form of a cell value"""
    import numpy

    if isinstance(x, (bool, numpy.bool_)):
        return bool(x)
    if isinstance(x, (int, numpy.integer)):
        return int(x)
    if isinstance(x, (float, numpy.floating)):
        return {"float": repr(float(x))}
    if isinstance(x, complex):
        return {"complex": repr(x)}
    if x is None or isinstance(x, str):
        return x
    if isinstance(x, bytes):
        return {"bytes": x.decode("latin1")}
    if isinstance(x, (list, tuple)):
        return {"seq": [cv(e) for e in x]}
    return {"other": type(x).__name__, "repr": repr(x)[:80]}


def from_json_cell(c):
    if isinstance(c, dict) and "float" in c:
        return float(c["float"])
    return c


def obs_table(t):
    header = list(t.header)
    cols = [[cv(x) for x in t.columns[c].tolist()] for c in header]
    kinds = [t.columns[c].dtype.kind for c in header]
    return [header, cols, int(t.shape[0]), kinds]


def build(tb):
    from cogent3.util.table import Table

    data = {h: [from_json_cell(c) for c in col] for h, col in zip(tb["header"], tb["cols"])}
    return Table(header=list(tb["header"]), data=data, title=tb.get("title", ""), index_name=tb.get("index_name"))


def mk_pred(p):
    k = p[0]
    if k == "true":
        return lambda r: True
    if k == "gt":
        return lambda r: r[p[1]] > p[2]
    if k == "eqc":
        return lambda r: r[p[1]] == p[2]
    if k == "eqcols":
        return lambda r: r[p[1]] == r[p[2]]
    if k == "mulgt":
        return lambda r: r[p[1]] * r[p[2]] > p[3]
    if k == "sqgt":
        return lambda r: r[p[1]] ** 2 > p[2]
    if k == "addgt":
        return lambda r: r[p[1]] + r[p[2]] > p[3]
    if k == "not":
        q = mk_pred(p[1])
        return lambda r: not q(r)
    raise ValueError(k)


def pred_text(p, n):
    """the same predicate as a string callback over the column names n"""
    k = p[0]
    if k == "true":
        return "True"
    if k == "gt":
        return f"{n[p[1]]} > {p[2]!r}"
    if k == "eqc":
        return f"{n[p[1]]} == {p[2]!r}"
    if k == "eqcols":
        return f"{n[p[1]]} == {n[p[2]]}"
    if k == "mulgt":
        return f"{n[p[1]]} * {n[p[2]]} > {p[3]!r}"
    if k == "sqgt":
        return f"{n[p[1]]} ** 2 > {p[2]!r}"
    if k == "addgt":
        return f"{n[p[1]]} + {n[p[2]]} > {p[3]!r}"
    if k == "not":
        return f"not ({pred_text(p[1], n)})"
    raise ValueError(k)


def mk_expr(e):
    k = e[0]
    if k == "const":
        return lambda r: e[1]
    if k == "add":
        return lambda r: r[e[1]] + r[e[2]]
    if k == "iseq":
        return lambda r: r[e[1]] == e[2]
    if k == "mul":
        return lambda r: r[e[1]] * r[e[2]]
    if k == "sq":
        return lambda r: r[e[1]] ** 2
    raise ValueError(k)


def expr_text(e, n):
    k = e[0]
    if k == "const":
        return repr(e[1])
    if k == "add":
        return f"{n[e[1]]} + {n[e[2]]}"
    if k == "iseq":
        return f"{n[e[1]]} == {e[2]!r}"
    if k == "mul":
        return f"{n[e[1]]} * {n[e[2]]}"
    if k == "sq":
        return f"{n[e[1]]} ** 2"
    raise ValueError(k)


def names_ok(names):
    import keyword

    return all(isinstance(c, str) and c.isidentifier() and not keyword.iskeyword(c) for c in names)


def row_cb(f, ncols, seen=None):
    """Table passes the bare value when a single column is selected; `seen` collects the type of
    every value the callable is handed"""
    def note(vals):
        if seen is not None:
            seen.update(type(v).__name__ for v in vals)

    if ncols == 1:
        def one(r):
            note([r])
            return f([r])
        return one

    def many(r):
        r = list(r)
        note(r)
        return f(r)
    return many


def apply_op(tables, cur, o):
    k = o["op"]
    if k == "join":
        kw = {}
        if o["cs"] is not None:
            kw["columns_self"] = o["cs"]
        if o["co"] is not None:
            kw["columns_other"] = o["co"]
        r = cur.joined(tables[o["other"]], inner_join=o["inner"], col_prefix=o["prefix"], **kw)
        return r, obs_table(r)
    if k == "sorted":
        r = cur.sorted(columns=o["columns"], reverse=o["reverse"])
        return r, obs_table(r)
    if k in ("filtered", "count", "with_new_column"):
        names = list(o["columns"]) if o["columns"] is not None else list(cur.header)
        n = len(names)
        seen = set()
        as_text = o.get("form") == "string" and bool(names) and names_ok(names)
        if k == "with_new_column":
            cb = expr_text(o["expr"], names) if as_text else row_cb(mk_expr(o["expr"]), n, seen)
            r = cur.with_new_column(o["name"], cb, columns=o["columns"])
            return r, obs_table(r) + [sorted(seen)]
        cb = pred_text(o["pred"], names) if as_text else row_cb(mk_pred(o["pred"]), n, seen)
        if k == "filtered":
            r = cur.filtered(cb, columns=o["columns"])
            return r, obs_table(r) + [sorted(seen)]
        return cur, [int(cur.count(cb, columns=o["columns"])), sorted(seen)]
    if k == "filtered_by_column":
        c = from_json_cell(o["cell"])
        r = cur.filtered_by_column(lambda col: c in col.tolist())
        return r, obs_table(r)
    if k == "get_columns":
        r = cur.get_columns(o["columns"])
        return r, obs_table(r)
    if k == "appended":
        cur.title = o["self_title"]
        others = []
        for title, idx in o["others"]:
            t = tables[idx]
            t.title = title
            others.append(t)
        r = cur.appended(o["newcol"], *others) if others else cur.appended(o["newcol"], [])
        return r, obs_table(r)
    if k == "transposed":
        r = cur.transposed(o["new"], select_as_header=o["sah"])
        return r, obs_table(r)
    if k in ("count_unique", "distinct_arg"):
        a = o["arg"]
        form = a["form"]
        arg = None if form == "none" else tuple(a["value"]) if form == "tuple" else a["value"]

        def canon_keys(keys):
            ks = list(keys)
            flag = None if not ks else not any(isinstance(x, tuple) for x in ks)
            return flag, ks

        def key_list(x):
            return [cv(e) for e in x] if isinstance(x, tuple) else [cv(x)]

        def distinct_obs():
            try:
                flag, ks = canon_keys(cur.distinct_values(arg))
                return [flag, sorted((key_list(x) for x in ks), key=repr)]
            except Exception as e:  # noqa: BLE001
                return {"exc": exc_code(e), "type": type(e).__name__, "msg": str(e)[:80]}

        if k == "distinct_arg":
            flag, ks = canon_keys(cur.distinct_values(arg))
            return cur, [flag, sorted((key_list(x) for x in ks), key=repr)]
        cnt = cur.count_unique() if form == "none" and a.get("omit") else cur.count_unique(arg)
        items = list(cnt.items())
        flag, _ = canon_keys([kk for kk, _ in items])
        entries = sorted(([key_list(kk), int(n)] for kk, n in items), key=repr)
        return cur, [flag, entries, distinct_obs() if form != "none" else None]
    if k == "distinct":
        cols = o["columns"]
        s = cur.distinct_values(cols)
        out = [[cv(x) for x in e] if isinstance(e, tuple) else [cv(e)] for e in s]
        out.sort(key=repr)
        return cur, out
    raise ValueError(k)


def run_ops(case):
    tables = [build(tb) for tb in case["tables"]]
    cur = tables[0]
    out = []
    for o in case["ops"]:
        try:
            cur, obs = apply_op(tables, cur, o)
        except Exception as e:  # noqa: BLE001
            out.append({"exc": exc_code(e), "type": type(e).__name__, "msg": str(e)[:120]})
            break
        out.append(obs)
    return out


def run_rt(case):
    """write / load through every requested format inside a private temp dir"""
    from cogent3 import load_table
    from cogent3.parse.table import load_delimited

    t = build(case["table"])
    tmp = tempfile.mkdtemp(prefix="c20_")
    res = {}
    try:
        for fmt in case["formats"]:
            path = os.path.join(tmp, "t." + fmt)
            entry = {}
            try:
                t.write(path)
                if fmt in ("tsv", "csv"):
                    with open(path, newline="") as f:
                        entry["text"] = f.read()
                    sep = "\t" if fmt == "tsv" else ","
                    try:
                        h, rows, _, _ = load_delimited(path, sep=sep)
                        entry["records"] = [h] + rows
                    except Exception as e:  # noqa: BLE001
                        entry["records"] = {"exc": exc_code(e), "type": type(e).__name__, "msg": str(e)[:120]}
                elif fmt.endswith(".bz2"):
                    entry["files"] = sorted(os.listdir(tmp))
                elif fmt.endswith(".gz"):
                    with gzip.open(path, "rt", newline="") as f:
                        entry["text"] = f.read()
                got = load_table(path)
                entry["loaded"] = obs_table(got)
            except Exception as e:  # noqa: BLE001
                entry["loaded"] = {"exc": exc_code(e), "type": type(e).__name__, "msg": str(e)[:160]}
            res[fmt] = entry
    finally:
        shutil.rmtree(tmp, ignore_errors=True)
    return res


def obs_itable(t):
    """observation of a table that may carry an index_name: the (lazy) index is activated first"""
    ix = t.index_name
    return [obs_table(t)[:4], ix]


case_tables_json = [None]


def apply_iop(tables, cur, o):
    k = o["op"]
    if k == "lookup":
        v = cur[from_json_cell(o["label"]), o["col"]]
        return cur, cv(v.item() if hasattr(v, "item") else v)
    if k == "row":
        r = cur[from_json_cell(o["label"])]
        return cur, obs_itable(r)
    if k == "inner_join_index":
        ob = dict(case_tables_json[0][o["other"]], index_name=o["other_index"])
        other = build(ob)
        other.index_name
        r = cur.inner_join(other, col_prefix=o["prefix"])
        return r, obs_itable(r)
    if k == "get_columns_ix":
        r = cur.get_columns(o["columns"], with_index=o["with_index"])
        return r, obs_itable(r)
    r, obs = apply_op(tables, cur, o)
    if k in ("count", "distinct", "count_unique", "distinct_arg"):
        return r, (obs[0] if k == "count" and isinstance(obs, list) else obs)
    return r, obs_itable(r)


def run_iops(case):
    out = []
    case_tables_json[0] = case["tables"]
    try:
        tables = [build(tb) for tb in case["tables"]]
        cur = tables[0]
        cur.index_name
    except Exception as e:  # noqa: BLE001
        return [{"exc": exc_code(e), "type": type(e).__name__, "msg": str(e)[:120]}]
    for o in case["ops"]:
        try:
            cur, obs = apply_iop(tables, cur, o)
        except Exception as e:  # noqa: BLE001
            out.append({"exc": exc_code(e), "type": type(e).__name__, "msg": str(e)[:120]})
            break
        out.append(obs)
    return out


def run_irt(case):
    """delimited round trip with title / legend rows and index_name"""
    from cogent3 import load_table
    from cogent3.util.table import Table

    tb = case["table"]
    data = {h: [from_json_cell(c) for c in col] for h, col in zip(tb["header"], tb["cols"])}
    tmp = tempfile.mkdtemp(prefix="c20_")
    res = {}
    try:
        t = Table(header=list(tb["header"]), data=data, title=case["title"], legend=case["legend"],
                  index_name=case["index_name"])
        t.index_name
        fmt = "tsv" if case["sep"] == "\t" else "csv"
        path = os.path.join(tmp, "t." + fmt)
        t.write(path)
        with open(path, newline="") as f:
            res["text"] = f.read()
        got = load_table(path, with_title=bool(case["title"]), with_legend=bool(case["legend"]),
                         index_name=case["index_name"])
        res["loaded"] = [got.title, got.legend, obs_itable(got)]
    except Exception as e:  # noqa: BLE001
        res["loaded"] = {"exc": exc_code(e), "type": type(e).__name__, "msg": str(e)[:160]}
    finally:
        shutil.rmtree(tmp, ignore_errors=True)
    return res


def run_case(case):
    if case["kind"] == "ops":
        return run_ops(case)
    if case["kind"] == "iops":
        return run_iops(case)
    if case["kind"] == "irt":
        return run_irt(case)
    return run_rt(case)


if __name__ == "__main__":
    serve(run_case, limit=60)
