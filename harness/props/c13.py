"""C13 — Data stores hold exactly what was written, record by record.

Stage P: Properties/C13.v (refinement of the directory / sqlite store state machines to a
dictionary, mode theorems, `_refuted` witnesses).
Stage C: the real DataStoreDirectory / DataStoreSqlite in scratch directories vs the Coq
state machines (vm_compute), observation after every operation, live instance and a freshly
re-opened read-only instance.
Stage S: a plain-Python dictionary oracle written from the property text, judged per
transition (observed consistent pre-state --op--> observed post-state)."""
from __future__ import annotations

import hashlib
import itertools
import json
import random

from vcheck import core
from vcheck.val import Exc, from_jsonable, jsonable, zstr

PROP = "C13"
COQ_TARGETS = ["theories/Model/DataStoreRun.vo"]

NC_PREFIX = "not_completed/"

# ------------------------------------------------------------------ generators

# (store, suffix, ids): identifier triples of the exhaustive block
ALPHABETS = {
    "dir-plain": ("dir", "fasta", ["a", "b.fasta", "c1"]),
    "dir-suffix-of": ("dir", "fasta", ["a", "ba", "a.fasta"]),
    "dir-sfxtext": ("dir", "fasta", ["fasta_a", "a.b", "x.json"]),
    "dir-mixed": ("dir", "fasta", ["ab.fasta", "b", "txt1"]),
    "dir-json": ("dir", "json", ["a", "a.json", "json1"]),
    "dir-short": ("dir", "fa", ["fa", "xfa.fa", "x"]),
    "sql-plain": ("sql", None, ["a", "ba", "results/a"]),
    "sql-suffix": ("sql", None, ["a.fasta", "a", "results_b"]),
}
QUICK_ALPHABETS = ["dir-plain", "dir-suffix-of", "dir-sfxtext", "dir-mixed", "sql-plain"]
LOG_ID = {"dir": "l.log", "sql": "l"}

DIR_POOL = ["a", "ba", "a.b", "ab.fasta", "fasta_a", "x.json", "txt1", "a.fasta", "b", "c1", "b.fasta", "json_a", "ab",
            "a_fasta", "x", "seq.1"]
SQL_POOL = ["a", "ba", "a.b", "ab.fasta", "results/a", "results_b", "x.json", "a.fasta", "b", "c1", "results/ba"]
LOG_POOL = {"dir": ["l.log", "run", "fasta.log", "a.log", "a"], "sql": ["l", "run.log", "a", "logs/run2"]}
PAYLOADS = ["p0", "p1", "p2", "p3"]


def op_alphabet(store, ids):
    ops = []
    for i in ids:
        ops += [["w", i], ["nc", i], ["drop", i]]
    ops += [["dropall"], ["log", LOG_ID[store]], ["open", "r"], ["open", "w"], ["open", "a"]]
    return ops


def with_payloads(ops):
    out = []
    for k, o in enumerate(ops):
        out.append(list(o) + [f"d{k}"] if o[0] in ("w", "nc", "log") else list(o))
    return out


def exhaustive_block(tier):
    depth = 3 if tier == "quick" else 4
    names = QUICK_ALPHABETS if tier == "quick" else list(ALPHABETS)
    cases = []
    for name in names:
        store, sfx, ids = ALPHABETS[name]
        alpha = op_alphabet(store, ids)
        d = depth if (tier == "quick" or name in ("dir-plain", "dir-suffix-of", "dir-sfxtext", "sql-plain")) else 3
        for seq in itertools.product(alpha, repeat=d):
            cases.append(dict(store=store, suffix=sfx, mode="w", ops=with_payloads(seq), obs_every=True,
                              block="exhaustive:" + name))
    return cases


def random_case(rng):
    store = "dir" if rng.random() < 0.6 else "sql"
    sfx = None
    if store == "dir":
        sfx = rng.choice(["fasta", "fasta", "fasta", "fa", "json", "txt"])
        pool = rng.sample(DIR_POOL, rng.randint(2, 5))
        if sfx != "fasta":
            pool = [p.replace("fasta", sfx) for p in pool]
    else:
        pool = rng.sample(SQL_POOL, rng.randint(2, 5))
    n = rng.randint(1, 25)
    ops = []
    for _ in range(n):
        r = rng.random()
        if r < 0.30:
            ops.append(["w", rng.choice(pool), rng.choice(PAYLOADS)])
        elif r < 0.55:
            ops.append(["nc", rng.choice(pool), rng.choice(PAYLOADS)])
        elif r < 0.62:
            ops.append(["log", rng.choice(LOG_POOL[store]), rng.choice(PAYLOADS)])
        elif r < 0.75:
            ops.append(["drop", rng.choice(pool)])
        elif r < 0.82:
            ops.append(["dropall"])
        else:
            ops.append(["open", rng.choice(["r", "w", "a", "w", "a"])])
    return dict(store=store, suffix=sfx, mode=rng.choice(["w", "w", "a"]), ops=ops, obs_every=rng.random() < 0.7,
                block="random")


CORPUS = [
    # design-phase candidates (a), (b), (c)
    dict(store="dir", suffix="fasta", mode="w", ops=[["nc", "ba", "d0"], ["w", "a", "d1"]], obs_every=True, block="corpus"),
    dict(store="dir", suffix="fasta", mode="w", ops=[["w", "fasta_seq.fasta", "d0"]], obs_every=True, block="corpus"),
    dict(store="sql", suffix=None, mode="w", ops=[["w", "a", "d0"], ["nc", "a", "d1"], ["open", "r"]], obs_every=True,
         block="corpus"),
]


# ------------------------------------------------------------------ the dictionary oracle (from the property text)

def md5tag(data):
    return "=" + data


def lid_of(store, sfx, raw):
    """the record an identifier names.  Directory stores: identifiers are used "with and without
    format suffixes", the record is named by the identifier without its final extension
    (cogent3.app.data_store.get_unique_id: "strips any format suffixes from name").  Sqlite stores:
    the identifier itself, optionally prefixed by the table name."""
    if store == "sql":
        return raw[len("results/"):] if raw.startswith("results/") else raw
    i = raw.rfind(".")
    return raw[:i] if 0 < i < len(raw) - 1 else raw


def decode(store, sfx, snap):
    """observed snapshot -> dictionary state {C: {lid: [(data, md5), ...]}, N: {...}} or None"""
    if isinstance(snap, Exc) or snap is None:
        return None
    comp, nc, _logs, recs, _logrecs, _val = snap
    if isinstance(comp, Exc) or isinstance(nc, Exc):
        return None
    C, N = {}, {}
    byuid = {}
    for uid, data, md5 in recs:
        byuid.setdefault(uid, []).append((data, md5))
    for uid in comp:
        if store == "dir":
            if not uid.endswith("." + sfx) or "/" in uid:
                return None
            lid = uid[: -len(sfx) - 1]
        else:
            lid = uid
        C.setdefault(lid, []).append(byuid[uid].pop(0))
    for uid in nc:
        if store == "dir":
            if not (uid.startswith(NC_PREFIX) and uid.endswith(".json")):
                return None
            lid = uid[len(NC_PREFIX): -len(".json")]
        else:
            lid = uid
        N.setdefault(lid, []).append(byuid[uid].pop(0))
    return dict(C=C, N=N)


def consistent(st):
    """a dictionary state: no duplicate members, every content readable"""
    if st is None:
        return False
    for tab in (st["C"], st["N"]):
        for v in tab.values():
            if len(v) != 1 or isinstance(v[0][0], Exc) or isinstance(v[0][1], Exc):
                return False
    return True


def flat(st):
    return dict(C={k: v[0] for k, v in st["C"].items()}, N={k: v[0] for k, v in st["N"].items()})


def oracle_step(pre, mode, store, sfx, op):
    """pre: {C: {lid: (data, md5)}, N: {...}}.  Returns (list of acceptable post states, may_raise)."""
    C, N = pre["C"], pre["N"]
    kind = op[0]
    same = [dict(C=dict(C), N=dict(N))]
    if kind == "open":
        return same, False
    if mode == "r":
        return same, True                      # read-only never mutates (how it refuses is not prescribed)
    if kind == "log":
        return same, True                      # log records are not part of the judged observation
    if kind == "dropall":
        return [dict(C=dict(C), N={})], False
    lid = lid_of(store, sfx, op[1])
    if kind == "drop":
        n2 = dict(N)
        n2.pop(lid, None)
        return [dict(C=dict(C), N=n2)], False
    rec = (op[2], md5tag(op[2]))
    if kind == "w":
        c2, n2 = dict(C), dict(N)
        c2[lid] = rec
        n2.pop(lid, None)
        done = dict(C=c2, N=n2)
        if mode == "a":
            if lid in C:
                return same, True              # append never overwrites
            if lid in N:
                return same + [done], True     # completing a not-completed record in append mode: either reading accepted
        return [done], False
    if kind == "nc":
        n2 = dict(N)
        n2[lid] = rec
        if mode == "a" and (lid in C or lid in N):
            return same, True
        if lid in C:
            c2 = dict(C)
            c2.pop(lid)
            # a not-completed write over a completed record: the record stays completed and intact, or becomes not completed
            return [dict(C=dict(C), N=n2), dict(C=c2, N=n2)], False
        return [dict(C=dict(C), N=n2)], False
    raise ValueError(kind)


def id_shape(store, sfx, raw):
    if raw is None:
        return "-"
    lid = lid_of(store, sfx, raw)
    tags = []
    if store == "dir":
        if sfx in lid or "json" in lid:
            tags.append("sfxtext")
        if "." in lid:
            tags.append("dotted")
    else:
        if raw.startswith("results"):
            tags.append("tableprefix")
    return "+".join(tags) or "plain"


def diff_symptoms(exp, got, lid_op):
    """list of symptom strings, most severe first"""
    out = []
    if got is None:
        return ["unreadable-listing"]
    for tab in ("C", "N"):
        e, g = exp[tab], got[tab]
        for lid in sorted(set(e) | set(g)):
            who = "same" if lid == lid_op else "other"
            rel = ""
            if who == "other" and lid_op is not None:
                rel = "(endswith)" if lid.endswith(lid_op) else "(startswith)" if lid.startswith(lid_op) else "(unrelated)"
            gl = g.get(lid, [])
            if lid in e and not gl:
                out.append((0 if who == "other" else 2, f"{who}{rel}.{tab}.lost"))
                continue
            if lid not in e:
                out.append((1 if who == "other" else 3, f"{who}{rel}.{tab}.phantom"))
                continue
            if len(gl) > 1:
                out.append((8, f"{who}{rel}.{tab}.duplicate-member"))
            data, md5 = gl[0]
            if isinstance(data, Exc):
                out.append((4, f"{who}{rel}.{tab}.unreadable"))
            elif data != e[lid][0]:
                out.append((4 if who == "other" else 5, f"{who}{rel}.{tab}.content"))
            if md5 != e[lid][1]:
                out.append((6 if who == "other" else 7, f"{who}{rel}.{tab}.md5-" + ("missing" if md5 is None else "wrong")))
    out.sort()
    return [s for _, s in out]


def judge_case(c, res):
    """yields (step, key, detail) for every judged transition that violates the dictionary model;
    also returns the number of judged transitions through the list `stats`"""
    store, sfx = c["store"], c["suffix"]
    mode = c["mode"]
    pre = dict(C={}, N={})      # a new store is empty
    findings = []
    judged = 0
    for k, (op, r) in enumerate(zip(c["ops"], res)):
        ret, live, fresh = r
        new_mode = mode
        if op[0] == "open" and not isinstance(ret, Exc):
            new_mode = op[1]
        if live is None and fresh is None:      # not observed at this step
            pre = None if pre is None else _advance_unobserved(pre, mode, store, sfx, op)
            mode = new_mode
            continue
        gl, gf = decode(store, sfx, live), decode(store, sfx, fresh)
        if pre is not None:
            judged += 1
            exps, may_raise = oracle_step(pre, mode, store, sfx, op)
            lid_op = lid_of(store, sfx, op[1]) if op[0] in ("w", "nc", "drop") else None
            best = None
            for e in exps:
                el = {t: {l: [v] for l, v in e[t].items()} for t in ("C", "N")}
                ok_live = gl is not None and gl == el
                ok_fresh = gf is not None and gf == el
                if ok_live and ok_fresh:
                    best = []
                    break
                sy = [("reopened:" + s) for s in diff_symptoms(e, gf, lid_op)] if not ok_fresh else []
                sy += [("live:" + s) for s in diff_symptoms(e, gl, lid_op)] if not ok_live else []
                if best is None or len(sy) < len(best):
                    best = sy
            symptoms = list(best)
            if not symptoms and isinstance(ret, Exc) and not may_raise:
                symptoms = [f"raised:{ret.code}"]
            if symptoms:
                inC, inN = lid_op in pre["C"], lid_op in pre["N"]
                prem = "-" if lid_op is None else ("onCN" if inC and inN else "onC" if inC else "onN" if inN else "new")
                opk = op[0] if op[0] != "open" else "open-" + op[1]
                modek = {"r": "readonly", "a": "append", "w": "overwrite"}[mode]
                # the mode is part of the kind only where the property speaks about it
                prim = symptoms[0]
                mk = modek if (mode == "r" or (mode == "a" and "content" in prim)) else "rw"
                key = f"{store}:{opk}:{mk}:{id_shape(store, sfx, op[1] if len(op) > 1 and op[0] != 'open' else None)}:{prem}:{prim}"
                findings.append((k, key, dict(step=k, op=op, mode=mode, pre=_show(pre), acceptable=[_show(e) for e in exps],
                                              observed_live=_showl(gl), observed_reopened=_showl(gf), ret=jsonable(ret),
                                              symptoms=symptoms)))
        # resynchronise on what the store now holds
        if consistent(gl) and consistent(gf) and gl == gf:
            pre = flat(gf)
        else:
            pre = None
        mode = new_mode
    return findings, judged


def _advance_unobserved(pre, mode, store, sfx, op):
    exps, _ = oracle_step(pre, mode, store, sfx, op)
    return exps[0] if len(exps) == 1 else None


def _show(st):
    return {t: {k: list(v) for k, v in st[t].items()} for t in ("C", "N")}


def _showl(st):
    if st is None:
        return None
    return {t: {k: [jsonable(list(x)) for x in v] for k, v in st[t].items()} for t in ("C", "N")}


# ------------------------------------------------------------------ rendering for Coq / running the model

def coq_op(o):
    k = o[0]
    if k == "w":
        return f"OWrite {zstr(o[1])} {zstr(o[2])}"
    if k == "nc":
        return f"OWriteNC {zstr(o[1])} {zstr(o[2])}"
    if k == "log":
        return f"OWriteLog {zstr(o[1])} {zstr(o[2])}"
    if k == "drop":
        return f"ODrop {zstr(o[1])}"
    if k == "dropall":
        return "ODropAll"
    if k == "open":
        return "OReopen " + {"r": "MR", "w": "MW", "a": "MA"}[o[1]]
    raise ValueError(k)


def coq_case(c):
    kind = "true" if c["store"] == "dir" else "false"
    sfx = zstr(c["suffix"] or "")
    mode = {"r": "MR", "w": "MW", "a": "MA"}[c["mode"]]
    return f"({kind}, {sfx}, {mode}, {'true' if c.get('obs_every', True) else 'false'}, [" + ";".join(coq_op(o) for o in c["ops"]) + "])"


def run_model(cases, shard=250):
    return core.coq_eval(PROP, ["Model.DataStore", "Model.SqlStore", "Model.DataStoreRun"], "run_case",
                         [coq_case(c) for c in cases], "bool * list Z * mode * bool * list op", shard=shard)


def norm_impl(res):
    """implementation observation -> the shape the model prints (fresh = None when equal to live)"""
    out = []
    for ret, live, fresh in res:
        out.append([ret, live, None if fresh == live else fresh])
    return out


# ------------------------------------------------------------------ the check

def build_cases(tier, rng, widen=1):
    cases = list(CORPUS) + exhaustive_block(tier)
    nrand = (600 if tier == "quick" else 12000) * widen
    cases += [random_case(rng) for _ in range(nrand)]
    return cases


def run(tier: str, seed: int) -> int:
    rep = core.Report(PROP, tier, seed)
    rng = random.Random(seed * 7919 + 13)
    pr = core.proof_stage(PROP, COQ_TARGETS)
    core.proof_coverage(rep, pr, "make theories/Properties/C13.vo && coqc gen/assum_C13.v (Print Assumptions)", [
        "md5 digests are treated as an injective tag of the payload (the model stores the payload where the code stores its hex digest)",
        "file system (directory listing, unlink, rmdir, mkdir) and sqlite3 statement execution are re-modelled in "
        "Model/DataStore.v / Model/SqlStore.v as finite maps / row lists, not verified",
        "pathlib name/stem/suffix, str.replace/endswith/in, and the two regular expressions are re-modelled on code-point lists "
        "(identifiers: no '/', no newline, no leading '.', lower-case ASCII; suffix: [a-z0-9]+, not a compression suffix)",
    ])
    proof_broken = bool(pr["problems"])
    cases = build_cases(tier, rng, widen=4 if proof_broken else 1)
    impl = [from_jsonable(r) for r in core.run_impl_sharded("c13_impl.py", cases, nshards=core.NPROC)]
    model = None
    try:
        model = run_model(cases)
    except core.CheckError as e:
        if not proof_broken:
            raise
        rep.notes.append(f"model not runnable: {str(e)[:300]}")
    njudged = nvio = ndis = 0
    disagreements = []
    nontrivial = set()
    dist = {}
    keys_seen = {}
    for idx, (c, ir) in enumerate(zip(cases, impl)):
        for o in c["ops"]:
            dist[o[0]] = dist.get(o[0], 0) + 1
        if isinstance(ir, dict) and "exc" in ir:
            nvio += 1
            rep.violation("harness:case-raised" + (":hang" if ir.get("hang") else ""),
                          dict(case=c, observed_impl=jsonable(ir), broken="the runner itself raised or hung on this history"))
            continue
        findings, judged = judge_case(c, ir)
        njudged += judged
        if any(o[0] in ("w", "nc") for o in c["ops"]) and len(c["ops"]) >= 2:
            nontrivial.add(json.dumps([c["store"], c["suffix"], c["mode"], c["ops"]]))
        mr = model[idx] if model is not None else None
        for (k, key, detail) in findings:
            nvio += 1
            keys_seen[key] = keys_seen.get(key, 0) + 1
            small = dict(c, ops=c["ops"][: k + 1], obs_every=c.get("obs_every", True))
            rep.violation(key, dict(case=small, expected_by_spec=detail["acceptable"], observed_impl=dict(
                live=detail["observed_live"], reopened=detail["observed_reopened"], ret=detail["ret"]),
                model_output=jsonable(mr[k]) if mr is not None else None, detail=detail,
                broken="store state after this operation differs from the dictionary model"))
        if mr is not None and norm_impl(ir) != mr:
            ndis += 1
            if not findings:
                kk = next((k for k, (a, b) in enumerate(zip(norm_impl(ir), mr)) if a != b), 0)
                disagreements.append(dict(key=f"{c['store']}:{c['ops'][kk][0]}", case=dict(c, ops=c["ops"][: kk + 1]),
                                          observed_impl=jsonable(norm_impl(ir)[kk]), model_output=jsonable(mr[kk])))
    rep.coverage.update(
        evaluations=njudged, distinct_nontrivial=len(nontrivial),
        rule="one evaluation = one judged transition (observed consistent dictionary state --op--> observed live and re-opened "
             "state); non-trivial case = history of >= 2 operations containing at least one record write; exhaustive block: "
             "every operation sequence of the stated depth over 3 identifiers x {write, write_not_completed, drop} + drop-all + "
             "write_log + re-open r/w/a",
        samples=[dict(case=cases[3], impl=jsonable(impl[3]))] if len(cases) > 3 else [],
        input_distribution=dict(cases=len(cases), ops=dist, blocks={b: sum(1 for c in cases if c["block"] == b)
                                                                    for b in sorted({c["block"] for c in cases})}),
        model_impl_disagreements=ndis, spec_violations=nvio, violation_keys=keys_seen,
        exhaustive=True,
    )
    core.conclude(rep, pr, f"{len(cases)} histories / {njudged} transitions against the dictionary oracle", disagreements[:5],
                  "Model.DataStoreRun.run_case vs cogent3.app.data_store / sqlite_data_store", tier, PROP)
    return rep.finish("proof")


def replay(path: str) -> int:
    d = json.loads(open(path).read())
    if "case" not in d:
        print("replay names a broken obligation, not an input:", d.get("broken"))
        return 1
    c = d["case"]
    ir = from_jsonable(core.run_impl_lines("c13_impl.py", [c])[0])
    print("case  :", json.dumps(c))
    if isinstance(ir, dict) and "exc" in ir:
        print("impl  :", ir)
        print("REPRODUCED (runner raised)")
        return 1
    findings, _ = judge_case(c, ir)
    for op, r in zip(c["ops"], ir):
        print("impl  :", op, "->", json.dumps(jsonable(r)))
    for (k, key, detail) in findings:
        print(f"oracle: step {k} {detail['op']} key={key}")
        print("        acceptable:", json.dumps(detail["acceptable"]))
        print("        live      :", json.dumps(detail["observed_live"]))
        print("        reopened  :", json.dumps(detail["observed_reopened"]))
    want = d.get("key")
    bad = any(key == want for (_, key, _) in findings) if want and not want.startswith(("correspondence", "proof", "coqchk")) else bool(findings)
    if d.get("key", "").startswith("correspondence"):
        mr = run_model([c])[0]
        print("model :", json.dumps(jsonable(mr)))
        bad = norm_impl(ir) != mr
    print("REPRODUCED" if bad else "not reproduced")
    return 1 if bad else 0
