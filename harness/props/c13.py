"""C13 — Data stores hold exactly what was written, record by record.

Stage P: Properties/C13.v (refinement of the directory / sqlite store state machines to a
dictionary, mode theorems, `_refuted` witnesses).
Stage C: the real DataStoreDirectory / DataStoreSqlite in scratch directories vs the Coq
state machines (vm_compute), observation after every operation, live instance and a freshly
re-opened read-only instance.
Stage S: a plain-Python dictionary oracle written from the property text, judged per
transition (observed consistent pre-state --op--> observed post-state)."""
from __future__ import annotations

import hashlib
import itertools
import json
import random
import re
import subprocess

from vcheck import core
from vcheck.val import Exc, from_jsonable, jsonable, zstr

PROP = "C13"
COQ_TARGETS = ["theories/Model/DataStoreRun.vo", "theories/Proofs/DsNamesEq.vo"]
MODEL_TARGETS = ["theories/Model/DataStoreRun.vo"]
TRANSLATOR = "harness/translators/ds_names.py"


# ------------------------------------------------------------------ translator tie (identifier / file-name computations)

def run_translator():
    """regenerate gen/DsNamesGen.v from the current source text; returns (error string or None, records)"""
    core.GEN.mkdir(exist_ok=True)
    rec = core.GEN / "DsNamesGen.records.json"
    if rec.exists():
        rec.unlink()
    r = subprocess.run([core.PY, str(core.VERIF / TRANSLATOR), "--repo", str(core.REPO), "--records", str(rec)],
                       capture_output=True, text=True, env=core.impl_env(), cwd=str(core.VERIF))
    out = core.GEN / "DsNamesGen.v"
    if r.returncode != 0:
        return (r.stderr or r.stdout).strip()[-800:] or f"translator exited with {r.returncode}", []
    if not r.stdout.rstrip().endswith("End DsNamesGen."):
        return "translator produced truncated output", []
    if not out.exists() or out.read_text() != r.stdout:
        out.write_text(r.stdout)
    try:
        records = json.loads(rec.read_text())
    except (OSError, ValueError) as e:
        return f"translator wrote no function records: {e}", []
    return None, records


def pre_build():
    err, _ = run_translator()
    if err:
        raise core.CheckError("ds_names translator failed: " + err)


def explain_tie_break(problem):
    """a build failure inside DsNamesEq.v / DsNamesGen.v is a broken translator tie: name the lemma / generated function"""
    m = re.search(r"(Proofs/DsNamesEq\.v|gen/DsNamesGen\.v):(\d+)", problem)
    if not m:
        return problem
    path = core.COQ / ("theories/" + m.group(1) if m.group(1).startswith("Proofs") else m.group(1))
    try:
        lines = path.read_text().split("\n")[: int(m.group(2))]
    except OSError:
        return problem
    lemma = None
    for ln in lines:
        mm = re.match(r"(?:Lemma|Definition)\s+(\w+)", ln)
        if mm:
            lemma = mm.group(1)
    what = ("the name computation generated from the current source is no longer provably equal to the function of "
            "Model/DataStore.v / Model/SqlStore.v" if m.group(1).startswith("Proofs") else "the generated Gallina does not type-check")
    return f"translator tie broken at {lemma}: {what} ({problem})"


def tie_report(terr, records, pr):
    """coverage['translator_tie']: what was translated and whether equality with the model was proved in this run"""
    src = core.strip_comments((core.COQ / "theories" / "Proofs" / "DsNamesEq.v").read_text())
    lemmas = re.findall(r"Lemma\s+(\w+_eq|drop_loop_gen|re_sub_is_replace_comp)\b", src)
    gen_thms = [t for t in pr.get("theorems", {}) if t.startswith("gen_")]
    proved = terr is None and not pr.get("problems") and bool(gen_thms) and all(pr["theorems"][t]["ok"] for t in gen_thms)
    if terr is not None:
        status = "broken: translator failed closed: " + terr
    elif pr.get("problems"):
        status = "broken: " + "; ".join(str(x) for x in pr["problems"])[:600]
    else:
        status = "ok"
    return dict(
        status=status, translator=TRANSLATOR, generated="coq/gen/DsNamesGen.v (module DsNamesGen)",
        equality_file="coq/theories/Proofs/DsNamesEq.v", equality_with_model_proved=proved,
        equality_lemmas=lemmas if proved else [], transported_theorems=gen_thms if proved else [],
        functions=records,
        reading="str = list of code points; `if s` = s != ''; Path(x).name/.stem/.suffix = Lib/Chars.v path_name/path_stem/path_suffix; "
                "(p / x).name = Path(x).name, str(Path(a) / x) = a + '/' + x (x a non-empty relative name); rf'[.]{re.escape(E)}(?=[.]|$)' = "
                "Lib/PyStr.v re_sub_dot_lit_la (left-to-right scan; proved to be dotted-component replacement for E without '.'); "
                "rf'[.](A|B)$' = re_sub_dot_alts_end (longest alternative; unescaped alternatives are plain text); "
                "re.compile(r'\\.(log|json)$').search = re_search_dot_alts_end; no newline in identifiers; get_format_suffixes is not "
                "translated: the hash of its text is pinned and it is read as Model.DataStore.get_format_suffixes",
    )

NC_PREFIX = "not_completed/"

# ------------------------------------------------------------------ generators

# (store, suffix, ids): identifier triples of the exhaustive block
ALPHABETS = {
    "dir-plain": ("dir", "fasta", ["a", "b.fasta", "c1"]),
    "dir-suffix-of": ("dir", "fasta", ["a", "ba", "a.fasta"]),
    "dir-prefix-of": ("dir", "fasta", ["a", "ab", "ab.fasta"]),
    "dir-sfxtext": ("dir", "fasta", ["fasta_a", "a", "json_a"]),
    "dir-json": ("dir", "json", ["a", "a.json", "ba"]),
    "dir-short": ("dir", "fa", ["fa", "xfa.fa", "x"]),
    "dir-dotted": ("dir", "fasta", ["a.b", "a", "x.json"]),
    "dir-inner-dots": ("dir", "fasta", ["a.fasta", "a.v2.fasta", "a.v2.final.fasta"]),
    "sql-plain": ("sql", None, ["a", "ba", "results/a"]),
    "sql-suffix": ("sql", None, ["a.fasta", "a", "results_b"]),
}
QUICK_ALPHABETS = ["dir-suffix-of", "dir-sfxtext", "sql-plain"]
QUICK_SHALLOW = ["dir-plain", "dir-prefix-of", "dir-json", "dir-short", "dir-dotted", "dir-inner-dots", "sql-suffix"]
DEEP_ALPHABETS = ("dir-suffix-of", "sql-plain")
LOG_ID = {"dir": "l.log", "sql": "l"}

DIR_POOL = ["a", "ba", "ab", "ab.fasta", "a.fasta", "b", "c1", "b.fasta", "x", "aba", "b_a", "cab.fasta"]
DIR_POOL_ODD = ["fasta_a", "json_a", "a_fasta", "txt1", "a.b", "x.json", "seq.1", "seq.2"]
SQL_POOL = ["a", "ba", "a.b", "ab.fasta", "results/a", "results_b", "x.json", "a.fasta", "b", "c1", "results/ba"]
LOG_POOL = {"dir": ["l.log", "run", "fasta.log", "a.log", "a"], "sql": ["l", "run.log", "a", "logs/run2"]}
PAYLOADS = ["p0", "p1", "p2", "p3"]


def op_alphabet(store, ids):
    ops = []
    for i in ids:
        ops += [["w", i], ["nc", i], ["drop", i]]
    ops += [["dropall"], ["log", LOG_ID[store]], ["open", "r"], ["open", "w"], ["open", "a"]]
    return ops


def with_payloads(ops):
    out = []
    for k, o in enumerate(ops):
        out.append(list(o) + [f"d{k}"] if o[0] in ("w", "nc", "log") else list(o))
    return out


def exhaustive_block(tier):
    depth = 3 if tier == "quick" else 4
    names = QUICK_ALPHABETS + QUICK_SHALLOW if tier == "quick" else list(ALPHABETS)
    cases = []
    for name in names:
        store, sfx, ids = ALPHABETS[name]
        alpha = op_alphabet(store, ids)
        if tier == "quick":
            d = 3 if name in QUICK_ALPHABETS else 2
        else:
            d = depth if name in DEEP_ALPHABETS else 3
        for seq in itertools.product(alpha, repeat=d):
            cases.append(dict(store=store, suffix=sfx, mode="w", ops=with_payloads(seq), obs_every=True,
                              block="exhaustive:" + name))
    return cases


INNER_DOT_NAMES = ["a.fasta", "a.v2.fasta", "a.v2.final.fasta", "a.b", "a"]


def inner_dots_block():
    """identifiers with inner periods that share their first dotted component, given with the format suffix (and the
    two short forms a.b / a): every ordered selection of 1..3 of them written as completed records, then the store is
    re-opened in each mode; after every step the snapshot holds ds.md5(id) (= member.md5), read() and validate() of the
    live store and of a fresh read-only one.  Runs in both tiers, also when the translator tie is broken."""
    cases = []
    for store, sfx in (("dir", "fasta"), ("sql", None)):
        for r in (1, 2, 3):
            for sel in itertools.permutations(INNER_DOT_NAMES, r):
                for final in (None, "r", "w", "a"):
                    ops = [["w", n, f"d{k}"] for k, n in enumerate(sel)]
                    if final:
                        ops.append(["open", final])
                    cases.append(dict(store=store, suffix=sfx, mode="w", ops=ops, obs_every=True, block="inner-dots"))
    return cases


def random_case(rng):
    store = "dir" if rng.random() < 0.6 else "sql"
    sfx = None
    if store == "dir":
        sfx = rng.choice(["fasta", "fasta", "fasta", "fa", "json", "txt"])
        pool = rng.sample(DIR_POOL, rng.randint(2, 5))
        if rng.random() < 0.25:
            pool += rng.sample(DIR_POOL_ODD, rng.randint(1, 2))
        if sfx != "fasta":
            pool = [p.replace("fasta", sfx) for p in pool]
    else:
        pool = rng.sample(SQL_POOL, rng.randint(2, 5))
    n = rng.randint(1, 25)
    ops = []
    for _ in range(n):
        r = rng.random()
        if r < 0.30:
            ops.append(["w", rng.choice(pool), f"p{len(ops)}"])
        elif r < 0.55:
            ops.append(["nc", rng.choice(pool), f"q{len(ops)}"])
        elif r < 0.62:
            ops.append(["log", rng.choice(LOG_POOL[store]), rng.choice(PAYLOADS)])
        elif r < 0.75:
            ops.append(["drop", rng.choice(pool)])
        elif r < 0.82:
            ops.append(["dropall"])
        else:
            ops.append(["open", rng.choice(["r", "w", "a", "w", "a"])])
    return dict(store=store, suffix=sfx, mode=rng.choice(["w", "w", "a"]), ops=ops, obs_every=rng.random() < 0.7,
                block="random")


def _c(store, sfx, mode, ops):
    return dict(store=store, suffix=sfx, mode=mode, ops=ops, obs_every=True, block="corpus")


CORPUS = [
    # one witness per root cause seen so far (each also has a `_refuted` theorem in Properties/C13.v)
    _c("dir", "fasta", "w", [["nc", "ba", "d0"], ["w", "a", "d1"]]),                       # C13-1 endswith
    _c("dir", "fasta", "w", [["w", "fasta_seq.fasta", "d0"]]),                             # C13-2 md5 name
    _c("dir", "fasta", "w", [["nc", "fasta_a", "d0"]]),                                    # C13-2 stored under another name
    _c("dir", "fasta", "w", [["nc", "a", "d0"], ["w", "a", "d1"]]),                        # C13-3 md5 of the completed record deleted
    _c("dir", "fasta", "w", [["nc", "a", "d0"], ["open", "r"], ["drop", "a"]]),            # C13-4 read-only drop
    _c("dir", "fasta", "w", [["nc", "a", "d0"], ["open", "r"], ["dropall"]]),
    _c("dir", "fasta", "w", [["w", "a", "d0"], ["w", "a", "d1"]]),                         # C13-5 overwrite ignored
    _c("dir", "fasta", "w", [["nc", "a", "d0"], ["open", "a"], ["nc", "a", "d1"]]),        # re-run of a failed input in append mode
    _c("dir", "fasta", "w", [["nc", "a", "d0"], ["nc", "a", "d1"]]),                       # C13-5 duplicate member
    _c("sql", None, "w", [["w", "a", "d0"], ["nc", "a", "d1"], ["open", "r"]]),            # C13-6
    _c("sql", None, "w", [["nc", "a", "d0"], ["nc", "a", "d1"]]),                          # C13-6 duplicate member
    _c("dir", "fasta", "w", [["w", "a", "d0"], ["nc", "a", "d1"]]),                        # no patch: md5 file shared
    _c("dir", "fasta", "w", [["w", "g.v1", "d0"], ["w", "g.v2", "d1"]]),                   # no patch: dotted ids collide
]


# ------------------------------------------------------------------ the dictionary oracle (from the property text)
#
# The store is two dictionaries keyed by record name: completed C and not completed N, each
# value (content, checksum of that content).
#   write(x, d)                C[x] = d; N.pop(x)          ("a completed write retires exactly the same id's
#                                                            not-completed record")
#   write_not_completed(x, d)  N[x] = d                     (C[x], if any: the property is silent -> it may stay
#                                                            intact or be retired, nothing else)
#   drop_not_completed(x)      N.pop(x)        drop_not_completed()   N.clear()
#   write_log                  no effect on C, N
#   close + re-open(mode)      no effect on C, N
#   append mode                a write / write_not_completed of a name that is completed never changes anything; a name
#                              that is only in N may be completed by write, and its not-completed record may be replaced
#                              by write_not_completed (re-run of a failed input) or be refused: the text is silent
#   read-only mode             nothing ever changes
# Record name of an identifier: directory stores accept identifiers "with and without format suffixes":
# the name is the identifier without a trailing ".<store suffix>".  Sqlite: the identifier; write and
# write_not_completed accept it prefixed by the table name ("results/x").

def md5tag(data):
    return "=" + data


def lid_of(store, sfx, raw, kind="w"):
    if store == "sql":
        if kind in ("w", "nc") and raw.startswith("results/"):
            return raw[len("results/"):]
        return raw
    if sfx and raw.endswith("." + sfx) and len(raw) > len(sfx) + 1:
        return raw[: -len(sfx) - 1]
    return raw


def decode(store, sfx, snap):
    """observed snapshot -> dictionary state {C: {lid: [(data, md5), ...]}, N: {...}} or None"""
    if isinstance(snap, Exc) or snap is None:
        return None
    comp, nc, _logs, recs, _logrecs, _val = snap
    if isinstance(comp, Exc) or isinstance(nc, Exc):
        return None
    C, N = {}, {}
    byuid = {}
    for uid, data, md5 in recs:
        byuid.setdefault(uid, []).append((data, md5))
    for uid in comp:
        if store == "dir":
            if not uid.endswith("." + sfx) or "/" in uid:
                return None
            lid = uid[: -len(sfx) - 1]
        else:
            lid = uid
        C.setdefault(lid, []).append(byuid[uid].pop(0))
    for uid in nc:
        if store == "dir":
            if not (uid.startswith(NC_PREFIX) and uid.endswith(".json")):
                return None
            lid = uid[len(NC_PREFIX): -len(".json")]
        else:
            lid = uid
        N.setdefault(lid, []).append(byuid[uid].pop(0))
    return dict(C=C, N=N)


def consistent(st):
    """a dictionary state: no duplicate members, every content readable"""
    if st is None:
        return False
    for tab in (st["C"], st["N"]):
        for v in tab.values():
            if len(v) != 1 or isinstance(v[0][0], Exc) or isinstance(v[0][1], Exc):
                return False
    return True


def flat(st):
    return dict(C={k: v[0] for k, v in st["C"].items()}, N={k: v[0] for k, v in st["N"].items()})


def oracle_step(pre, mode, store, sfx, op):
    """pre: {C: {lid: (data, md5)}, N: {...}}.  Returns the list of acceptable post states."""
    C, N = pre["C"], pre["N"]
    kind = op[0]
    same = [dict(C=dict(C), N=dict(N))]
    if kind == "open" or mode == "r" or kind == "log":
        return same
    if kind == "dropall":
        return [dict(C=dict(C), N={})]
    lid = lid_of(store, sfx, op[1], kind)
    if kind == "drop":
        n2 = dict(N)
        n2.pop(lid, None)
        return [dict(C=dict(C), N=n2)]
    rec = (op[2], md5tag(op[2]))
    if kind == "w":
        c2, n2 = dict(C), dict(N)
        c2[lid] = rec
        n2.pop(lid, None)
        done = dict(C=c2, N=n2)
        if mode == "a":
            if lid in C:
                return same
            if lid in N:
                return same + [done]
        return [done]
    if kind == "nc":
        n2 = dict(N)
        n2[lid] = rec
        if mode == "a" and lid in C:
            return same
        if mode == "a" and lid in N:
            # re-running a failed input replaces its not-completed record (directory store, apply_to); refusing is fine too
            return same + [dict(C=dict(C), N=n2)]
        if lid in C:
            c2 = dict(C)
            c2.pop(lid)
            return [dict(C=dict(C), N=n2), dict(C=c2, N=n2)]
        return [dict(C=dict(C), N=n2)]
    raise ValueError(kind)


def trigger(pre, mode, store, sfx, op):
    """coarse classifier of a judged transition: the situation the operation is applied in.  A
    violation is keyed by it (stable across seeds; one key per root cause seen so far)."""
    kind = op[0]
    if kind in ("open", "log"):
        return kind if kind == "log" else "open-" + op[1]
    C, N = pre["C"], pre["N"]
    if kind == "dropall":
        return ("drop-in-readonly" if mode == "r" else
                "name-completed-and-not-completed" if (store == "dir" and any(y in C for y in N)) else "drop-all")
    lid = lid_of(store, sfx, op[1], kind)
    if store == "dir" and ("/" in lid or ("." in lid and lid == op[1])):
        # an identifier given WITHOUT the format suffix whose name has an inner period: Path.stem cuts it (known finding).
        # Given WITH the format suffix (a.v2.fasta) the name a.v2 is kept and is judged like any other name.
        return "dotted-id"
    if mode == "r":
        return "drop-in-readonly" if kind == "drop" else kind + "-in-readonly"
    if store == "dir" and lid in C and lid in N:
        # only reachable through a not-completed write over a completed record (the md5 side file is shared)
        return "name-completed-and-not-completed"
    if store == "dir" and kind in ("w", "drop") and any(y != lid and y.endswith(lid) for y in N):
        return "id-is-suffix-of-not-completed-id"
    where = "on-" + ("C" if lid in C else "") + ("N" if lid in N else "") if (lid in C or lid in N) else "new"
    m = "append" if mode == "a" else "overwrite"
    t = "drop:" + where if kind == "drop" else f"{kind}:{m}:{where}"
    if store == "dir" and benign(t) and (sfx in lid or "json" in lid):
        return "suffix-text-in-id"
    if store == "sql" and benign(t) and op[1].startswith("results"):
        return "table-prefixed-id"
    return t


def benign(trig):
    return (trig.endswith(":new") or trig in ("drop:new", "drop:on-N", "drop-all", "log", "w-in-readonly", "nc-in-readonly")
            or trig.startswith("open-"))


def diff_symptoms(exp, got, lid_op):
    """list of symptom strings, most severe first"""
    out = []
    if got is None:
        return ["unreadable-listing"]
    for tab in ("C", "N"):
        e, g = exp[tab], got[tab]
        for lid in sorted(set(e) | set(g)):
            who = "same" if lid == lid_op else "other"
            gl = g.get(lid, [])
            if lid in e and not gl:
                out.append((0 if who == "other" else 2, f"{who}.{tab}.lost"))
                continue
            if lid not in e:
                out.append((1 if who == "other" else 3, f"{who}.{tab}.phantom"))
                continue
            if len(gl) > 1:
                out.append((8, f"{who}.{tab}.duplicate-member"))
            data, md5 = gl[0]
            if isinstance(data, Exc):
                out.append((4, f"{who}.{tab}.unreadable"))
            elif data != e[lid][0]:
                out.append((4 if who == "other" else 5, f"{who}.{tab}.content"))
            if md5 != e[lid][1]:
                out.append((6 if who == "other" else 7, f"{who}.{tab}.md5-" + ("missing" if md5 is None else "wrong")))
    out.sort()
    return [s for _, s in out]


def judge_case(c, res, first_only=True):
    """returns (findings, judged): findings = [(step, key, detail)] for judged transitions that violate the
    dictionary model.  Judging is per transition: observed consistent dictionary state --op--> observed
    state of the live instance and of a freshly re-opened read-only instance.  After the first violation
    of a history the rest of it is not judged (the state is then no longer one the oracle vouches for)."""
    store, sfx = c["store"], c["suffix"]
    mode = c["mode"]
    pre = dict(C={}, N={})      # a new store is empty
    findings = []
    judged = 0
    for k, (op, r) in enumerate(zip(c["ops"], res)):
        ret, live, fresh = r
        new_mode = mode
        if op[0] == "open" and not isinstance(ret, Exc):
            new_mode = op[1]
        if live is None and fresh is None:      # not observed at this step
            if pre is not None and not benign(trigger(pre, mode, store, sfx, op)):
                break       # an unobserved step in a situation with known trouble: later symptoms could not be attributed
            pre = None if pre is None else _advance_unobserved(pre, mode, store, sfx, op)
            mode = new_mode
            continue
        gl, gf = decode(store, sfx, live), decode(store, sfx, fresh)
        if pre is not None:
            judged += 1
            exps = oracle_step(pre, mode, store, sfx, op)
            lid_op = lid_of(store, sfx, op[1], op[0]) if op[0] in ("w", "nc", "drop") else None
            best = None
            for e in exps:
                el = {t: {l: [v] for l, v in e[t].items()} for t in ("C", "N")}
                ok_live = gl is not None and gl == el
                ok_fresh = gf is not None and gf == el
                if ok_live and ok_fresh:
                    best = []
                    break
                sy = [("reopened:" + s) for s in diff_symptoms(e, gf, lid_op)] if not ok_fresh else []
                sy += [("live:" + s) for s in diff_symptoms(e, gl, lid_op)] if not ok_live else []
                if best is None or len(sy) < len(best):
                    best = sy
            symptoms = list(best)
            if not symptoms:
                # the state is the dictionary's: validate() must then count every member as correct
                nmem = len(gl["C"]) + len(gl["N"])
                for tag, snap in (("live", live), ("reopened", fresh)):
                    v = snap[5] if isinstance(snap, list) and len(snap) == 6 else None
                    if isinstance(v, list) and len(v) == 4 and (v[1] != 0 or v[2] != 0 or v[0] != nmem):
                        symptoms.append(f"{tag}:validate.{'incorrect' if v[1] else 'missing' if v[2] else 'count'}")
            if symptoms:
                trig = trigger(pre, mode, store, sfx, op)
                key = f"{store}:{trig}"
                if benign(trig):
                    # no situation known to matter: keep the symptom in the key, it is a new kind
                    key += ":" + symptoms[0].split(":", 1)[1]
                findings.append((k, key, dict(step=k, op=op, mode=mode, pre=_show(pre), acceptable=[_show(e) for e in exps],
                                              observed_live=_showl(gl), observed_reopened=_showl(gf), ret=jsonable(ret),
                                              symptoms=symptoms)))
                if first_only:
                    break
        # resynchronise on what the store now holds
        if consistent(gl) and consistent(gf) and gl == gf:
            pre = flat(gf)
        else:
            pre = None
        mode = new_mode
    return findings, judged


def _advance_unobserved(pre, mode, store, sfx, op):
    exps = oracle_step(pre, mode, store, sfx, op)
    return exps[0] if len(exps) == 1 else None


def _show(st):
    return {t: {k: list(v) for k, v in st[t].items()} for t in ("C", "N")}


def _showl(st):
    if st is None:
        return None
    return {t: {k: [jsonable(list(x)) for x in v] for k, v in st[t].items()} for t in ("C", "N")}


# ------------------------------------------------------------------ which variant of the code is this tree?
# Model/DataStore.v carries one flag per proposed patch (notes/proposed_fixes/C13-<n>.diff).  The flags are
# read off the implementation's behaviour on one witness history each; the model with these flags must then
# agree with the implementation on EVERY case of the run (so a wrong guess shows up as a broken correspondence).

FLAGS = ["exact", "sfx", "dropfirst", "rodrop", "presence", "sqlupd"]
PROBES = {
    "exact": dict(store="dir", suffix="fasta", mode="w", ops=[["nc", "ba", "d0"], ["w", "a", "d1"]]),
    "sfx": dict(store="dir", suffix="fasta", mode="w", ops=[["w", "fasta_seq.fasta", "d0"]]),
    "dropfirst": dict(store="dir", suffix="fasta", mode="w", ops=[["nc", "a", "d0"], ["w", "a", "d1"]]),
    "rodrop": dict(store="dir", suffix="fasta", mode="w", ops=[["nc", "a", "d0"], ["open", "r"], ["drop", "a"]]),
    "presence": dict(store="dir", suffix="fasta", mode="w", ops=[["w", "a", "d0"], ["w", "a", "d1"]]),
    "sqlupd": dict(store="sql", suffix=None, mode="w", ops=[["w", "a", "d0"], ["nc", "a", "d1"]]),
}


def probe_variant():
    names = list(PROBES)
    cases = [dict(PROBES[n], obs_every=True, block="probe") for n in names]
    res = [from_jsonable(r) for r in core.run_impl_lines("c13_impl.py", cases)]
    flags = {}
    for n, c, r in zip(names, cases, res):
        if isinstance(r, dict) and "exc" in r:
            raise core.CheckError(f"variant probe {n} failed in the runner: {r}")
        last = decode(c["store"], c["suffix"], r[-1][2])
        if n == "exact":
            flags[n] = last is not None and "ba" in last["N"]
        elif n == "sfx":
            flags[n] = last is not None and last["C"].get("fasta_seq", [(None, None)])[0][1] == "=d0"
        elif n == "dropfirst":
            flags[n] = last is not None and last["C"].get("a", [(None, None)])[0][1] == "=d1"
        elif n == "rodrop":
            flags[n] = isinstance(r[-1][0], Exc) and last is not None and "a" in last["N"]
        elif n == "presence":
            flags[n] = last is not None and last["C"].get("a", [(None, None)])[0][0] == "d1"
        elif n == "sqlupd":
            flags[n] = last is not None and "a" in last["N"]
    return flags


def coq_variant(flags):
    return "(mkV " + " ".join("true" if flags[n] else "false" for n in FLAGS) + ")"


# ------------------------------------------------------------------ rendering for Coq / running the model

def coq_op(o):
    k = o[0]
    if k == "w":
        return f"OWrite {zstr(o[1])} {zstr(o[2])}"
    if k == "nc":
        return f"OWriteNC {zstr(o[1])} {zstr(o[2])}"
    if k == "log":
        return f"OWriteLog {zstr(o[1])} {zstr(o[2])}"
    if k == "drop":
        return f"ODrop {zstr(o[1])}"
    if k == "dropall":
        return "ODropAll"
    if k == "open":
        return "OReopen " + {"r": "MR", "w": "MW", "a": "MA"}[o[1]]
    raise ValueError(k)


def coq_case(c, flags):
    kind = "true" if c["store"] == "dir" else "false"
    sfx = zstr(c["suffix"] or "")
    mode = {"r": "MR", "w": "MW", "a": "MA"}[c["mode"]]
    return (f"({coq_variant(flags)}, {kind}, {sfx}, {mode}, {'true' if c.get('obs_every', True) else 'false'}, ["
            + ";".join(coq_op(o) for o in c["ops"]) + "])")


CASE_TYPE = "variant * bool * list Z * mode * bool * list op"


def run_model(cases, flags, shard=400):
    return core.coq_eval(PROP, ["Model.DataStore", "Model.SqlStore", "Model.DataStoreRun"], "run_case",
                         [coq_case(c, flags) for c in cases], CASE_TYPE, shard=shard)


def norm_impl(res):
    """implementation observation -> the shape the model prints (fresh = None when equal to live)"""
    out = []
    for ret, live, fresh in res:
        out.append([ret, live, None if fresh == live else fresh])
    return out


# ------------------------------------------------------------------ the check

def build_cases(tier, rng, widen=1):
    cases = list(CORPUS) + inner_dots_block() + exhaustive_block(tier)
    nrand = (500 if tier == "quick" else 5000) * widen
    cases += [random_case(rng) for _ in range(nrand)]
    return cases


TRUSTED = [
    "md5 digests are treated as an injective tag of the payload (the model stores the payload where the code stores its hex digest)",
    "file system (directory listing, unlink, rmdir, mkdir) and sqlite3 statement execution are re-modelled in "
    "Model/DataStore.v / Model/SqlStore.v as finite maps / row lists, not verified",
    "pathlib name/stem/suffix, str.replace/endswith/in, and the regular expressions are re-modelled on code-point lists "
    "(identifiers: no '/', no newline, no leading '.', lower-case ASCII; suffix: [a-z0-9]+, not a compression suffix)",
    "directory listing order is pinned to name order in the implementation runner (Path.glob sorted)",
    "translator harness/translators/ds_names.py: trusted to emit Gallina that means what the Python text of the identifier / "
    "file-name computations means, for the small fragment it accepts (str methods, f-strings, Path name/stem/suffix, `/`, the two "
    "re.sub pattern shapes, ==, is None, and/or/not, if/else); anything else that reaches an extracted name aborts the translation; "
    "the Python readings of Lib/PyStr.v (rstrip/strip/removesuffix/regular expressions)",
    "the directory refinement theorems are about the model variant `repaired` (all six proposed patches "
    "notes/proposed_fixes/C13-1..6.diff applied), the sqlite one about every variant with C13-6; which variant the tree under "
    "test is, is measured by this run from six witness histories (coverage.variant) and the model with exactly these flags "
    "must agree with the implementation on every case; for a tree that is not `repaired` the `_refuted` theorems apply",
]

PARTIAL = [
    "the directory-store refinement theorems are about the model variant `repaired` (patches C13-1..5 applied); for the code "
    "as found only the `_refuted` theorems (one per missing patch) and the correspondence apply",
    "directory store, write_not_completed (overwrite mode) of a name that is currently completed: the md5 side file is shared by "
    "the two records (no patch proposed; excluded by hypothesis `no_nc_over_completed`, `nc_over_completed_refuted` without it)",
    "directory store identifiers with a dot inside the record name (g.v1): normalised by Path.stem, excluded by `wf_id` "
    "(`dotted_ids_refuted`)",
    "write_log / logs listing / validate(): compared model-vs-implementation only (not part of the dictionary statement)",
    "compressed members (.gz/.bz2/.zip), limit=, in-memory sqlite stores, the sqlite lock: not modelled",
]


def run(tier: str, seed: int) -> int:
    rep = core.Report(PROP, tier, seed)
    rng = random.Random(seed * 7919 + 13)
    # gen/DsNamesGen.v is shared by every run: concurrent C13 runs against different source trees (seeded-change tests) must
    # not build against each other's translation, so regenerate + build + Print Assumptions happen under one lock
    core.GEN.mkdir(exist_ok=True)
    with core._Lock(core.GEN / ".c13_dsnames.lock"):
        terr, records = run_translator()
        if terr is None:
            pr = core.proof_stage(PROP, COQ_TARGETS)
        else:
            # the source left the translatable fragment: no proof obligation counts as discharged, the tie is reported broken
            # and the decision falls to the (widened) behavioural correspondence below
            pr = {"obligations": len(core.property_theorems(PROP)), "discharged": 0, "theorems": {},
                  "problems": ["translator tie broken: ds_names failed closed: " + terr]}
        if pr["problems"]:
            core.make(MODEL_TARGETS)          # the model itself does not depend on the generated file: keep it runnable
            pr["problems"] = [explain_tie_break(x) for x in pr["problems"]]
    core.proof_coverage(rep, pr, "ds_names.py > gen/DsNamesGen.v && make theories/Properties/C13.vo && coqc gen/assum_C13.v "
                                 "(Print Assumptions)", TRUSTED)
    proof_broken = bool(pr["problems"])
    flags = probe_variant()
    cases = build_cases(tier, rng, widen=4 if proof_broken else 1)
    impl = [from_jsonable(r) for r in core.run_impl_sharded("c13_impl.py", cases, nshards=core.NPROC)]
    model = None
    try:
        model = run_model(cases, flags)
    except core.CheckError as e:
        if not proof_broken:
            raise
        rep.notes.append(f"model not runnable: {str(e)[:300]}")
    njudged = nvio = ndis = 0
    disagreements = []
    nontrivial = set()
    dist = {}
    keys_seen = {}
    for idx, (c, ir) in enumerate(zip(cases, impl)):
        for o in c["ops"]:
            dist[o[0]] = dist.get(o[0], 0) + 1
        if isinstance(ir, dict) and "exc" in ir:
            nvio += 1
            rep.violation("harness:case-raised" + (":hang" if ir.get("hang") else ""),
                          dict(case=c, observed_impl=jsonable(ir), broken="the runner itself raised or hung on this history"))
            continue
        findings, judged = judge_case(c, ir)
        njudged += judged
        if any(o[0] in ("w", "nc") for o in c["ops"]) and len(c["ops"]) >= 2:
            nontrivial.add(json.dumps([c["store"], c["suffix"], c["mode"], c["ops"]]))
        mr = model[idx] if model is not None else None
        for (k, key, detail) in findings:
            nvio += 1
            keys_seen[key] = keys_seen.get(key, 0) + 1
            small = dict(c, ops=c["ops"][: k + 1], obs_every=c.get("obs_every", True))
            rep.violation(key, dict(case=small, expected_by_spec=detail["acceptable"], observed_impl=dict(
                live=detail["observed_live"], reopened=detail["observed_reopened"], ret=detail["ret"]),
                model_output=jsonable(mr[k]) if mr is not None else None, detail=detail,
                broken="store state after this operation differs from the dictionary model"))
        if mr is not None and norm_impl(ir) != mr:
            ndis += 1
            kk = next((k for k, (a, b) in enumerate(zip(norm_impl(ir), mr)) if a != b), 0)
            disagreements.append(dict(key=f"{c['store']}:{c['ops'][kk][0]}", case=dict(c, ops=c["ops"][: kk + 1]),
                                      observed_impl=jsonable(norm_impl(ir)[kk]), model_output=jsonable(mr[kk]),
                                      variant=flags))
    if disagreements:
        # the model (with the measured flags) no longer describes the code: that alone fails the check,
        # whether or not the oracle also found a concrete violation
        d = dict(disagreements[0])
        d["broken"] = ("correspondence Model.DataStoreRun.run_case vs cogent3.app.data_store / sqlite_data_store: model "
                       f"variant {flags} and implementation differ on this history")
        d["n_disagreements"] = ndis
        rep.violation("correspondence:" + d["key"], d, no_input=not nvio)
    sample_i = next((i for i, c in enumerate(cases) if c["block"].startswith("exhaustive")), 0)
    rep.coverage.update(
        evaluations=njudged, distinct_nontrivial=len(nontrivial),
        rule="one evaluation = one judged transition (observed consistent dictionary state --op--> observed live and re-opened "
             "state; after the first violation of a history the rest of it is not judged); non-trivial case = history of >= 2 "
             "operations containing at least one record write; exhaustive block: every operation sequence of the stated depth "
             "over 3 identifiers x {write, write_not_completed, drop} + drop-all + write_log + re-open r/w/a",
        samples=[dict(case=cases[sample_i], impl=jsonable(impl[sample_i]))],
        input_distribution=dict(cases=len(cases), ops=dist, blocks={b: sum(1 for c in cases if c["block"] == b)
                                                                    for b in sorted({c["block"] for c in cases})}),
        model_impl_disagreements=ndis, spec_violations=nvio, violation_keys=keys_seen,
        variant={"flags": flags, "is_repaired": all(flags.values()), "is_pinned": not any(flags.values())},
        partial=PARTIAL,
        translator_tie=tie_report(terr, records, pr),
        exhaustive=True,
    )
    core.conclude(rep, pr, f"{len(cases)} histories / {njudged} transitions against the dictionary oracle", [],
                  "Model.DataStoreRun.run_case vs cogent3.app.data_store / sqlite_data_store", tier, PROP)
    return rep.finish("proof")


def replay(path: str) -> int:
    d = json.loads(open(path).read())
    if "case" not in d:
        print("replay names a broken obligation, not an input:", d.get("broken"))
        return 1
    c = d["case"]
    ir = from_jsonable(core.run_impl_lines("c13_impl.py", [c])[0])
    print("case  :", json.dumps(c))
    if isinstance(ir, dict) and "exc" in ir:
        print("impl  :", ir)
        print("REPRODUCED (runner raised)")
        return 1
    findings, _ = judge_case(c, ir, first_only=False)
    for op, r in zip(c["ops"], ir):
        print("impl  :", op, "->", json.dumps(jsonable(r)))
    for (k, key, detail) in findings:
        print(f"oracle: step {k} {detail['op']} key={key}")
        print("        acceptable:", json.dumps(detail["acceptable"]))
        print("        live      :", json.dumps(detail["observed_live"]))
        print("        reopened  :", json.dumps(detail["observed_reopened"]))
    want = d.get("key", "")
    if want.startswith("correspondence"):
        flags = probe_variant()
        mr = run_model([c], flags)[0]
        print("variant:", flags)
        print("model :", json.dumps(jsonable(mr)))
        bad = norm_impl(ir) != mr
    elif want and not want.startswith(("proof", "coqchk", "harness")):
        bad = any(key == want for (_, key, _) in findings)
    else:
        bad = bool(findings)
    print("REPRODUCED" if bad else "not reproduced")
    return 1 if bad else 0
