"""C04 — Annotations keep denoting the same residues through every view.

Stage P: Properties/C04.v.  Stage C: real old-/new-style sequences (and
alignments) vs the Coq model Model/Annot.v (vm_compute).  Stage S: a plain
Python oracle that computes the residues a feature denotes directly from the
parent coordinates (sets of positions, no view arithmetic)."""
from __future__ import annotations

import itertools
import json
import random

from vcheck import core
from vcheck.val import Exc, cbool, from_jsonable, jsonable, zlit, zstr

PROP = "C04"
COQ_TARGETS = ["theories/Model/AnnotRun.vo", "theories/Model/AnnotAlnRun.vo"]
DC = str.maketrans("ACGT", "TGCA")
BASE = "AGCTTACGGATC"


def rcs(s):
    return s.translate(DC)[::-1]


# ------------------------------------------------------------------ case construction

def view_positions(L, ops):
    """parent positions displayed by the view, in display order, and whether the view is reversed"""
    idx = list(range(L))
    rev = False
    for op in ops:
        if op[0] == "rc":
            idx = idx[::-1]
            rev = not rev
        elif op[0] in ("copy", "copyU", "deepcopy"):
            pass            # seq.copy() / copy(sliced=False) / copy.deepcopy: same residues, same absolute coordinates
        else:
            _, a, b, c = op
            idx = idx[a:b:c]
    return idx, rev


def span_sets(L, maxspans=3, touching=False):
    out = []
    for k in range(1, maxspans + 1):
        for pts in itertools.combinations(range(L + 1), 2 * k):
            out.append([[pts[2 * i], pts[2 * i + 1]] for i in range(k)])
    return out


def all_slices(n):
    return [(a, b) for a in range(n) for b in range(a + 1, n + 1)]


def chains(L, deep=True):
    """all single slices, rc, and 2-deep chains with an optional rc in between / around"""
    out = [[], [["rc"]]]
    for a, b in all_slices(L):
        s1 = ["s", a, b, None]
        out += [[s1], [s1, ["rc"]], [["rc"], s1]]
        if deep:
            for c, d in all_slices(b - a):
                s2 = ["s", c, d, None]
                out += [[s1, s2], [s1, ["rc"], s2], [["rc"], s1, ["rc"], s2]]
    return out


def mk_case(impl, parent, off, feats, ops, queries, add=None, block="random"):
    return dict(kind="seq", impl=impl, parent=parent, off=off, feats=feats, ops=ops, queries=queries, add=add, block=block)


FULL = [[None, None, True], [None, None, False]]


def exhaustive_block(tier):
    cases = []
    Ls = [4] if tier == "quick" else [5, 6]
    for L in Ls:
        parent = BASE[:L]
        feats = [[sp, m] for sp in span_sets(L) for m in (False, True)]
        for impl in ("old", "new"):
            for off in (0, 3):
                # quick tier: the 2-deep chains only without annotation offset
                for ops in chains(L, deep=(tier != "quick" or off == 0)):
                    idx, _ = view_positions(L, ops)
                    if not idx:
                        continue
                    fs = [[[[a + off, b + off] for a, b in sp], m] for sp, m in feats]
                    cases.append(mk_case(impl, parent, off, fs, ops, FULL, block=f"lattice{L}"))
    # windows: every (start, stop) on a few views of a length-5 parent
    L = 5
    parent = BASE[3:3 + L]
    wsets = span_sets(L, 2)
    if tier == "quick":
        wsets = wsets[:15] + wsets[15::3]
    feats = [[sp, m] for sp in wsets for m in (False, True)]
    for impl in ("old", "new"):
        for ops in ([], [["rc"]], [["s", 1, 4, None]], [["rc"], ["s", 1, 5, None]]):
            idx, _ = view_positions(L, ops)
            n = len(idx)
            qs = [[a, b, p] for a in [None] + list(range(-n - 1, n + 2)) for b in [None] + list(range(-n - 1, n + 2))
                  for p in (True, False)]
            if tier == "quick":
                qs = qs[::5]
            for i in range(0, len(qs), 24):
                cases.append(mk_case(impl, parent, 0, feats, ops, qs[i:i + 24], block="windows"))
    # add_feature through every single-slice / rc view
    L = 4
    parent = BASE[1:1 + L]
    for impl in ("old", "new"):
        for off in (0, 2):
            for ops in chains(L, deep=False):
                idx, _ = view_positions(L, ops)
                n = len(idx)
                for sp in span_sets(n, 2):
                    for m in (False, True):
                        if tier == "quick" and ((len(sp) > 1 and (m or off)) or (off and impl == "new" and m)):
                            continue
                        cases.append(mk_case(impl, parent, off, [], ops, [[None, None, True]], add=[sp, m, True], block="add"))
                        if not m and len(sp) == 1:
                            # strand left to its default (None)
                            cases.append(mk_case(impl, parent, off, [], ops, [[None, None, True]], add=[sp, False, False], block="add"))
    return cases


def rand_spans(rng, lo, hi, L, off):
    """1-4 sorted disjoint spans; endpoints over-sample the view boundaries lo/hi (parent coordinates)"""
    k = rng.choice([1, 1, 2, 2, 3, 4])
    hot = [x for x in (lo - 1, lo, lo + 1, hi - 1, hi, hi + 1) if 0 <= x <= L]
    pts = set()
    tries = 0
    while len(pts) < 2 * k and tries < 100:
        tries += 1
        pts.add(rng.choice(hot) if rng.random() < 0.5 else rng.randint(0, L))
    pts = sorted(pts)
    if len(pts) % 2:
        pts = pts[:-1]
    if not pts:
        pts = [0, L]
    return [[pts[2 * i] + off, pts[2 * i + 1] + off] for i in range(len(pts) // 2)]


def random_case(rng, strided=False):
    L = rng.randint(6, 30)
    parent = "".join(rng.choice("ACGT") for _ in range(L))
    impl = rng.choice(["old", "new"])
    off = rng.choice([0, 0, 0, 1, 7, 100])
    ops = []
    idx = list(range(L))
    for _ in range(rng.choice([0, 1, 1, 2, 2, 3, 4])):
        r0 = rng.random()
        if r0 < 0.3:
            ops.append(["rc"])
            idx = idx[::-1]
        elif r0 < 0.43 and not strided:
            ops.append([rng.choice(["copy", "copy", "copyU", "deepcopy"])])
        else:
            n = len(idx)
            a = rng.randint(0, max(0, n - 1))
            b = rng.randint(a + 1, n) if n else 0
            c = rng.choice([2, 3]) if (strided and rng.random() < 0.5) else None
            if rng.random() < 0.3:
                a2, b2 = a - n, (b - n if b < n else None)
            else:
                a2, b2 = a, b
            if rng.random() < 0.1:
                a2 = None if a == 0 else a2
            ops.append(["s", a2, b2, c])
            idx = idx[a:b:c]
        if not idx:
            return None
    lo, hi = min(idx), max(idx) + 1
    feats = [[rand_spans(rng, lo, hi, L, off), rng.random() < 0.5] for _ in range(rng.randint(1, 4))]
    n = len(idx)
    qs = [[None, None, True], [None, None, False]]
    for _ in range(rng.randint(0, 3)):
        def bound():
            r = rng.random()
            if r < 0.25:
                return None
            if r < 0.8:
                return rng.randint(0, n)
            return rng.randint(-n, -1)
        qs.append([bound(), bound(), rng.random() < 0.6])
    add = None
    if rng.random() < 0.25 and not strided and not any(o[0] in ("copy", "copyU", "deepcopy") for o in ops):
        k = rng.choice([1, 1, 2])
        pts = sorted(rng.sample(range(n + 1), min(2 * k, (n + 1) // 2 * 2)))
        if len(pts) >= 2:
            minus = rng.random() < 0.4
            add = [[[pts[2 * i], pts[2 * i + 1]] for i in range(len(pts) // 2)], minus, minus or rng.random() < 0.5]
    return mk_case(impl, parent, off, feats, ops, qs, add=add, block="strided" if strided else "random")


CORPUS = [
    # DESIGN section 6 item 7
    mk_case("old", "CTAGAGT", 0, [[[[0, 2], [3, 4], [6, 7]], False]], [["rc"], ["s", 4, 5, None], ["rc"]],
            [[None, None, True]], block="corpus"),
    mk_case("new", "CTAGAGT", 0, [[[[0, 2], [3, 4], [6, 7]], False]], [["rc"], ["s", 4, 5, None], ["rc"]],
            [[None, None, True]], block="corpus"),
    mk_case("new", "AATC", 10, [[[[11, 13]], False]], [], [[None, None, True]], block="corpus"),
    mk_case("old", "ACGTACGTACGG", 0, [[[[4, 8]], False]], [["s", 2, None, None]], [[None, None, True]], block="corpus"),
    mk_case("old", "GGATCACA", 0, [], [["s", 3, 6, None]], [[None, None, True]], add=[[[0, 1]], False, True], block="corpus"),
]


# ------------------------------------------------------------------ rendering for Coq

def oz(z):
    return "None" if z is None else f"(Some {zlit(z)})"


def pairs(ps):
    return "[" + ";".join(f"({zlit(a)},{zlit(b)})" for a, b in ps) + "]"


def coq_op(op):
    if op[0] == "rc":
        return "HOp VRc"
    if op[0] == "copy":
        return "HCopy"
    if op[0] in ("copyU", "deepcopy"):
        return "HOp (VSlice None None None)"     # the view is rebuilt with the same numbers ([copy_view])
    return f"HOp (VSlice {oz(op[1])} {oz(op[2])} {oz(op[3])})"


PINNED = (False, False, False)
ALL_FIXED = (True, True, True)


def coq_case(c, fx=PINNED):
    fx = "(" + ",".join(cbool(b) for b in fx) + ")"
    feats = "[" + ";".join(f"({pairs(sp)},{cbool(m)})" for sp, m in c["feats"]) + "]"
    ops = "[" + ";".join(coq_op(o) for o in c["ops"]) + "]"
    add = "None" if c["add"] is None else f"(Some ({pairs(c['add'][0])},{cbool(c['add'][1])}))"
    qs = "[" + ";".join(f"({oz(a)},{oz(b)},{cbool(p)})" for a, b, p in c["queries"]) + "]"
    return (f"({0 if c['impl'] == 'old' else 1}, {fx}, {zstr(c['parent'])}, {zlit(c['off'])}, {feats}, {ops}, {add}, {qs})")


def run_model(cases, fx=PINNED):
    """cases are grouped so that every generated file holds a similar amount of work"""
    out = [None] * len(cases)
    groups = {}
    for n, c in enumerate(cases):
        w = max(1, len(c["feats"]) + (1 if c["add"] else 0)) * max(1, len(c["queries"]))
        size = 12 if w > 60 else 60 if w > 12 else 250
        groups.setdefault(size, []).append(n)
    for size, ns in groups.items():
        res = core.coq_eval(PROP, ["Model.View", "Model.Annot", "Model.AnnotRun"], "run_case",
                            [coq_case(cases[n], fx) for n in ns], "case", shard=size,
                            tag="".join("ft"[b] for b in fx) + str(size))
        for n, r in zip(ns, res):
            out[n] = r
    return out


def norm_model_item(x):
    """model val -> comparable python value"""
    if x is None or isinstance(x, Exc):
        return x
    k, minus, coords, s, pc = x
    if isinstance(s, list):
        s = "".join(chr(ch) for ch in s)
    return [k, minus, coords, s, pc]


def norm_impl_item(x):
    if x is None:
        return None
    if isinstance(x, dict):
        return Exc(x["exc"])
    k, minus, coords, s, pc = x
    if isinstance(s, dict):
        s = Exc(s["exc"]) if "exc" in s else s
    if isinstance(pc, dict):
        pc = Exc(pc["exc"])
    return [k, minus, coords, s, pc]


# ------------------------------------------------------------------ plain-Python oracle (the specification)

def is_contiguous(c, idx):
    """the view displays a contiguous parent segment (no slice of the history had a stride)"""
    return all(op[0] in ("rc", "copy", "copyU", "deepcopy") or op[3] in (None, 1) for op in c["ops"]) or len(idx) == len(c["parent"])


def oracle_feature(c, idx, rev, k, spans, minus):
    """what a returned feature must look like on the view: computed from position sets only"""
    off = c["off"]
    parent = c["parent"]
    vset = {off + i for i in idx}
    fpos = [p for a, b in spans for p in range(a, b)]
    keep = [p for p in fpos if p in vset]
    s = "".join(parent[p - off] for p in keep)
    if minus:
        s = rcs(s)
    exp = dict(k=k, minus=(minus != rev), slice=s)
    contiguous = is_contiguous(c, idx)
    if contiguous:
        lo, hi = off + min(idx), off + max(idx) + 1
        kept = [(max(a, lo), min(b, hi)) for a, b in spans if max(a, lo) < min(b, hi)]
        if rev:
            exp["coords"] = [[hi - b, hi - a] for a, b in reversed(kept)]
        else:
            exp["coords"] = [[a - lo, b - lo] for a, b in kept]
        if len(kept) == 1:
            exp["pc"] = [kept[0][0], kept[0][1], -1 if minus else 1]
    return exp


def oracle_window(c, idx, q):
    """absolute [lo, hi) of a proper window on a contiguous view, else None (specification silent)"""
    ws, we, _ = q
    n = len(idx)
    if n and not is_contiguous(c, idx):
        # strided view, whole-view query: the db window is [first, first + n * stride), mirrored on a
        # reversed view and clipped at 0 (theorem strided_query_window); the stride is the product of
        # the slice steps of the history
        if ws is not None or we is not None:
            return None
        stride = 1
        rev = False
        for op in c["ops"]:
            if op[0] == "rc":
                rev = not rev
            elif op[0] not in ("copy", "copyU", "deepcopy"):
                stride *= abs(op[3] or 1)
        if rev:
            hi = c["off"] + max(idx) + 1
            return max(hi - n * stride, 0), hi
        lo = c["off"] + min(idx)
        return lo, lo + n * stride
    if n == 0:
        return None
    if we == 0 and ws is not None:
        return None
    s = 0 if ws is None else ws
    e = n if we is None else we
    if we == 0:
        return None
    s = s + n if s < 0 else s
    e = e + n if e < 0 else e
    if not (0 <= s < e <= n):
        return None
    w = idx[s:e]
    return c["off"] + min(w), c["off"] + max(w) + 1


def check_item(exp, got):
    """compare an implementation observation with the oracle's expectation; returns list of what differs"""
    bad = []
    k, minus, coords, s, pc = got
    if minus != exp["minus"]:
        bad.append("strand")
    if isinstance(s, Exc):
        bad.append("slice-raised")
    elif s != exp["slice"]:
        bad.append("slice")
    if "coords" in exp and [x for x in coords if x[0] != x[1]] != exp["coords"]:
        bad.append("coords")
    if pc is not None and not isinstance(pc, Exc) and "coords" in exp:
        if exp.get("pc") != pc:
            bad.append("slice-coords")
    return bad


def shape(c, idx, rev, spans, minus):
    contiguous = is_contiguous(c, idx)
    return (f"{c['impl']}:view={'rev' if rev else 'fwd'}{'' if contiguous else '-strided'}:"
            f"feat={'-' if minus else '+'}{'multi' if len(spans) > 1 else 'single'}:"
            f"{'offset' if c['off'] else 'nooffset'}")


def vkey(tag, bad, c, add_rev, got, shp):
    """coarse, seed-independent classifier of a violation"""
    if bad == ["slice-coords"]:
        return f"slice-coords:{c['impl']}"
    if "slice-raised" in bad:
        has_off = bool(c["off"]) or any(op[0] == "copy" for op in c["ops"])   # copy() sets an annotation offset
        return f"slice:raised:E{got[3].code}:{c['impl']}:{'offset' if has_off else 'nooffset'}"
    if tag.startswith("add"):
        return f"{tag}:{'rev' if add_rev else 'fwd'}"
    return f"{tag}:{'+'.join(bad)}:{shp}"


def abuts_start(c, idx, spans):
    lo = c["off"] + min(idx)
    return any(b == lo for a, b in spans)


def compare_case(rep, c, impl, model, stats, pending):
    """impl/model: outputs of one case.  Records violations (impl vs oracle) and pending
    model disagreements."""
    L = len(c["parent"])
    idx, rev = view_positions(L, c["ops"])
    if isinstance(impl, dict):  # whole case raised / hung
        rep.violation(f"case-raised:{c['block']}:E{impl.get('exc')}", dict(case=c, observed_impl=impl, broken="the implementation "
                      "raised outside the observed calls"))
        stats["violations"] += 1
        return
    model = from_jsonable(jsonable(model))
    i_add, i_qs, i_root = impl
    m_add, m_qs, m_root = model if isinstance(model, list) else (model, [], None)
    feats = [tuple(f) for f in c["feats"]]
    add_abs = None
    if c["add"] is not None:
        sp, m = c["add"][0], c["add"][1]
        # the residues the user pointed at, in absolute plus-strand coordinates
        n = len(idx)
        contiguous = is_contiguous(c, idx)
        if contiguous and n:
            pos = sorted((c["off"] + min(idx[a:b]), c["off"] + max(idx[a:b]) + 1) for a, b in sp)
            add_abs = ([list(x) for x in pos], (m != rev))
            feats = feats + [add_abs]
        else:
            feats = feats + [None]
        # the feature returned by add_feature itself
        got = norm_impl_item(i_add)
        mm = norm_model_item(m_add)
        stats["evaluations"] += 1
        if add_abs is not None:
            if isinstance(got, Exc):
                rep.violation(f"add:direct:raised:E{got.code}:{c['impl']}:{'rev' if rev else 'fwd'}",
                              dict(case=c, observed_impl=i_add, model_output=jsonable(mm), broken="add_feature raised"))
                stats["violations"] += 1
            else:
                exp = oracle_feature(c, idx, rev, len(c["feats"]), add_abs[0], add_abs[1])
                bad = check_item(exp, got)
                if bad:
                    stats["violations"] += 1
                    rep.violation(vkey("add:direct", bad, c, rev, got, shape(c, idx, rev, add_abs[0], add_abs[1])),
                                  dict(case=c, expected_by_spec=exp, observed_impl=i_add, model_output=jsonable(mm),
                                       broken="the feature returned by add_feature on a view does not denote the residues "
                                              "at the given view coordinates"))
                elif got != mm:
                    pending.append((c, "add", got, mm))
                else:
                    stats["nontrivial"].add(json.dumps([c["parent"], c["ops"], c["add"]]))
    def one_query(v_idx, v_rev, q, i_items, m_items, where):
        win = oracle_window(c, v_idx, q)
        for k, f in enumerate(feats):
            got = norm_impl_item(i_items[k]) if k < len(i_items) else None
            mm = norm_model_item(m_items[k]) if isinstance(m_items, list) and k < len(m_items) else m_items
            stats["evaluations"] += 1
            if f is None:
                if got != mm:
                    pending.append((c, where, got, mm))
                continue
            spans, minus = f
            added = (k >= len(c["feats"]))
            tag = "add:query-" + where if added else "query"
            flat = [x for sp in spans for x in sp]
            fs, fe = min(flat), max(flat)
            violated = False
            if isinstance(got, Exc):
                if win is not None:
                    expect_present = (fs < win[1] and win[0] < fe) if q[2] else (win[0] <= fs and fe <= win[1])
                    # raising on a proper window is a violation whether or not the feature should be returned
                    violated = True
                    abut = abuts_start(c, v_idx, spans)
                    rep.violation((f"query:raised:E{got.code}:{'partial' if q[2] else 'within'}:span-ends-at-view-start" if abut
                                   else f"{tag}:{'rev' if rev else 'fwd'}" if added
                                   else f"query:raised:E{got.code}:{'partial' if q[2] else 'within'}:other"),
                                  dict(case=dict(c, feats=[c["feats"][k]] if not added else c["feats"], queries=[q]), query=q,
                                       feature=f, expected_by_spec=dict(returned=expect_present), observed_impl=i_items[k],
                                       model_output=jsonable(mm),
                                       broken="get_features raised on a proper query window"))
            elif win is not None:
                expect_present = (fs < win[1] and win[0] < fe) if q[2] else (win[0] <= fs and fe <= win[1])
                if (got is not None) != expect_present:
                    violated = True
                    rep.violation((f"{tag}:{'rev' if rev else 'fwd'}" if added else
                                   f"{tag}:member:{'partial' if q[2] else 'within'}:{'extra' if got is not None else 'missing'}"),
                                  dict(case=dict(c, queries=[q]), query=q, feature=f, window_abs=win,
                                       expected_by_spec=dict(returned=expect_present), observed_impl=i_items[k],
                                       model_output=jsonable(mm), broken="feature membership of the query result"))
            if got is not None and not isinstance(got, Exc) and not violated:
                exp = oracle_feature(c, v_idx, v_rev, k, spans, minus)
                bad = check_item(exp, got)
                if bad:
                    violated = True
                    rep.violation(vkey(tag, bad, c, rev, got, shape(c, v_idx, v_rev, spans, minus)),
                                  dict(case=dict(c, feats=[c["feats"][k]] if not added else c["feats"], queries=[q]), query=q,
                                       feature=f, expected_by_spec=exp, observed_impl=i_items[k], model_output=jsonable(mm),
                                       broken="the returned feature does not denote the original residues restricted to the view"))
                elif exp["slice"] and got == mm:
                    stats["nontrivial"].add(json.dumps([c["impl"], c["parent"], c["off"], c["ops"], f, q]))
            if violated:
                stats["violations"] += 1
            elif got != mm:
                pending.append((c, f"{where}:q={q}:f{k}", got, mm))

    for q, i_items, m_items in zip(c["queries"], i_qs, m_qs if isinstance(m_qs, list) else [m_qs] * len(i_qs)):
        one_query(idx, rev, q, i_items, m_items, "view")
    if c["add"] is not None and i_root is not None:
        one_query(list(range(L)), False, [None, None, True], i_root, m_root, "root")


# ------------------------------------------------------------------ alignments (oracle comparison only)

def aln_case(rng):
    ncol = rng.randint(3, 12)
    names = ["s1", "s2", "s3"][:rng.randint(2, 3)]
    rows = {}
    for nm in names:
        r = ""
        while not r.replace("-", ""):
            r = "".join(rng.choice("ACGT") if rng.random() < 0.7 else "-" for _ in range(ncol))
        rows[nm] = r
    feats = []
    for _ in range(rng.randint(1, 3)):
        sid = rng.choice(names)
        L = len(rows[sid].replace("-", ""))
        nsp = rng.randint(1, min(3, (L + 1) // 2))
        pts = sorted(rng.sample(range(L + 1), 2 * nsp))
        feats.append([sid, [[pts[2 * i], pts[2 * i + 1]] for i in range(nsp)], rng.random() < 0.4])
    ops = []
    cols = list(range(ncol))
    for _ in range(rng.choice([0, 0, 1, 1, 2, 3, 4])):
        r0 = rng.random()
        if r0 < 0.3:
            ops.append(["rc"])
            cols = cols[::-1]
        elif r0 < 0.5:
            ops.append(rng.choice([["deepcopy", True], ["deepcopy", True], ["deepcopy", False], ["copy"]]))
        else:
            n = len(cols)
            a = rng.randint(0, n - 1)
            b = rng.randint(a + 1, n)
            ops.append(["s", a, b])
            cols = cols[a:b]
    return dict(kind="aln", impl="old", rows=rows, feats=feats, ops=ops, block="alignment")


def aln_lattice(tier):
    """every gap layout of row s1 over ncol columns x every 1-2-span feature on either strand of s1 x
    no op / every slice / rc / slice then rc / rc then slice; s2 has a fixed layout with leading and inner gaps"""
    ncol = 3 if tier == "quick" else 5
    cases = []
    res = "ACGTA"
    other = "-TG-C"[:ncol] if ncol > 3 else "-TG"
    for bits in range(1, 2 ** ncol):
        row, k = "", 0
        for j in range(ncol):
            if bits >> j & 1:
                row += res[k]
                k += 1
            else:
                row += "-"
        L = k
        feats = [["s1", sp, m] for sp in span_sets(L, 2) for m in (False, True)]
        sl = [["s", a, b] for a, b in all_slices(ncol)]
        opsets = [[], [["rc"]]] + [[x] for x in sl] + [[x, ["rc"]] for x in sl]
        if tier != "quick":
            opsets += [[["rc"], x] for x in sl]
        for ops in opsets:
            cases.append(dict(kind="aln", impl="old", rows={"s1": row, "s2": other}, feats=feats, ops=ops, block="aln-lattice"))
    return cases


def aln_oracle(c):
    """per feature: the alignment columns holding the feature's residues, restricted to the columns
    the alignment view displays, read on the feature's strand; projected onto another row = that
    row's residues in those columns"""
    rows = c["rows"]
    ncol = len(next(iter(rows.values())))
    cols = list(range(ncol))
    rev = False
    for op in c["ops"]:
        if op[0] == "rc":
            cols = cols[::-1]
            rev = not rev
        elif op[0] in ("deepcopy", "copy"):
            pass                                   # copies keep columns, residues and what features denote
        else:
            cols = cols[op[1]:op[2]]
    cset = set(cols)
    out = []
    for sid, spans, minus in c["feats"]:
        colof = [k for k, ch in enumerate(rows[sid]) if ch != "-"]
        keep = [colof[i] for a, b in spans for i in range(a, b) if colof[i] in cset]
        sl = {nm: "".join(rows[nm][k] for k in keep) for nm in rows}
        if minus:
            sl = {nm: rcs(v) for nm, v in sl.items()}
        disp = [i for i, k in enumerate(colof) if k in cset]   # residues of the row the view displays
        present = bool(disp) and spans[0][0] < max(disp) + 1 and min(disp) < spans[-1][1]
        lo = min(disp) if disp else None
        out.append(dict(present=present, row_empty=not disp, slice=sl, minus=(minus != rev), retained=len(keep), ncols=len(cols),
                        abuts=(lo is not None and any(b == lo for a, b in spans)),
                        proj={nm: v.replace("-", "") for nm, v in sl.items() if nm != sid}))
    return out, rev


def coq_alcase(c, fx=PINNED):
    names = list(c["rows"])
    fxs = "(" + ",".join(cbool(b) for b in fx) + ")"
    rows = "[" + ";".join(zstr(c["rows"][nm]) for nm in names) + "]"
    feats = "[" + ";".join(f"({names.index(sid)},{pairs(sp)},{cbool(m)})" for sid, sp, m in c["feats"]) + "]"
    def aop(o):
        if o[0] == "rc":
            return "AOp ARc"
        if o[0] == "deepcopy":
            return f"ACopy {cbool(o[1])}"
        if o[0] == "copy":
            return "ACopy false"
        return f"AOp (ASlice {zlit(o[1])} {zlit(o[2])})"
    ops = "[" + ";".join(aop(o) for o in c["ops"]) + "]"
    return f"({fxs}, {rows}, {feats}, {ops})"


def run_model_aln(cases, fx=PINNED):
    return core.coq_eval(PROP, ["Model.View", "Model.Annot", "Model.IndelMap", "Model.FeatureMap", "Model.Aligned",
                                "Model.AnnotAln", "Model.AnnotAlnRun"], "run_alcase",
                         [coq_alcase(c, fx) for c in cases], "alcase", shard=150, tag="a" + "".join("ft"[b] for b in fx))


def _vstr(x):
    if isinstance(x, list):
        return "".join(chr(ch) for ch in x)
    return x


def norm_aln_model(m):
    if m is None or isinstance(m, Exc):
        return m
    minus, coords, sl, pj = m
    return [minus, coords, [_vstr(x) for x in sl], [_vstr(x) for x in pj]]


def norm_aln_impl(g, c, f):
    if g is None or (isinstance(g, dict) and "rowcopy_only" in g):
        return None
    if isinstance(g, dict) and "exc" in g:
        return Exc(g["exc"])
    names = list(c["rows"])
    def cell(x):
        return Exc(x["exc"]) if isinstance(x, dict) else x
    sl = g["slice"]
    sl = [Exc(sl["exc"])] * len(names) if (isinstance(sl, dict) and "exc" in sl) else [cell(sl[nm]) for nm in names]
    pj = [None if nm == f[0] else cell(g["proj"][nm]) for nm in names]
    return [g["minus"], g["coords"], sl, pj]


def evaluate_aln(rep, cases, stats, fx=PINNED, dis=None):
    impl = core.run_impl_sharded("c04_impl.py", cases)
    try:
        model = run_model_aln(cases, fx)
    except core.CheckError as e:
        rep.notes.append(f"alignment model not runnable: {str(e)[:300]}")
        model = None
    pend = []
    for n, (c, ir) in enumerate(zip(cases, impl)):
        exp, rev = aln_oracle(c)
        mr = from_jsonable(jsonable(model[n])) if model is not None else None
        if isinstance(ir, dict):
            stats["violations"] += 1
            rep.violation(f"aln:case-raised:E{ir.get('exc')}", dict(case=c, observed_impl=ir, broken="alignment case raised"))
            continue
        for k, (g, e, f) in enumerate(zip(ir, exp, c["feats"])):
            stats["evaluations"] += 1
            small = dict(c, feats=[f])
            key = None
            if isinstance(g, dict) and "exc" in g:
                key = ("aln:query:raised:row-without-residues" if e["row_empty"] else f"aln:query:raised:E{g['exc']}:" + (
                       "span-ends-at-view-start" if e["abuts"] else "other"))
            elif isinstance(g, dict) and "rowcopy_only" in g:
                key = "aln:row-deepcopy:extra"
            elif (g is not None) != e["present"]:
                key = f"aln:member:{'extra' if g is not None else 'missing'}"
            elif g is not None:
                if g["minus"] != e["minus"]:
                    key = "aln:strand"
                elif isinstance(g["slice"], dict) and "exc" in g["slice"]:
                    key = f"aln:slice:raised:E{g['slice']['exc']}"
                elif g["slice"] != e["slice"]:
                    key = f"aln:slice:{'rc' if rev else 'fwd'}:{'-' if f[2] else '+'}"
                elif g.get("rowcopy") is not None and g["rowcopy"] != [[e["slice"][f[0]].replace("-", "")]] * 2:
                    key = "aln:row-deepcopy"
                elif e["retained"]:
                    for nm, v in g["proj"].items():
                        if isinstance(v, dict):
                            key = f"aln:projected:raised:E{v['exc']}"
                        elif v != e["proj"][nm]:
                            key = f"aln:projected:{'rc' if rev else 'fwd'}:{'-' if f[2] else '+'}"
                    if key is None:
                        stats["nontrivial"].add(json.dumps([c["rows"], c["ops"], f]))
            mm = norm_aln_model(mr[k]) if isinstance(mr, list) and k < len(mr) else mr
            gi = norm_aln_impl(g, c, f)
            # monitored hypothesis of theorem aln_feature_slice_rows: the coordinate ranges of the
            # alignment-level map are non-empty, ascending and inside the alignment view
            if isinstance(g, dict) and "coords" in g and dis is not None:
                cs = g["coords"]
                ok_spans = (all(a < b for a, b in cs) and all(cs[i][1] <= cs[i + 1][0] for i in range(len(cs) - 1))
                            and (not cs or (cs[0][0] >= 0 and cs[-1][1] <= e["ncols"])))
                if not ok_spans:
                    dis.append(dict(key="alignment:span-hypothesis", case=small, observed_impl=g["coords"],
                                    broken="hypothesis segs_ok of theorem aln_feature_slice_rows does not hold for this map"))
            if key:
                stats["violations"] += 1
                rep.violation(key, dict(case=small, expected_by_spec=e, observed_impl=g, model_output=jsonable(mm),
                                        broken="alignment-level feature does not denote the columns holding the "
                                               "feature's residues (position-set oracle)"))
            elif model is not None and gi != mm:
                # a feature that retains no column has no defined projection: the implementation raises from numpy
                degenerate = (g is not None and not e["retained"])
                if not (degenerate and isinstance(gi, list) and isinstance(mm, list) and gi[:3] == mm[:3]):
                    pend.append((n, k, small, gi, mm))
    # items that differ from the primary variant may follow the other one
    if pend and model is not None:
        alt = PINNED if fx != PINNED else ALL_FIXED
        ns = sorted({n for n, *_ in pend})
        alt_model = dict(zip(ns, run_model_aln([cases[n] for n in ns], alt)))
        for n, k, small, gi, mm in pend:
            am = from_jsonable(jsonable(alt_model[n]))
            am = norm_aln_model(am[k]) if isinstance(am, list) else am
            if gi != am and dis is not None:
                dis.append(dict(key="alignment", case=small, observed_impl=jsonable(gi), model_output=jsonable(mm)))


# ------------------------------------------------------------------ old-style SequenceCollection (oracle only)

def coll_case(rng):
    names = ["s1", "s2", "s3"][:rng.randint(1, 3)]
    rows = {nm: "".join(rng.choice("ACGT") for _ in range(rng.randint(3, 12))) for nm in names}
    feats = []
    for _ in range(rng.randint(1, 3)):
        sid = rng.choice(names)
        L = len(rows[sid])
        nsp = rng.randint(1, min(3, (L + 1) // 2))
        pts = sorted(rng.sample(range(L + 1), 2 * nsp))
        feats.append([sid, [[pts[2 * i], pts[2 * i + 1]] for i in range(nsp)], rng.random() < 0.5])
    ops = [rng.choice([["rc"], ["rc"], ["deepcopy", True], ["deepcopy", True], ["deepcopy", False], ["copy"]])
           for _ in range(rng.choice([0, 1, 2, 2, 3, 4]))]
    return dict(kind="coll", impl="old", rows=rows, feats=feats, ops=ops, block="collection")


def evaluate_coll(rep, cases, stats):
    """copies and reverse complements of a collection keep what every feature denotes"""
    impl = core.run_impl_sharded("c04_impl.py", cases)
    for c, ir in zip(cases, impl):
        rev = sum(1 for o in c["ops"] if o[0] == "rc") % 2 == 1
        if isinstance(ir, dict):
            stats["violations"] += 1
            rep.violation(f"coll:case-raised:E{ir.get('exc')}", dict(case=c, observed_impl=ir, broken="collection case raised"))
            continue
        for g, f in zip(ir, c["feats"]):
            stats["evaluations"] += 1
            sid, spans, minus = f
            L = len(c["rows"][sid])
            s = "".join(c["rows"][sid][a:b] for a, b in spans)
            exp = [minus != rev, [[L - b, L - a] for a, b in reversed(spans)] if rev else spans, rcs(s) if minus else s]
            how = "+".join(sorted({o[0] + ("" if len(o) == 1 else str(int(o[1]))) for o in c["ops"]})) or "none"
            key = None
            if g is None:
                key = "coll:member:missing"
            elif isinstance(g, dict):
                key = f"coll:query:raised:E{g['exc']}"
            elif isinstance(g[2], dict):
                key = f"coll:slice:raised:E{g[2]['exc']}"
            elif g != exp:
                key = "coll:" + "+".join(n for n, x, y in zip(("strand", "coords", "slice"), g, exp) if x != y)
            if key:
                stats["violations"] += 1
                rep.violation(key, dict(case=dict(c, feats=[f]), history=how, expected_by_spec=exp, observed_impl=g,
                                        broken="a feature of a collection member does not denote the same residues after "
                                               "rc / deepcopy / copy of the collection"))
            else:
                stats["nontrivial"].add(json.dumps([c["rows"][sid], c["ops"], f]))


# ------------------------------------------------------------------ the check

def build_cases(tier, seed):
    rng = random.Random(seed * 104729 + 4)
    cases = list(CORPUS)
    cases += exhaustive_block(tier)
    nrand = 250 if tier == "quick" else 6000
    nstr = 80 if tier == "quick" else 1500
    for _ in range(nrand):
        c = random_case(rng)
        if c:
            cases.append(c)
    for _ in range(nstr):
        c = random_case(rng, strided=True)
        if c:
            cases.append(c)
    return cases


def case_weight(c):
    return max(1, len(c["feats"]) + (1 if c["add"] else 0)) * max(1, len(c["queries"])) + 5


def run_impl_balanced(cases):
    """the implementation on all cases, spread over NPROC interpreters by estimated work"""
    import concurrent.futures as cf

    n = max(1, min(core.NPROC, len(cases) // 20))
    bins = [[] for _ in range(n)]
    load = [0] * n
    for k in sorted(range(len(cases)), key=lambda k: -case_weight(cases[k])):
        b = load.index(min(load))
        bins[b].append(k)
        load[b] += case_weight(cases[k])
    out = [None] * len(cases)
    with cf.ThreadPoolExecutor(max_workers=n) as ex:
        for ks, res in zip(bins, ex.map(lambda ks: core.run_impl_lines("c04_impl.py", [cases[k] for k in ks]), bins)):
            for k, r in zip(ks, res):
                out[k] = r
    return out


def detect_fixes(impl_corpus):
    """which of the proposed repairs the implementation under test already carries, read off the
    corpus cases (only used to choose which model variant is evaluated first)"""
    def item(r, qi=0, k=0):
        try:
            return norm_impl_item(r[1][qi][k])
        except Exception:  # noqa: BLE001
            return None
    a = item(impl_corpus[0])
    fx_bound = a is not None and not isinstance(a, Exc)
    b = item(impl_corpus[3])
    fx_mapped = isinstance(b, list) and b[4] == [4, 8, 1]
    d = item(impl_corpus[4])
    fx_add = d is not None and not isinstance(d, Exc)
    return (fx_bound, fx_mapped, fx_add)


def evaluate(rep, cases, pr_broken=False, side_job=None):
    """side_job(primary) is started as soon as the model variant is known and runs concurrently
    (the alignment block); its future is returned in stats["side"]"""
    stats = dict(evaluations=0, violations=0, nontrivial=set())
    pending = []
    # the corpus cases run first: they tell which model variant to evaluate, so that the
    # implementation and the model can then be evaluated concurrently
    ncorp = len(CORPUS) if cases[:len(CORPUS)] == CORPUS else 0
    impl_corpus = core.run_impl_lines("c04_impl.py", cases[:ncorp]) if ncorp else []
    primary = detect_fixes(impl_corpus) if ncorp else PINNED
    stats["model_variant"] = dict(zip(("fx_bound", "fx_mapped", "fx_add"), primary))
    import concurrent.futures as cf

    with cf.ThreadPoolExecutor(max_workers=3) as ex:
        if side_job is not None:
            stats["side"] = ex.submit(side_job, primary)
        f_impl = ex.submit(run_impl_balanced, cases[ncorp:])
        f_model = ex.submit(run_model, cases, primary)
        impl = impl_corpus + f_impl.result()
        model = None
        try:
            model = f_model.result()
        except core.CheckError as e:
            if not pr_broken:
                raise
            rep.notes.append(f"model not runnable: {str(e)[:300]}")
    if model is None:
        model = [[None, [None] * len(c["queries"]), None] for c in cases]
    for c, ir, mr in zip(cases, impl, model):
        compare_case(rep, c, ir, mr, stats, pending)
    # second pass: an implementation that carries another subset of the proposed repairs may follow
    # the pinned or the fully repaired model on the remaining cases
    dis = []
    idx_of = {id(c): n for n, c in enumerate(cases)}
    for alt in (ALL_FIXED, PINNED):
        if not pending or alt == primary:
            continue
        redo, seen = [], set()
        for c, *_ in pending:
            if id(c) not in seen:
                seen.add(id(c))
                redo.append(c)
        alt_model = run_model(redo, alt)
        stats2 = dict(evaluations=0, violations=0, nontrivial=set())
        pending2 = []
        quiet = core.Report(PROP, rep.tier, rep.seed)
        quiet.violation = lambda *a, **k: None
        for c, mr in zip(redo, alt_model):
            compare_case(quiet, c, impl[idx_of[id(c)]], mr, stats2, pending2)
        pending = pending2
    for c, where, got, mm in pending:
        dis.append(dict(key=f"{c['block']}:{where.split(':')[0]}", case=c, where=where, observed_impl=jsonable(got),
                        model_output=jsonable(mm)))
    return stats, dis, impl


def run(tier: str, seed: int) -> int:
    rep = core.Report(PROP, tier, seed)
    pr = core.proof_stage(PROP, COQ_TARGETS)
    core.proof_coverage(rep, pr, "make theories/Properties/C04.vo && coqc gen/assum_C04.v (Print Assumptions)", [
        "annotation db: sqlite evaluates the WHERE text; its two coordinate clauses are re-stated in Model/Annot.v "
        "(db_partial/db_within; C17 ties them to the source text) and the per-name queries go through the real db",
        "numpy array arithmetic inside get_features/make_feature is modelled on Z",
        "alignment side imports the C08 IndelMap/FeatureMap and C03 Aligned models and their theorems (composition_spec, "
        "fm_inverse_spec, spans_tiled, row_slice_python, row_rc_spec); both model and oracle are compared with the implementation",
    ])
    rep.assumptions += [
        "theorems: well-formed views (|step| = 1 for membership / coordinates / add_feature; any stride for the slice), every "
        "history of slices, rc, copy, deepcopy; annotation offset >= 0, feature spans sorted, disjoint, non-empty at absolute "
        "coordinates >= 0; windows written in any way that lands inside the view; "
        "the db side (sqlite WHERE) enters through the two coordinate clauses proved equivalent to interval overlap / containment"]
    cases = build_cases(tier, seed)
    rng_a = random.Random(seed * 7907 + 41)
    aln_cases = aln_lattice(tier) + [aln_case(rng_a) for _ in range(250 if tier == "quick" else 6000)]
    aln_stats = dict(evaluations=0, violations=0, nontrivial=set())
    aln_dis = []
    stats, dis, impl = evaluate(rep, cases, bool(pr["problems"]),
                                side_job=lambda primary: evaluate_aln(rep, aln_cases, aln_stats, primary, aln_dis))
    if "side" in stats:
        stats.pop("side").result()
    rng_c = random.Random(seed * 6151 + 7)
    coll_cases = [coll_case(rng_c) for _ in range(60 if tier == "quick" else 1500)]
    evaluate_coll(rep, coll_cases, stats)
    stats["evaluations"] += aln_stats["evaluations"]
    stats["violations"] += aln_stats["violations"]
    stats["nontrivial"] |= aln_stats["nontrivial"]
    dis += aln_dis
    dist = {"alignment": len(aln_cases), "collection": len(coll_cases)}
    for c in cases:
        dist[c["block"]] = dist.get(c["block"], 0) + 1
    sample = next(c for c in cases if c["block"] == "random")
    rep.coverage.update(
        evaluations=stats["evaluations"], distinct_nontrivial=len(stats["nontrivial"]),
        rule="one evaluation = one (feature, view history, query) triple observed through get_features(name=..), "
             "Feature.get_slice, seq[feature], map.get_coordinates and parent_coordinates of the slice; non-trivial = the feature "
             "is returned, its slice is non-empty and equals the position-set oracle",
        samples=[dict(case=sample)],
        input_distribution=dict(cases=len(cases), blocks=dist),
        partial=["alignment level (old-style Alignment; no new-style Alignment on this tree): membership, the cells of the "
                 "alignment-level map, that its spans are forward runs of exactly those cells, get_projected_feature, own-row "
                 "round trip and the row string at the feature's columns are proved for every history of slices, rc, "
                 "deepcopy(sliced) and copy(); the per-row strings of Feature.get_slice() are proved (aln_feature_slice_row_strings) "
                 "under the hypothesis that the map's coordinate ranges are non-empty and ascending, which this check monitors on "
                 "every alignment feature (key alignment:span-hypothesis) but does not derive; "
                 "allow_partial=False on alignments not exercised",
                 "strided views: relative coordinates, query window (overshoot < one stride) and the slice are proved for any "
                 "stride; membership on strided views follows from the window theorem + the db clauses and is checked by the oracle",
                 "query windows: proved for every way of writing an in-range window (omitted, 0, negative, swapped) and for the "
                 "IndexError outside; empty windows (lo = hi) only by correspondence",
                 "parent coordinates of feature.get_slice(): proved for a one-span feature inside the view (repaired variant); "
                 "partly-inside features by correspondence + oracle",
                 "add_feature through a view: proved end to end on the view it is added to; other views via feature_slice_spec "
                 "for the stored record, additionally correspondence + oracle",
                 "old-style SequenceCollection rc / deepcopy / copy: per-member statement copies_preserve_features_seq, the "
                 "collection plumbing by oracle only; new-style SequenceCollection.rc() documents that it drops the annotation "
                 "db (not covered); degap, rename: not covered"],
        model_impl_disagreements=len(dis), spec_violations=stats["violations"], exhaustive=False,
        model_variant=stats["model_variant"],
    )
    core.conclude(rep, pr, f"{len(cases)} cases / {stats['evaluations']} feature observations against the position-set oracle",
                  dis[:5], "Model.AnnotRun.run_case vs cogent3 Sequence.get_features/make_feature/Feature.get_slice", tier, PROP)
    return rep.finish("proof")


def replay(path: str) -> int:
    d = json.loads(open(path).read())
    if "case" not in d:
        print("replay names a broken obligation, not an input:", d.get("broken"))
        return 1
    c = d["case"]
    impl = core.run_impl_lines("c04_impl.py", [c])[0]
    print("impl  :", json.dumps(impl))
    rep = core.Report(PROP, "replay", 0)
    hits = []
    rep.violation = lambda key, r, no_input=False: hits.append((key, r.get("expected_by_spec")))
    stats = dict(evaluations=0, violations=0, nontrivial=set())
    if c.get("kind") == "coll":
        core.run_impl_sharded = lambda script, cases, *a, **k: [impl]
        evaluate_coll(rep, [c], stats)
        for k, e in hits:
            print("oracle:", k, json.dumps(e))
        print("REPRODUCED" if hits else "not reproduced")
        return 1 if hits else 0
    if c.get("kind") == "aln":
        core.run_impl_sharded = lambda script, cases, *a, **k: [impl]
        evaluate_aln(rep, [c], stats)
        for k, e in hits:
            print("oracle:", k, json.dumps(e))
        same = [k for k, _ in hits if k == d.get("key")]
        print("REPRODUCED" if same or hits else "not reproduced")
        return 1 if hits else 0
    try:
        model = run_model([c])[0]
    except core.CheckError:
        model = [None, [None] * len(c["queries"]), None]
    compare_case(rep, c, impl, model, stats, [])
    for k, e in hits:
        print("oracle:", k, json.dumps(e))
    print("REPRODUCED" if hits else "not reproduced")
    return 1 if hits else 0
