"""C15 — Distance estimation and distance-based trees are exact on exact data.

Stage P: Properties/C15.v (diversity matrix = column counts, transpose /
column-permutation / non-canonical-column theorems, p exact, estimator symmetry
as equality of expression trees, NJ join-step exactness at a cherry, final
three-taxon step, UPGMA join-step exactness on ultrametric input, ...).
Stage C: the real calculators / nj / upgma vs the Coq models evaluated with
vm_compute over exact rationals (floats converted with as_integer_ratio).
Stage S: plain-Python oracles: published formulas from plain column counting
(fractions + math), and "tip-to-tip distances and splits of the returned tree
= those of the generating tree" for additive / ultrametric input.  The
whole-algorithm claims (NJ picks a cherry every time) are TESTED here
(exhaustively over all labelled topologies up to the tier's size), not proved."""
from __future__ import annotations

import itertools
import json
import math
import random
from fractions import Fraction as F

from vcheck import core
from vcheck.val import zlit

PROP = "C15"
COQ_TARGETS = ["theories/Model/DistRun.vo", "theories/Model/NJRun.vo"]
TOL = 1e-9
CALCS = ["hamming", "pdist", "jc69", "tn93", "paralinear", "logdet", "logdet_notk"]
CALC_CODE = {c: i for i, c in enumerate(CALCS)}
DNA_STATES = "TCAG"

# ====================================================================== generators: trees


def all_unrooted(n):
    """every unrooted binary topology on tips 0..n-1 as an edge list [(u, v)], internal nodes >= n"""
    def rec(edges, k, nxt):
        if k == n:
            yield edges
            return
        for idx, (u, v) in enumerate(edges):
            new = edges[:idx] + edges[idx + 1:] + [(u, nxt), (nxt, v), (nxt, k)]
            yield from rec(new, k + 1, nxt + 1)
    if n == 2:
        yield [(0, 1)]
        return
    yield from rec([(0, n), (1, n), (2, n)], 3, n + 1)


def all_rooted(n):
    """every rooted binary topology on tips 0..n-1 as nested tuples"""
    def insert(t, k):
        # attach k as sister of every subtree of t (incl. t itself)
        yield (t, k)
        if isinstance(t, tuple):
            a, b = t
            for x in insert(a, k):
                yield (x, b)
            for x in insert(b, k):
                yield (a, x)
    def rec(t, k):
        if k == n:
            yield t
            return
        for t2 in insert(t, k):
            yield from rec(t2, k + 1)
    yield from rec((0, 1), 2)


def rand_len(rng, zero_ok=False):
    return F(rng.choice([1, 1, 2, 3, 4, 5, 6, 8, 12, 17, 24, 40]), rng.choice([1, 2, 4, 8, 8]))


def additive_matrix(n, edges, lens):
    adj = {}
    for (u, v), l in zip(edges, lens):
        adj.setdefault(u, []).append((v, l))
        adj.setdefault(v, []).append((u, l))
    m = [[F(0)] * n for _ in range(n)]
    for s in range(n):
        stack = [(s, None, F(0))]
        while stack:
            x, par, d = stack.pop()
            if x < n:
                m[s][x] = d
            for (y, l) in adj[x]:
                if y != par:
                    stack.append((y, x, d + l))
    return m


def splits_of_edges(n, edges):
    """non-trivial splits as frozenset of the side not containing tip 0"""
    adj = {}
    for (u, v) in edges:
        adj.setdefault(u, []).append(v)
        adj.setdefault(v, []).append(u)
    out = set()
    for (u, v) in edges:
        # tips on v's side when the edge is cut
        side = set()
        stack = [(v, u)]
        while stack:
            x, par = stack.pop()
            if x < n:
                side.add(x)
            for y in adj[x]:
                if y != par:
                    stack.append((y, x))
        if 1 < len(side) < n - 1:
            out.add(frozenset(side if 0 not in side else set(range(n)) - side))
    return out


def nj_case_from_tree(rng, n, edges, block, permute=True):
    lens = [rand_len(rng) for _ in edges]
    m = additive_matrix(n, edges, lens)
    perm = list(range(n))
    if permute:
        rng.shuffle(perm)
    # names[k] is the name of position k; position k holds tip perm[k]
    names = [f"t{perm[k]}" for k in range(n)]
    mat = [[m[perm[a]][perm[b]] for b in range(n)] for a in range(n)]
    return dict(kind="nj", block=block, n=n, names=names, matrix=[[float(x) for x in row] for row in mat],
                additive=True, gen_edges=[[u, v] for u, v in edges], gen_lens=[float(l) for l in lens], perm=perm,
                also_quick_tree=(block != "exhaustive" or rng.random() < 0.1))


def heights_for(rng, t):
    """(tree with heights) -> returns (height, struct) where struct = (h, left, right) or tip"""
    if not isinstance(t, tuple):
        return F(0), t
    hl, l = heights_for(rng, t[0])
    hr, r = heights_for(rng, t[1])
    h = max(hl, hr) + rand_len(rng)
    return h, (h, l, r)


def ultra_matrix(n, struct):
    m = [[F(0)] * n for _ in range(n)]
    clades = []
    def tips(s):
        if not isinstance(s, tuple):
            return [s]
        h, l, r = s
        tl, tr = tips(l), tips(r)
        for a in tl:
            for b in tr:
                m[a][b] = m[b][a] = 2 * h
        clades.append(sorted(tl + tr))
        return tl + tr
    tips(struct)
    return m, clades


def upgma_case_from_tree(rng, n, t, block):
    h, struct = heights_for(rng, t)
    m, clades = ultra_matrix(n, struct)
    perm = list(range(n))
    rng.shuffle(perm)
    names = [f"t{perm[k]}" for k in range(n)]
    mat = [[m[perm[a]][perm[b]] for b in range(n)] for a in range(n)]
    return dict(kind="upgma", block=block, n=n, names=names, matrix=[[float(x) for x in row] for row in mat],
                ultrametric=True, gen_clades=[[f"t{x}" for x in c] for c in clades if len(c) < n], root_height=float(h))


def random_matrix_case(rng, kind, n):
    m = [[0.0] * n for _ in range(n)]
    for a in range(n):
        for b in range(a + 1, n):
            m[a][b] = m[b][a] = float(rand_len(rng))
    return dict(kind=kind, block="random-matrix", n=n, names=[f"t{k}" for k in range(n)], matrix=m, additive=False,
                ultrametric=False)


# ====================================================================== generators: alignments

def rand_alignment(rng, nseq, length, p_noncanon, p_mut):
    base = [rng.choice("ACGT") for _ in range(length)]
    seqs = []
    for _ in range(nseq):
        s = []
        for c in base:
            r = rng.random()
            if r < p_noncanon:
                s.append(rng.choice("-N?RY-"))
            elif r < p_noncanon + p_mut:
                s.append(rng.choice("ACGT"))
            else:
                s.append(c)
        seqs.append("".join(s))
    if nseq > 2 and rng.random() < 0.3:
        seqs[rng.randrange(nseq)] = seqs[rng.randrange(nseq)]     # an exact duplicate
    return seqs


PROTEIN_STATES = "ACDEFGHIKLMNPQRSTUVWY"      # the canonical states of cogent3's protein moltype (20 amino acids + U)
PROTEIN_CALCS = ["hamming", "pdist", "paralinear", "logdet", "logdet_notk"]


def to_moltype(seq, moltype):
    """the same nucleotide sequence written for the moltype (T <-> U)"""
    return seq.replace("T", "U") if moltype == "rna" else seq.replace("U", "T") if moltype == "dna" else seq


def dist_case(names, seqs, calc, block, api=False, moltype="dna"):
    c = dict(kind="dist", block=block, calc="logdet" if calc == "logdet_notk" else calc, calc_id=calc,
             tk=(calc != "logdet_notk"), names=list(names), seqs=[to_moltype(x, moltype) for x in seqs], moltype=moltype, api=api)
    return c


def rand_protein_alignment(rng, nseq, length, p_noncanon, p_mut):
    base = [rng.choice(PROTEIN_STATES[:8]) for _ in range(length)]       # few states so that counts repeat
    out = []
    for _ in range(nseq):
        out.append("".join(rng.choice("-X?BZ") if rng.random() < p_noncanon else
                           (rng.choice(PROTEIN_STATES) if rng.random() < p_mut else ch) for ch in base))
    return out


def dist_cases(rng, tier):
    cases = []
    # corpus: the duplicate-shortcut witness and some classics
    corpus = [
        (["a", "b", "c"], ["AC--", "A-GT", "AGGT"]),
        (["a", "b", "c"], ["ACGT", "----", "AGGT"]),
        (["a", "b"], ["ACGTACGTACGT", "ACGTACGTACGT"]),
        (["a", "b"], ["AAAACCCCGGGGTTTT", "CCCCGGGGTTTTAAAA"]),     # saturated
        (["a", "b"], ["ACGT", "AGTC"]),                             # p = 3/4 exactly: the JC69 boundary
        (["a", "b"], ["ACGTACGTACGTACGTAACCGGTT", "GCGTACATACGTACGTAACCGGTC"]),   # transitions only
        (["a", "b"], ["ACGTACGTACGTACGTAACCGGTT", "CCGTACTTACGTACGAAACCGGTT"]),   # transversions only
        (["a", "b", "c"], ["ACGTTGCAAGCTTGCA", "ACGTTGCAAGCTTGCG", "ACATTGCGAGCTAGCA"]),
        (["Human", "Bandicoot", "Rhesus", "FlyingFox"],
         ["GCCAGCTCATTACAGCATGAGAACAGCAGTTTATTACTCACT", "---NACTCATTAATGCTTGAAACCAGCAGTTTATTGTCCAAC",
          "GCCAGCTCATTACAGCATGAGAAC---AGTTTGTTACTCACT", "GCCAGCTCTTTACAGCATGAGAACAG---TTTATTATACACT"]),
    ]
    for names, seqs in corpus:
        for calc in CALCS:
            cases.append(dist_case(names, seqs, calc, "corpus", api=True))
            cases.append(dist_case(names, seqs, calc, "corpus", api=True, moltype="rna"))
    for names, seqs in [(["a", "b", "c"], ["ACDEFGHIKLACDEFG", "ACDEFGHIKMACDEFG", "MCDEFGHIKLACDEYG"]),
                        (["a", "b", "c"], ["ACDE-GHIKL", "ACDEFGHIKL", "ACXEFGH?KL"]),
                        (["a", "b"], ["ACDEF", "ACDEF"])]:
        for calc in PROTEIN_CALCS:
            cases.append(dist_case(names, seqs, calc, "corpus-protein", api=(calc != "logdet_notk"), moltype="protein"))
    # exhaustive small scope: every pair of length-2 sequences over {A,C,G,T,-} (quick: {A,G,T,-})
    alpha = "AGT-" if tier == "quick" else "ACGT-"
    words = ["".join(w) for w in itertools.product(alpha, repeat=2)]
    ex_calcs = ["hamming", "jc69", "tn93", "paralinear"] if tier == "quick" else CALCS
    k = 0
    for w1 in words:
        for w2 in words:
            calc = ex_calcs[k % len(ex_calcs)] if tier == "quick" else None
            k += 1
            for ci, cc in enumerate([calc] if calc else ex_calcs):
                # the moltype alternates; TN93 (the only estimator that reads the purine / pyrimidine classes) gets both
                mt = "rna" if (k + ci) % 2 else "dna"
                cases.append(dist_case(["a", "b"], [w1, w2], cc, "exhaustive-pairs", moltype=mt))
                if cc == "tn93":
                    cases.append(dist_case(["a", "b"], [w1, w2], cc, "exhaustive-pairs", moltype="dna" if mt == "rna" else "rna"))
    # exhaustive triples of length-2 sequences over {A,C,-}: the duplicate shortcut in every constellation
    if tier != "quick":
        w3 = ["".join(w) for w in itertools.product("AC-", repeat=2)]
        for t in itertools.product(w3, repeat=3):
            cases.append(dist_case(["a", "b", "c"], list(t), "hamming", "exhaustive-triples"))
    # random block
    nrand = 60 if tier == "quick" else 600
    for _ in range(nrand):
        nseq = rng.choice([2, 3, 3, 4, 5])
        length = rng.choice([3, 6, 12, 30, 60, 120])
        seqs = rand_alignment(rng, nseq, length, rng.choice([0, 0, 0.05, 0.2, 0.5]), rng.choice([0.05, 0.2, 0.5, 0.9]))
        names = [f"s{i}" for i in range(nseq)]
        calc = rng.choice(CALCS)
        mt = rng.choice(["dna", "rna"])
        other = "rna" if mt == "dna" else "dna"
        base = dist_case(names, seqs, calc, "random", api=rng.random() < 0.2, moltype=mt)
        cases.append(base)
        # the same alignment written for the other nucleic-acid moltype (T <-> U): same distances
        cases.append(dist_case(names, seqs, calc, "random-other-moltype", api=rng.random() < 0.2, moltype=other))
        # metamorphic variants: the same alignment with its columns permuted / its sequences reordered
        cols = list(range(length))
        rng.shuffle(cols)
        cases.append(dist_case(names, ["".join(s[c] for c in cols) for s in seqs], calc, "random-colperm", moltype=other))
        order = list(range(nseq))
        rng.shuffle(order)
        cases.append(dist_case([names[i] for i in order], [seqs[i] for i in order], calc, "random-seqorder", moltype=mt))
    for _ in range(8 if tier == "quick" else 80):
        nseq = rng.choice([2, 3, 4])
        seqs = rand_protein_alignment(rng, nseq, rng.choice([6, 15, 40]), rng.choice([0, 0.1]), rng.choice([0.1, 0.4]))
        if nseq > 2 and rng.random() < 0.3:
            seqs[-1] = seqs[0]
        cases.append(dist_case([f"p{i}" for i in range(nseq)], seqs, rng.choice(PROTEIN_CALCS), "random-protein", moltype="protein"))
    return cases


# ====================================================================== generators: exact guard boundaries, call histories

def _dyadic(x):
    d = F(x).denominator
    return d & (d - 1) == 0


def tn93_terms_exact(cols):
    """the three log arguments of TN93 for a list of (x, y) columns, in exact arithmetic and in the order of
    operations of the source; second component: every intermediate is a dyadic rational, i.e. the float
    computation is exact whatever the summation order, so 'exactly 0' is 0.0 for the implementation too"""
    cnt = {}
    for c in cols:
        cnt[c] = cnt.get(c, 0) + 1
    total = len(cols)
    f = {c: F(sum(v for (x, y), v in cnt.items() if x == c) + sum(v for (x, y), v in cnt.items() if y == c), 2 * total) for c in CANON}
    fR, pR, fY, pY = f["A"] + f["G"], f["A"] * f["G"], f["C"] + f["T"], f["C"] * f["T"]
    if pR == 0 or pY == 0:
        return None
    pur = F(cnt.get(("A", "G"), 0) + cnt.get(("G", "A"), 0), total)
    pyr = F(cnt.get(("C", "T"), 0) + cnt.get(("T", "C"), 0), total)
    tv = F(sum(v for (x, y), v in cnt.items() if x != y), total) - pur - pyr
    c1, c2 = 2 * pR / fR, 2 * pY / fY
    inter = list(f.values()) + [fR, pR, fY, pY, pur, pyr, tv, c1, c2, pur / c1, tv / (2 * fR), pyr / c2, tv / (2 * fY),
                                2 * fR * fY, tv / (2 * fR * fY)]
    terms = (1 - pur / c1 - tv / (2 * fR), 1 - pyr / c2 - tv / (2 * fY), 1 - tv / (2 * fR * fY))
    return terms, all(_dyadic(x) for x in inter)


def boundary_cases(rng, tier):
    """sequence pairs that sit EXACTLY on a guard of a closed-form estimator (a log argument equal to 0, p = 3/4),
    found by exact rational arithmetic, plus their one-column neighbours on either side"""
    types = [(a, b) for a in CANON for b in CANON]
    ident = [(c, c) for c in CANON]
    profiles = {0: [("A", "G"), ("G", "A")], 1: [("C", "T"), ("T", "C")],
                2: [(a, b) for a in "AG" for b in "CT"] + [(b, a) for a in "AG" for b in "CT"]}
    pairs = []
    want = 2 if tier == "quick" else 6
    for target in (0, 1, 2):
        got = 0
        for _ in range(8000):
            n = rng.choice((4, 8, 8, 16, 16))
            cols = [rng.choice(ident) if rng.random() < 0.5 else (rng.choice(profiles[target]) if rng.random() < 0.8 else rng.choice(types))
                    for _ in range(n)]
            r = tn93_terms_exact(cols)
            if r and r[1] and r[0][target] == 0 and all(t > 0 for i, t in enumerate(r[0]) if i != target):
                pairs.append((f"tn93-term{target + 1}", cols))
                got += 1
                if got >= want:
                    break
    got = 0
    for _ in range(8000):          # several arguments zero at once
        cols = [rng.choice(types) for _ in range(rng.choice((4, 8, 16)))]
        r = tn93_terms_exact(cols)
        if r and r[1] and min(r[0]) == 0 and sum(1 for t in r[0] if t == 0) >= 2:
            pairs.append(("tn93-multi", cols))
            got += 1
            if got >= want:
                break
    # the example of the brief: all base frequencies 1/4, transversions in exactly half of the columns
    pairs.append(("tn93-term3", [("A", "A"), ("C", "C"), ("G", "G"), ("T", "T"), ("A", "C"), ("C", "A"), ("G", "T"), ("T", "G")]))
    for n in ((4, 8, 16) if tier == "quick" else (4, 8, 12, 16, 20, 24, 40)):      # JC69: p = 3/4 exactly
        cols = [rng.choice(ident) for _ in range(n // 4)]
        cols += [rng.choice([t for t in types if t[0] != t[1]]) for _ in range(n - n // 4)]
        pairs.append(("jc69-p34", cols))
    cases = []
    for tag, cols in pairs:
        variants = [cols]
        k = rng.randrange(len(cols))
        variants.append(cols[:k] + [rng.choice(ident)] + cols[k + 1:])                                   # one column towards identity
        variants.append(cols[:k] + [rng.choice([t for t in types if t[0] != t[1]])] + cols[k + 1:])     # one column towards saturation
        for v in variants:
            v = list(v)
            rng.shuffle(v)
            s1, s2 = "".join(x for x, _ in v), "".join(y for _, y in v)
            for calc in ("tn93", "jc69"):
                cases.append(dist_case(["a", "b"], [s1, s2], calc, "boundary:" + tag))
                if calc == "tn93":
                    cases.append(dist_case(["a", "b"], [s1, s2], calc, "boundary:" + tag, moltype="rna"))
    return cases


def history_cases(rng, tier):
    """one calculator object / one app instance over 2-3 alignments (with and without identical sequences,
    same or different names); sequences of tree builders on one DistanceMatrix object"""
    cases = []
    nh = 10 if tier == "quick" else 80
    for k in range(nh):
        calc = CALCS[k % len(CALCS)]
        steps = []
        for s in range(rng.choice([2, 3])):
            nseq = rng.choice([3, 4])
            length = rng.choice([6, 12, 30])
            seqs = rand_alignment(rng, nseq, length, rng.choice([0, 0, 0.1]), rng.choice([0.2, 0.5]))
            dup = (s == 0) if k % 2 == 0 else (s == 1)        # identical sequences first and not later, or the other way round
            if dup:
                seqs[-1] = seqs[0]
                if nseq == 4 and rng.random() < 0.5:
                    seqs[2] = seqs[1]
            else:
                while len(set(seqs)) < len(seqs):
                    seqs = rand_alignment(rng, nseq, length, 0, 0.5)
            names = [f"s{i}" for i in range(nseq)] if rng.random() < 0.5 else [f"{'xyzw'[s]}{i}" for i in range(nseq)]
            steps.append(dict(names=names, seqs=seqs))
        mt = "rna" if k % 3 == 1 else "dna"
        for st in steps:
            st["seqs"] = [to_moltype(x, mt) for x in st["seqs"]]
        cases.append(dict(kind="dist_history", block="history", calc="logdet" if calc == "logdet_notk" else calc, calc_id=calc,
                          tk=(calc != "logdet_notk"), steps=steps, moltype=mt))
    op_seqs = [["upgma", "nj"], ["nj", "upgma"], ["quick_tree", "quick_tree"], ["upgma", "upgma"], ["upgma", "quick_tree", "nj"],
               ["nj", "nj", "upgma", "upgma"]]
    nd = 12 if tier == "quick" else 90
    pool = {n: list(all_rooted(n)) for n in (3, 4, 5, 6)}
    for k in range(nd):
        n = rng.choice([3, 4, 5, 6])
        base = upgma_case_from_tree(rng, n, rng.choice(pool[n]), "dm-history")
        cases.append(dict(base, kind="dm_history", ops=op_seqs[k % len(op_seqs)]))
    # every tip ORDER of a small ultrametric matrix through the constructors that do not sort the names
    perms5 = list(itertools.permutations(range(5)))
    if tier == "quick":
        orders = [tuple(rng.sample(range(4), 4)) for _ in range(4)] + rng.sample(perms5, 10)
    else:
        orders = list(itertools.permutations(range(4))) + perms5
    ctors = ["from_array_names", "take_dists", "dictarray"]
    for k, perm in enumerate(orders):
        n = len(perm)
        base = upgma_case_from_tree(rng, n, rng.choice(pool[n]), "tip-order")
        by = {nm: i for i, nm in enumerate(base["names"])}
        names = [f"t{x}" for x in perm]                       # the row order asked for
        mat = [[base["matrix"][by[a]][by[b]] for b in names] for a in names]
        for ctor in (ctors if tier != "quick" else [ctors[k % 3], ctors[(k + 1) % 3]]):
            ops = ["upgma"] if ctor == "dictarray" else ["upgma", "nj", "gnj", "quick_tree"]
            cases.append(dict(base, kind="tree_order", names=names, matrix=mat, ctor=ctor, ops=ops))
    return cases


# ====================================================================== rendering for Coq

def qlit(x) -> str:
    f = F(x) if not isinstance(x, float) else F(*x.as_integer_ratio())
    return f"(Qmake {zlit(f.numerator)} {f.denominator})"


def qmat_lit(m) -> str:
    return "[" + ";".join("[" + ";".join(qlit(x) for x in row) + "]" for row in m) + "]"


def coq_dist_case(c, order_seqs, strict, states_str=DNA_STATES):
    seqs = "[" + ";".join("[" + ";".join(str(ord(ch)) for ch in s) + "]" for s in order_seqs) + "]"
    states = "[" + ";".join(str(ord(ch)) for ch in states_str) + "]"
    return f"({'true' if strict else 'false'}, {CALC_CODE[c['calc_id']]}, {states}, (-9), {seqs})"


# the two texts of the duplicate rule inside _PairwiseDistance.run the model knows (comments and blank
# lines removed, indentation kept): the pinned source and the source with notes/proposed_fixes/C15-1.diff
_DUP_OLD = """                fill_diversity_matrix(matrix, s1, s2)
                if not (matrix[off_diag] > 0).any():
                    dupes.update([j])
                    duped[i].append(j)
                    continue"""
_DUP_NEW = """                fill_diversity_matrix(matrix, s1, s2)
                if not (matrix[off_diag] > 0).any():
                    if (s1 == s2).all():
                        dupes.update([j])
                        duped[i].append(j)
                        continue
                    total = matrix.sum()
                    if total > 0:
                        result = Stats(total, 0.0, 0.0, 0.0)
                        self._dists[(name_1, name_2)] = result
                        self._dists[(name_2, name_1)] = result
                        continue"""


def dup_rule_variant():
    """which variant of the duplicate rule does the current source contain?  'pinned' | 'strict' | 'unknown'
    (fail-closed: an unrecognised text selects the pinned model and is reported in the evidence; any
    behavioural difference then shows up as a model/implementation disagreement)"""
    try:
        src = (core.REPO / "src" / "cogent3" / "evolve" / "fast_distance.py").read_text()
        a = src.index("                fill_diversity_matrix(matrix, s1, s2)")
        b = src.index("                total, p, dist, var = self.func(", a)
    except (OSError, ValueError):
        return "unknown"
    lines = []
    for ln in src[a:b].split("\n"):
        ln = ln.split("#")[0].rstrip()
        if ln.strip():
            lines.append(ln)
    block = "\n".join(lines)
    if block == _DUP_OLD:
        return "pinned"
    if block == _DUP_NEW:
        return "strict"
    return "unknown"


def ev_expr(e):
    tag = e[0]
    if tag == 0:
        return F(e[1], e[2])
    if tag == 1:
        return math.log(float(ev_expr(e[1])))
    if tag == 2:
        return math.sqrt(float(ev_expr(e[1])))
    if tag == 3:
        return -ev_expr(e[1])
    a, b = ev_expr(e[1]), ev_expr(e[2])
    if tag == 4:
        return a + b
    if tag == 5:
        return a * b
    if tag == 6:
        return a / b
    raise ValueError(tag)


def model_cell_value(v):
    """model cell -> float or None (nan / missing)"""
    if v is None or v == "nan":
        return None
    if v == 0:
        return 0.0
    try:
        return float(ev_expr(v[2]))
    except (ValueError, ZeroDivisionError, OverflowError):
        return "model-eval-error"


def close(a, b, tol=TOL):
    if a is None or b is None:
        return a is None and b is None
    if isinstance(a, str) or isinstance(b, str):
        return a == b
    return abs(a - b) <= tol * max(1.0, abs(a), abs(b))


# ====================================================================== oracle: distances

def det_exact(m):
    n = len(m)
    if n > 4:          # fraction Gaussian elimination
        a = [list(r) for r in m]
        det = F(1)
        for col in range(n):
            piv = next((r for r in range(col, n) if a[r][col] != 0), None)
            if piv is None:
                return F(0)
            if piv != col:
                a[col], a[piv] = a[piv], a[col]
                det = -det
            det *= a[col][col]
            for r in range(col + 1, n):
                if a[r][col] != 0:
                    fct = a[r][col] / a[col][col]
                    for cc in range(col, n):
                        a[r][cc] -= fct * a[col][cc]
        return det
    tot = F(0)
    for perm in itertools.permutations(range(n)):
        sgn = 1
        for i in range(n):
            for j in range(i + 1, n):
                if perm[i] > perm[j]:
                    sgn = -sgn
        t = F(sgn)
        for i in range(n):
            t *= m[i][perm[i]]
        tot += t
    return tot


CANON = "ACGT"


def oracle_pair(calc_id, s1, s2, moltype="dna"):
    """published formula from plain counting.  Returns ("val", float) | ("undef", why) | ("skip", why).
    Nucleic acids: written over the abstract classes purine {A, G} / pyrimidine {C, T=U}; an RNA sequence is read
    with U = T, so the same alignment as DNA and as RNA has the same distances by construction."""
    if moltype in ("dna", "rna"):
        s1, s2 = s1.replace("U", "T"), s2.replace("U", "T")
        canon = CANON
    else:
        canon = PROTEIN_STATES
        if calc_id in ("jc69", "tn93"):
            raise ValueError("nucleotide estimator on protein")
    r_states = len(canon)
    cnt = {}
    for x, y in zip(s1, s2):
        if x in canon and y in canon:
            cnt[(x, y)] = cnt.get((x, y), 0) + 1
    total = sum(cnt.values())
    if [x if x in canon else "*" for x in s1] == [y if y in canon else "*" for y in s2]:
        return ("val", 0.0)       # the same sequence twice (interchangeable for every other comparison): 0
    if total == 0:
        return ("undef", "no column with two canonical states")
    diffs = sum(v for (x, y), v in cnt.items() if x != y)
    p = F(diffs, total)
    if calc_id == "hamming":
        return ("val", float(diffs))
    if calc_id == "pdist":
        return ("val", float(p))
    if diffs == 0:
        return ("val", 0.0)       # identical where comparable: every estimator is 0 (zero diagonal)
    if calc_id == "jc69":
        if p >= F(3, 4):
            return ("undef", "saturated")
        return ("val", -0.75 * math.log(float(1 - F(4, 3) * p)))
    fx = {c: F(sum(v for (x, y), v in cnt.items() if x == c), total) for c in CANON}
    fy = {c: F(sum(v for (x, y), v in cnt.items() if y == c), total) for c in CANON}
    if calc_id == "tn93":
        g = {c: (fx[c] + fy[c]) / 2 for c in CANON}
        gR, gY = g["A"] + g["G"], g["C"] + g["T"]
        P1 = F(cnt.get(("A", "G"), 0) + cnt.get(("G", "A"), 0), total)
        P2 = F(cnt.get(("C", "T"), 0) + cnt.get(("T", "C"), 0), total)
        Qv = p - P1 - P2
        if g["A"] * g["G"] == 0 or g["C"] * g["T"] == 0:
            return ("undef", "0/0 in the formula (a base is absent)")
        a1 = 1 - gR * P1 / (2 * g["A"] * g["G"]) - Qv / (2 * gR)
        a2 = 1 - gY * P2 / (2 * g["C"] * g["T"]) - Qv / (2 * gY)
        a3 = 1 - Qv / (2 * gR * gY)
        if min(a1, a2, a3) == 0:
            # exactly on the boundary: asserted only when the float computation is exact (all intermediates dyadic);
            # otherwise rounding decides on which side the implementation lands (like a zero determinant)
            r = tn93_terms_exact([k for k, v in cnt.items() for _ in range(v)])
            if not (r and r[1]):
                return ("skip", "log argument exactly 0 but not exactly representable in floating point")
        if a1 <= 0 or a2 <= 0 or a3 <= 0:
            return ("undef", "log of non-positive")
        k1 = 2 * g["A"] * g["G"] / gR
        k2 = 2 * g["C"] * g["T"] / gY
        k3 = 2 * (gR * gY - g["A"] * g["G"] * gY / gR - g["C"] * g["T"] * gR / gY)
        return ("val", -float(k1) * math.log(float(a1)) - float(k2) * math.log(float(a2)) - float(k3) * math.log(float(a3)))
    # paralinear / logdet: joint frequency matrix, with the documented replacement of a zero diagonal count by 0.5
    R = r_states
    J = [[F(cnt.get((a, b), 0)) for b in canon] for a in canon]
    for k in range(R):
        if J[k][k] == 0:
            J[k][k] = F(1, 2)
    s = sum(sum(r) for r in J)
    J = [[x / s for x in r] for r in J]
    dt = det_exact(J)
    rs = [sum(J[a][b] for b in range(R)) for a in range(R)]
    cs = [sum(J[a][b] for a in range(R)) for b in range(R)]
    scale = F(1)
    for k in range(R):
        scale *= rs[k]                      # |det| <= product of the row sums for a non-negative matrix
    if abs(dt) < F(1, 10 ** 9) * (scale if R > 4 else 1):
        return ("skip", "determinant (numerically) zero: sign decided by rounding in numpy.linalg.det")
    if dt <= 0:
        return ("undef", "det <= 0")
    # logarithms taken separately: for 21 states the determinant itself underflows the float range of the ratio
    logdet_ = math.log(dt.numerator) - math.log(dt.denominator)
    logprod = sum(math.log((rs[k] * cs[k]).numerator) - math.log((rs[k] * cs[k]).denominator) for k in range(R))
    core_ = logdet_ - 0.5 * logprod
    if calc_id == "paralinear":
        return ("val", -core_ / R)
    if calc_id == "logdet":
        coeff = (sum(((rs[k] + cs[k]) / 2) ** 2 for k in range(R)) - 1) / (R - 1)
        return ("val", float(coeff) * core_)
    if calc_id == "logdet_notk":
        return ("val", -logdet_ / R - math.log(R))
    raise ValueError(calc_id)


def gapdiff_duplicates(seqs, canon="ACGTU"):
    """is there a pair with no difference on the columns where both are canonical but with different
    non-canonical patterns (or no comparable column at all)?  That is where the duplicate shortcut of
    _PairwiseDistance.run treats non-interchangeable sequences as duplicates."""
    def idx(s):
        return [c if c in canon else "*" for c in s]
    for a in range(len(seqs)):
        for b in range(a + 1, len(seqs)):
            nodiff = all(x == y for x, y in zip(seqs[a], seqs[b]) if x in canon and y in canon)
            if nodiff and idx(seqs[a]) != idx(seqs[b]):
                return True
    return False


# ====================================================================== comparisons

def check_dist(rep, c, ir, mr, stats):
    """returns list of model/impl disagreements"""
    dis = []
    if "exc" in ir:
        rep.violation(f"dist:{c['calc_id']}:raised", dict(case=c, observed_impl=ir, broken="distance calculation raised on a valid alignment"))
        return dis
    order = ir["order"]
    pos = {n: i for i, n in enumerate(c["names"])}
    seqs = [c["seqs"][pos[n]] for n in order]
    n = len(order)
    mt = c.get("moltype", "dna")
    _orc = oracle_pair
    oracle_pair_mt = lambda cid, x, y: _orc(cid, x, y, mt)      # noqa: E731
    pairs = [(a, b) for a in range(n) for b in range(n) if a != b]
    # --- specification oracle on every ordered pair (symmetry, order invariance, formula)
    for k, (a, b) in enumerate(pairs):
        stats["evaluations"] += 1
        o = oracle_pair_mt(c["calc_id"], seqs[a], seqs[b])
        iv = ir["cells"][k]
        iv = None if iv == "absent" else iv
        if o[0] == "skip":
            stats["skipped_illconditioned"] += 1
            continue
        exp = o[1] if o[0] == "val" else None
        if o[0] == "val" and o[1] != 0.0:
            stats["nontrivial"].add((c["calc_id"], seqs[a], seqs[b]))
        if not close(iv, exp):
            # the known defect of the pinned duplicate shortcut: only when the alignment has a no-difference
            # pair with different non-canonical positions AND the observed value is the one the model of
            # that shortcut predicts; everything else gets its own key
            shortcut = (gapdiff_duplicates(seqs, "ACGTU" if mt != "protein" else PROTEIN_STATES) and mr is not None and close(iv, model_cell_value(mr[0][k])))
            key = ("dist:duplicate-shortcut:noncanonical" if shortcut
                   else f"dist:{c['calc_id']}:{'undefined-expected' if exp is None else 'value'}")
            rep.violation(key, dict(case=c, pair=[order[a], order[b]], expected_by_spec=exp if o[0] == "val" else f"undefined ({o[1]})",
                                    observed_impl=iv, model_output=None if mr is None else model_cell_value(mr[0][k]),
                                    broken="pairwise distance differs from the published formula evaluated on the "
                                           "plain column counts of the two sequences"))
            stats["spec_violations"] += 1
    want_states = {"dna": "ACGT", "rna": "ACGU", "protein": PROTEIN_STATES}[mt]
    if sorted(ir["states"]) != sorted(want_states):
        rep.violation("dist:states", dict(case=c, expected_by_spec=want_states, observed_impl=ir["states"], broken="canonical states of the moltype"))
    if any(x not in (0.0, 0) for x in ir["diag"]):
        rep.violation("dist:nonzero-diagonal", dict(case=c, observed_impl=ir["diag"], broken="zero diagonal"))
    if ir.get("dm_names") is not None and ir["dm_names"] != sorted(c["names"]):
        rep.violation("dist:names", dict(case=c, expected_by_spec=sorted(c["names"]), observed_impl=ir["dm_names"],
                                         broken="the distance matrix is not over exactly the sequences of the alignment"))
    if ir.get("input_unchanged") is False:
        rep.violation("dist:input-modified", dict(case=c, observed_impl="alignment differs after the call", broken="inputs are not modified"))
    # --- python kernel vs numba kernel vs plain counting
    kk = 0
    for a in range(n):
        for b in range(a + 1, n):
            d = ir["direct"][kk]
            exp_counts = [[sum(1 for x, y in zip(seqs[a], seqs[b]) if x == s and y == t) for t in ir["states"]] for s in ir["states"]]
            if d["counts"] != exp_counts or d["counts_py"] != exp_counts:
                rep.violation("dist:diversity-matrix", dict(case=c, pair=[order[a], order[b]], expected_by_spec=exp_counts,
                                                            observed_impl=[d["counts"], d["counts_py"]],
                                                            broken="diversity matrix differs from plain column counting"))
            kk += 1
    if mr is None:
        return dis
    # --- model vs implementation
    for k, (a, b) in enumerate(pairs):
        iv = ir["cells"][k]
        iv = None if iv == "absent" else iv
        mv = model_cell_value(mr[0][k])
        if not close(iv, mv) and oracle_pair_mt(c["calc_id"], seqs[a], seqs[b])[0] != "skip":
            dis.append(dict(key=f"dist:{c['calc_id']}:cell", case=c, pair=[order[a], order[b]], observed_impl=iv, model_output=mv))
    kk = 0
    for a in range(n):
        for b in range(a + 1, n):
            d = ir["direct"][kk]
            mcounts, mres = mr[1][kk]
            if mcounts != d["counts"]:
                dis.append(dict(key="dist:counts", case=c, pair=[order[a], order[b]], observed_impl=d["counts"], model_output=mcounts))
            mv = "nan" if mres == "nan" else (model_cell_value(mres) if mres is not None else None)
            if c["calc_id"] == "pdist" and mres is not None and mres != "nan":
                mv = float(F(mres[1][0], mres[1][1]))
            iv = d["dist"] if c["calc_id"] != "pdist" else d["p"]
            illcond = c["calc_id"] in ("paralinear", "logdet", "logdet_notk", "tn93") and oracle_pair_mt(c["calc_id"], seqs[a], seqs[b])[0] == "skip"
            if not illcond and not close(iv, mv):
                dis.append(dict(key=f"dist:{c['calc_id']}:func", case=c, pair=[order[a], order[b]], observed_impl=iv, model_output=mv))
            if mres is not None and mres != "nan" and d["total"] is not None:
                if int(d["total"]) != mres[0] or not close(d["p"], float(F(mres[1][0], mres[1][1])), 1e-12):
                    dis.append(dict(key=f"dist:{c['calc_id']}:total-p", case=c, pair=[order[a], order[b]],
                                    observed_impl=[d["total"], d["p"]], model_output=[mres[0], mres[1]]))
            kk += 1
    mdupes = sorted(order[i] for i in mr[2])
    if mdupes != ir["dupes"]:
        dis.append(dict(key="dist:dupes", case=c, observed_impl=ir["dupes"], model_output=mdupes))
    if c["calc_id"] != "logdet_notk" and ir.get("api") not in (None, "arith") and any(not close(x, (None if y == "absent" else y)) for x, y in zip(ir["api"], ir["cells"])):
        dis.append(dict(key="dist:api", case=c, observed_impl=ir["api"], model_output=ir["cells"]))
    return dis


def tree_dist_map(obs_dists):
    return {frozenset((a, b)): d for a, b, d in obs_dists}


def unrooted_splits(clades, names):
    alln = set(names)
    anchor = sorted(names)[0]
    out = set()
    for cl in clades:
        s = set(cl)
        if anchor in s:
            s = alln - s
        if 1 < len(s) < len(alln) - 1:
            out.add(frozenset(s))
    return out


def check_nj_tree(rep, c, tobs, what, stats):
    """spec oracle for additive input: distances, splits and branch lengths of the generating tree"""
    names = c["names"]
    n = c["n"]
    dm = tree_dist_map(tobs["dists"])
    bad = None
    for a in range(n):
        for b in range(a + 1, n):
            got = dm.get(frozenset((names[a], names[b])))
            if got is None or abs(got - c["matrix"][a][b]) > TOL:
                bad = (names[a], names[b], c["matrix"][a][b], got)
    if bad:
        rep.violation(f"nj:{what}:additive-distances", dict(case=c, expected_by_spec=f"d({bad[0]},{bad[1]}) = {bad[2]}", observed_impl=bad[3],
                                                   broken="tip-to-tip distance of the returned tree differs from the additive input"))
        stats["spec_violations"] += 1
        return
    if n >= 4:
        gen = {frozenset(f"t{x}" for x in s) for s in splits_of_edges(n, [tuple(e) for e in c["gen_edges"]])}
        anchor = sorted(names)[0]
        gen = {frozenset(s if anchor not in s else set(names) - s) for s in gen}
        got = unrooted_splits(tobs["clades"], names)
        if gen != got:
            rep.violation(f"nj:{what}:topology", dict(case=c, expected_by_spec=sorted(sorted(s) for s in gen), observed_impl=sorted(sorted(s) for s in got),
                                                     broken="splits of the returned tree differ from the generating tree"))
            stats["spec_violations"] += 1
            return
    gl, tl = sorted(c["gen_lens"]), tobs["lengths"]
    if n >= 3 and (len(gl) != len(tl) or any(abs(x - y) > TOL for x, y in zip(gl, tl))):
        rep.violation(f"nj:{what}:branch-lengths", dict(case=c, expected_by_spec=gl, observed_impl=tl, broken="branch lengths differ from the generating tree"))
        stats["spec_violations"] += 1


def check_nj(rep, c, ir, mr, mown, stats):
    dis = []
    stats["evaluations"] += 1
    if "exc" in ir:
        rep.violation(f"nj:raised:{'additive' if c.get('additive') else 'arbitrary'}", dict(case=c, observed_impl=ir, broken="nj raised on a valid distance matrix"))
        return dis
    if ir.get("input_unchanged") is False:
        rep.violation("nj:input-modified", dict(case=c, observed_impl="distances differ after the call", broken="inputs are not modified"))
    if c.get("additive"):
        stats["nontrivial"].add(json.dumps([c["names"], c["matrix"]]))
        check_nj_tree(rep, c, ir["tree"], "nj", stats)
        for k in ("quick_tree", "app_quick_tree", "gnj"):
            if k in ir:
                if "error" in ir[k]:
                    rep.violation(f"nj:{k}:failed", dict(case=c, observed_impl=ir[k], broken=f"{k} failed"))
                else:
                    check_nj_tree(rep, c, ir[k], k, stats)
    if mr is None:
        return dis
    if ir["order"] != c["names"]:
        dis.append(dict(key="nj:name-order", case=c, observed_impl=ir["order"], model_output=c["names"]))
        return dis
    names = c["names"]
    steps, fin = mr
    if len(steps) != len(ir["trace"]):
        dis.append(dict(key="nj:trace-length", case=c, observed_impl=len(ir["trace"]), model_output=len(steps)))
        return dis
    for st, tr in zip(steps, ir["trace"]):
        best, smin, simpl, left, right, after = st
        qf = lambda q: float(F(q[0], q[1]))
        if F(*smin) != F(*simpl):
            dis.append(dict(key="nj:choice", case=c, observed_impl=[tr["i"], tr["j"], qf(simpl)], model_output=[best, qf(smin)],
                            note="the pair the implementation joined does not have the minimal exact score"))
            break
        if after is None:
            dis.append(dict(key="nj:assert", case=c, observed_impl="joined", model_output="assert d[j,j]==0 fails"))
            break
        dmat, tips, score = after
        ok = (close(tr["left"], qf(left)) and close(tr["right"], qf(right)) and close(tr["score"], qf(score))
              and len(dmat) == len(tr["d"])
              and all(close(x, qf(y)) for r1, r2 in zip(tr["d"], dmat) for x, y in zip(r1, r2))
              and [sorted(names[t] for t in tp) for tp in tips] == tr["tips"])
        if not ok:
            dis.append(dict(key="nj:join-step", case=c, step=dict(i=tr["i"], j=tr["j"], L=tr["L"], d_before=tr["d_before"]),
                            observed_impl=dict(left=tr["left"], right=tr["right"], d=tr["d"], tips=tr["tips"], score=tr["score"]),
                            model_output=dict(left=qf(left), right=qf(right), d=[[qf(y) for y in r] for r in dmat],
                                              tips=[sorted(names[t] for t in tp) for tp in tips], score=qf(score))))
            break
    else:
        if fin is not None and c["n"] >= 3:
            flens, (mdists, mclades) = fin
            im = tree_dist_map(ir["tree"]["dists"])
            for a, b, q in mdists:
                got = im.get(frozenset((names[a], names[b])))
                if got is None or not close(got, float(F(q[0], q[1]))):
                    dis.append(dict(key="nj:final-tree", case=c, observed_impl=got, model_output=[names[a], names[b], float(F(q[0], q[1]))]))
                    break
            if unrooted_splits([[names[t] for t in cl] for cl in mclades], names) != unrooted_splits(ir["tree"]["clades"], names):
                dis.append(dict(key="nj:final-topology", case=c, observed_impl=ir["tree"]["clades"], model_output=mclades))
    # the model's own run (its own choice of pairs): on additive input it must reproduce the input as well
    if mown is not None and c.get("additive"):
        mdists, _ = mown
        for a, b, q in mdists:
            if F(q[0], q[1]) != F(*float(c["matrix"][a][b]).as_integer_ratio()):
                dis.append(dict(key="nj:model-own-run", case=c, observed_impl=c["matrix"][a][b], model_output=[a, b, q]))
                break
    return dis


def check_upgma(rep, c, ir, mr, stats):
    dis = []
    stats["evaluations"] += 1
    if "exc" in ir:
        rep.violation(f"upgma:raised:{'ultrametric' if c.get('ultrametric') else 'arbitrary'}", dict(case=c, observed_impl=ir, broken="upgma raised on a valid distance matrix"))
        return dis
    names = c["names"]
    n = c["n"]
    if ir.get("input_unchanged") is False:
        rep.violation("upgma:input-modified", dict(case=c, observed_impl="distances differ after the call", broken="inputs are not modified"))
    if c.get("ultrametric"):
        stats["nontrivial"].add(json.dumps([c["names"], c["matrix"]]))
        dm = tree_dist_map(ir["tree"]["dists"])
        bad = None
        for a in range(n):
            for b in range(a + 1, n):
                got = dm.get(frozenset((names[a], names[b])))
                if got is None or abs(got - c["matrix"][a][b]) > TOL:
                    bad = (names[a], names[b], c["matrix"][a][b], got)
        if bad:
            rep.violation("upgma:ultrametric-distances", dict(case=c, expected_by_spec=f"d({bad[0]},{bad[1]}) = {bad[2]}", observed_impl=bad[3],
                                                              broken="tip-to-tip distance of the UPGMA tree differs from the ultrametric input"))
            stats["spec_violations"] += 1
        elif any(abs(dp - c["root_height"]) > TOL for _, dp in ir["tree"]["depths"]):
            rep.violation("upgma:heights", dict(case=c, expected_by_spec=c["root_height"], observed_impl=ir["tree"]["depths"],
                                                broken="root-to-tip depth differs from the generating tree's root height"))
            stats["spec_violations"] += 1
        elif sorted(sorted(x) for x in c["gen_clades"]) != sorted(ir["tree"]["clades"]):
            rep.violation("upgma:topology", dict(case=c, expected_by_spec=sorted(sorted(x) for x in c["gen_clades"]), observed_impl=ir["tree"]["clades"],
                                                 broken="clades of the UPGMA tree differ from the generating tree"))
            stats["spec_violations"] += 1
    if mr is None:
        return dis
    if sorted(ir["order"]) != sorted(names):
        dis.append(dict(key="upgma:name-order", case=c, observed_impl=ir["order"], model_output=names))
        return dis
    names = ir["order"]          # the model was run on the matrix in the implementation's own name order
    merges, tree = mr
    if merges != ir["merges"]:
        dis.append(dict(key="upgma:merge-order", case=c, observed_impl=ir["merges"], model_output=merges))
        return dis
    if tree is None:
        dis.append(dict(key="upgma:no-tree", case=c, observed_impl="tree", model_output=None))
        return dis
    mdists, mdepths = tree
    im = tree_dist_map(ir["tree"]["dists"])
    for a, b, q in mdists:
        got = im.get(frozenset((names[a], names[b])))
        if got is None or not close(got, float(F(q[0], q[1]))):
            dis.append(dict(key="upgma:tree-distances", case=c, observed_impl=got, model_output=[names[a], names[b], float(F(q[0], q[1]))]))
            break
    idep = dict((a, b) for a, b in ir["tree"]["depths"])
    for a, q in mdepths:
        if not close(idep.get(names[a]), float(F(q[0], q[1]))):
            dis.append(dict(key="upgma:depths", case=c, observed_impl=idep.get(names[a]), model_output=[names[a], float(F(q[0], q[1]))]))
            break
    return dis


def check_dist_history(rep, c, ir, stats):
    if "exc" in ir:
        rep.violation(f"dist:history:{c['calc_id']}:raised", dict(case=c, observed_impl=ir, broken="a re-used calculator / app raised on a valid alignment"))
        return
    for si, (step, obs) in enumerate(zip(c["steps"], ir["steps"])):
        order = obs["order"]
        pos = {nm: i for i, nm in enumerate(step["names"])}
        seqs = [step["seqs"][pos[nm]] for nm in order]
        pairs = [(a, b) for a in range(len(order)) for b in range(len(order)) if a != b]
        if obs.get("input_unchanged") is False:
            rep.violation("dist:input-modified", dict(case=c, step=si, broken="inputs are not modified"))
        for mode in ("reused_calc", "reused_app", "fresh"):
            r = obs.get(mode)
            if r is None:
                continue
            if "error" in r:
                # the app refuses alignments with an incalculable pair (NotCompleted); that is its documented behaviour
                if not any(oracle_pair(c["calc_id"], seqs[a], seqs[b], c.get("moltype", "dna"))[0] != "val" for a, b in pairs):
                    rep.violation(f"dist:history:{mode}:failed", dict(case=c, step=si, observed_impl=r, broken="app failed although every pair is defined"))
                continue
            stats["evaluations"] += len(pairs)
            if r["dm_names"] != sorted(step["names"]):
                rep.violation(f"dist:history:{mode}:names", dict(case=c, step=si, expected_by_spec=sorted(step["names"]), observed_impl=r["dm_names"],
                                                                 broken="the result of a re-used calculator / app is not over exactly the sequences of the alignment it was given"))
                stats["spec_violations"] += 1
                continue
            for k, (a, b) in enumerate(pairs):
                o = oracle_pair(c["calc_id"], seqs[a], seqs[b], c.get("moltype", "dna"))
                iv = r["cells"][k]
                iv = None if iv == "absent" else iv
                fv = obs["fresh"]["cells"][k]
                fv = None if fv == "absent" else fv
                if o[0] != "skip":
                    exp = o[1] if o[0] == "val" else None
                    if not close(iv, exp):
                        rep.violation(f"dist:history:{mode}:value", dict(case=c, step=si, pair=[order[a], order[b]],
                                      expected_by_spec=exp if o[0] == "val" else f"undefined ({o[1]})", observed_impl=iv, fresh_calculator=fv,
                                      broken="result of a calculator / app that was used before differs from the published formula on this alignment"))
                        stats["spec_violations"] += 1
                if not close(iv, fv, 1e-12):
                    rep.violation(f"dist:history:{mode}:state", dict(case=c, step=si, pair=[order[a], order[b]], expected_by_spec=fv, observed_impl=iv,
                                  broken="result depends on what the same object computed before (differs from a fresh calculator)"))
                    stats["spec_violations"] += 1
    stats["nontrivial"].add(json.dumps(c["steps"]))


def check_dm_history(rep, c, ir, stats):
    if "exc" in ir:
        rep.violation("dm-history:raised", dict(case=c, observed_impl=ir, broken="runner failed"))
        return
    names, n = c["names"], c["n"]
    stats["nontrivial"].add(json.dumps([c["names"], c["matrix"], c["ops"]]))
    for si, obs in enumerate(ir["steps"]):
        stats["evaluations"] += 1
        op = obs["op"]
        if not obs["input_unchanged"]:
            rep.violation(f"dm-history:{op}:input-modified", dict(case=c, step=si, ops=c["ops"], observed_impl="the DistanceMatrix holds other values / names after the call",
                                                                  broken="inputs are not modified"))
            stats["spec_violations"] += 1
        if "exc" in obs:
            rep.violation(f"dm-history:{op}:raised", dict(case=c, step=si, ops=c["ops"], observed_impl=obs, broken="tree builder raised on a valid distance matrix"))
            stats["spec_violations"] += 1
            continue
        dm = tree_dist_map(obs["tree"]["dists"])
        bad = None
        for a in range(n):
            for b in range(a + 1, n):
                got = dm.get(frozenset((names[a], names[b])))
                if got is None or abs(got - c["matrix"][a][b]) > TOL:
                    bad = (names[a], names[b], c["matrix"][a][b], got)
        if bad:
            rep.violation(f"dm-history:{op}:distances", dict(case=c, step=si, ops=c["ops"], expected_by_spec=f"d({bad[0]},{bad[1]}) = {bad[2]}", observed_impl=bad[3],
                          broken="tree built from a DistanceMatrix object that was used by an earlier call does not reproduce the (ultrametric, hence additive) input"))
            stats["spec_violations"] += 1
        elif op == "upgma" and any(abs(dp - c["root_height"]) > TOL for _, dp in obs["tree"]["depths"]):
            rep.violation("dm-history:upgma:heights", dict(case=c, step=si, ops=c["ops"], expected_by_spec=c["root_height"], observed_impl=obs["tree"]["depths"],
                                                           broken="root-to-tip depth differs from the generating tree's root height"))
            stats["spec_violations"] += 1


def check_tree_order(rep, c, ir, stats):
    if "exc" in ir:
        rep.violation("tree-order:raised", dict(case=c, observed_impl=ir, broken="runner failed"))
        return
    names, n = c["names"], c["n"]
    stats["nontrivial"].add(json.dumps([names, c["matrix"], c["ctor"]]))
    for obs in ir["steps"]:
        stats["evaluations"] += 1
        op = obs["op"]
        what = f"tree-order:{c['ctor']}:{op}"
        if "exc" in obs:
            rep.violation(what + ":raised", dict(case=c, observed_impl=obs, broken="tree builder raised on a valid distance object"))
            stats["spec_violations"] += 1
            continue
        if obs.get("input_unchanged") is False:
            rep.violation(what + ":input-modified", dict(case=c, broken="inputs are not modified"))
            stats["spec_violations"] += 1
        dm = tree_dist_map(obs["tree"]["dists"])
        bad = None
        for a in range(n):
            for b in range(a + 1, n):
                got = dm.get(frozenset((names[a], names[b])))
                if got is None or abs(got - c["matrix"][a][b]) > TOL:
                    bad = (names[a], names[b], c["matrix"][a][b], got)
        if bad:
            rep.violation(what + ":distances-by-name", dict(case=c, op=op, expected_by_spec=f"d({bad[0]},{bad[1]}) = {bad[2]}", observed_impl=bad[3],
                          object_names=obs.get("obj_names"),
                          broken="tip-to-tip distance BY NAME in the tree built from a distance object whose rows are not in sorted name order"))
            stats["spec_violations"] += 1
        elif op == "upgma" and sorted(sorted(x) for x in c["gen_clades"]) != sorted(obs["tree"]["clades"]):
            rep.violation(what + ":topology", dict(case=c, expected_by_spec=sorted(sorted(x) for x in c["gen_clades"]), observed_impl=obs["tree"]["clades"],
                                                   broken="clades (by name) of the UPGMA tree differ from the generating tree"))
            stats["spec_violations"] += 1


# ====================================================================== cases per tier

def tree_cases(rng, tier):
    cases = []
    nmax = 6 if tier == "quick" else 7
    # exhaustive: every labelled unrooted binary topology (NJ) / rooted binary topology (UPGMA)
    for n in range(3, nmax + 1):
        for edges in all_unrooted(n):
            reps = 1 if (tier == "quick" or n == 7) else 3
            for _ in range(reps):
                cases.append(nj_case_from_tree(rng, n, edges, "exhaustive"))
    for n in range(2, nmax):
        for t in all_rooted(n):
            reps = 1 if (tier == "quick" or n == 6) else 3
            for _ in range(reps):
                cases.append(upgma_case_from_tree(rng, n, t, "exhaustive"))
    # 2 tips, larger random trees, arbitrary (non-additive) matrices
    cases.append(dict(kind="nj", block="two", n=2, names=["t0", "t1"], matrix=[[0.0, 3.5], [3.5, 0.0]], additive=True,
                      gen_edges=[[0, 1]], gen_lens=[3.5], also_quick_tree=True))
    nbig = 12 if tier == "quick" else 150
    for _ in range(nbig):
        n = rng.choice([7, 8, 9, 10, 12])
        edges = None
        # a random topology by random insertion
        edges = [(0, n), (1, n), (2, n)]
        nxt = n + 1
        for k in range(3, n):
            idx = rng.randrange(len(edges))
            u, v = edges[idx]
            edges = edges[:idx] + edges[idx + 1:] + [(u, nxt), (nxt, v), (nxt, k)]
            nxt += 1
        cases.append(nj_case_from_tree(rng, n, edges, "random-large"))
        t = 0
        order = list(range(1, n))
        struct = 0
        for k in order:
            # random rooted insertion
            def ins(s, k):
                if not isinstance(s, tuple) or rng.random() < 0.35:
                    return (s, k)
                return (ins(s[0], k), s[1]) if rng.random() < 0.5 else (s[0], ins(s[1], k))
            struct = ins(struct, k)
        cases.append(upgma_case_from_tree(rng, n, struct, "random-large"))
    nrm = 40 if tier == "quick" else 400
    for _ in range(nrm):
        cases.append(random_matrix_case(rng, rng.choice(["nj", "upgma"]), rng.choice([3, 4, 5, 6, 7])))
    return cases


# ====================================================================== model runs

def run_models(cases, impl, strict=False):
    """returns list of model results aligned with cases (None where not run)"""
    out = [None] * len(cases)
    own = [None] * len(cases)
    # distances
    # the 4-state determinant model covers paralinear / LogDet for nucleic acids only; counting estimators any alphabet
    idx = [i for i, c in enumerate(cases) if c["kind"] == "dist" and "exc" not in impl[i]
           and (c.get("moltype", "dna") in ("dna", "rna") or c["calc_id"] in ("hamming", "pdist"))]
    terms = []
    for i in idx:
        c = cases[i]
        pos = {n: k for k, n in enumerate(c["names"])}
        terms.append(coq_dist_case(c, [c["seqs"][pos[n]] for n in impl[i]["order"]], strict, impl[i]["states"]))
    res = core.coq_eval(PROP, ["Model.Dist", "Model.DistRun"], "run_dist_case", terms, "bool * Z * list Z * Z * list (list Z)", shard=150, tag="d")
    for i, r in zip(idx, res):
        out[i] = r
    # nj traces
    idx = [i for i, c in enumerate(cases) if c["kind"] == "nj" and "exc" not in impl[i] and c["n"] >= 3]
    terms = [f"({cases[i]['n']}%nat, {qmat_lit(cases[i]['matrix'])}, [" +
             ";".join(f"({t['i']}%nat,{t['j']}%nat)" for t in impl[i]["trace"]) + "])" for i in idx]
    res = core.coq_eval(PROP, ["Model.NJ", "Model.NJRun"], "run_nj_trace", terms, "nat * list (list Q) * list (nat * nat)", shard=60, tag="n",
                        preamble="From Coq Require Import QArith.")
    for i, r in zip(idx, res):
        out[i] = r
    idx2 = [i for i in idx if cases[i].get("additive") and cases[i]["n"] <= 8]
    terms = [f"({cases[i]['n']}%nat, {qmat_lit(cases[i]['matrix'])})" for i in idx2]
    res = core.coq_eval(PROP, ["Model.NJ", "Model.NJRun"], "run_nj", terms, "nat * list (list Q)", shard=60, tag="o",
                        preamble="From Coq Require Import QArith.")
    for i, r in zip(idx2, res):
        own[i] = r
    # upgma
    idx = [i for i, c in enumerate(cases) if c["kind"] == "upgma" and "exc" not in impl[i]]
    terms = []
    for i in idx:
        c = cases[i]
        pos = {nm: k for k, nm in enumerate(c["names"])}
        od = [pos[nm] for nm in impl[i]["order"]]
        terms.append(f"({c['n']}%nat, {qlit(impl[i]['big'])}, {qmat_lit([[c['matrix'][a][b] for b in od] for a in od])})")
    res = core.coq_eval(PROP, ["Model.NJ", "Model.NJRun"], "run_upgma", terms, "nat * Q * list (list Q)", shard=60, tag="u",
                        preamble="From Coq Require Import QArith.")
    for i, r in zip(idx, res):
        out[i] = r
    return out, own


PARTIAL = [
    "NJ consistency is now PROVED: for every leaf-labelled binary tree (datatype btree) with positive branch lengths on "
    "n >= 3 tips nj returns a tree whose tip-to-tip path lengths are the generating tree's (nj_consistency_on_binary_trees; "
    "via nj_score_minimiser_is_cherry on weighted split systems).  Not formalised: that a tree with positive lengths is "
    "determined by its path metric (so 'same distances' = 'same tree'), and polytomies (the returned tree then has "
    "zero-length edges).  gnj with keep > 1 and numpy's argsort tie order are outside the model (every minimiser is "
    "proved to be a cherry, so the tie order cannot matter on tree metrics); real runs are additionally TESTED exhaustively "
    "over all labelled topologies up to the tier's size",
    "the duplicate shortcut of _PairwiseDistance.run: refuted for the pinned text (prefix_duplicate_shortcut_refuted), proved exact "
    "for the fixed text (fixed_duplicate_rule_exact); which of the two texts the source contains is read from the source "
    "(fail-closed text comparison), not proved",
    "the published formulas themselves: the model transcribes the code's formula; equality with the literature's formula is "
    "checked by the independent Python oracle on the sampled alignments (tolerance 1e-9), not proved",
    "IEEE-754 rounding, numpy.log / numpy.linalg.det / numba compilation: compared with tolerance 1e-9, not proved",
    "protein (21-state) paralinear / LogDet: compared with the exact-fraction oracle only (the Coq determinant model is 4-state); "
    "protein hamming / p-distance and all RNA calculators go through the model as well; variance statistics and gnj with "
    "keep > 1: not modelled",
]


def run(tier: str, seed: int) -> int:
    rep = core.Report(PROP, tier, seed)
    rng = random.Random(seed * 7919 + 15)
    pr = core.proof_stage(PROP, COQ_TARGETS)
    core.proof_coverage(rep, pr, "make theories/Properties/C15.vo && coqc gen/assum_C15.v (Print Assumptions)", [
        "ln / sqrt are uninterpreted constructors of the model's expression trees; the harness evaluates them with math.log / math.sqrt",
        "numpy.linalg.det, numpy.log, float64 rounding, numba compilation: sampled by the correspondence (tolerance 1e-9)",
        "numpy.argsort tie order among exactly equal NJ scores is not modelled (the check verifies the joined pair has the minimal exact score)",
    ])
    rep.assumptions += ["clauses checked on every call besides the values: the result is over exactly the input's names, the "
                        "input object (alignment, dict, DistanceMatrix) is unchanged afterwards, and the result of a re-used "
                        "calculator / app / DistanceMatrix equals that of a fresh one",
                        "guard boundaries: sequence pairs on which a log argument of TN93 is exactly 0 (each of the three, and "
                        "several at once) and JC69 pairs with p = 3/4, found by exact rational search restricted to dyadic "
                        "intermediates (so the float computation is exact too), with their one-column neighbours; paralinear / "
                        "LogDet pairs whose exact determinant is 0 are NOT asserted (numpy.linalg.det decides their sign by rounding)",
                        "tree inputs: additive / ultrametric matrices from trees with positive dyadic branch lengths",
                        "every distance block runs over the moltype dimension: dna and rna for all estimators (the oracle is written over "
                        "the abstract classes purine {A,G} / pyrimidine {C,T=U}, so the same alignment as DNA and as RNA must give the "
                        "same distances), protein for hamming / pdist / paralinear / LogDet",
                        "tree builders are also fed distance objects whose rows are NOT in sorted name order (DistanceMatrix.from_array_names, "
                        "take_dists of such a matrix, DictArray.from_array_names): every order of 4 and 5 tips in the thorough tier, a "
                        "sample in quick; oracle = tip-to-tip distances and clades BY NAME"]
    proof_broken = bool(pr["problems"])
    variant = dup_rule_variant()
    if variant == "unknown":
        rep.notes.append("text of the duplicate rule in _PairwiseDistance.run not recognised; model variant = pinned source")
    cases = dist_cases(rng, tier) + boundary_cases(rng, tier) + tree_cases(rng, tier) + history_cases(rng, tier)
    try:
        impl = core.run_impl_sharded("c15_impl.py", cases)
    except core.CheckError as e:
        if "interpreter restarts" not in str(e):
            raise
        # the implementation keeps killing the interpreter (e.g. an out-of-bounds write in the numba kernel):
        # isolate one concrete input, one interpreter per case
        found = None
        for c in cases[:150]:
            r = core.run_impl_lines("c15_impl.py", [c])[0]
            if isinstance(r, dict) and r.get("hang"):
                found = (c, r)
                break
        if found is None:
            raise
        rep.violation(f"impl:interpreter-crash:{found[0]['kind']}", dict(case=found[0], observed_impl=found[1],
                      broken="the implementation kills or hangs the interpreter on this valid input"))
        rep.coverage.update(evaluations=1, distinct_nontrivial=1, rule="aborted: interpreter crashes", samples=[found[0]],
                            input_distribution=dict(cases=len(cases)), partial=PARTIAL, exhaustive=False)
        return rep.finish("proof")
    model, own = [None] * len(cases), [None] * len(cases)
    try:
        model, own = run_models(cases, impl, strict=(variant == "strict"))
    except core.CheckError as e:
        if not proof_broken:
            raise
        rep.notes.append(f"model not runnable: {str(e)[:300]}")
    stats = dict(evaluations=0, nontrivial=set(), spec_violations=0, skipped_illconditioned=0)
    disagreements = []
    keycount = {}
    _orig_violation = rep.violation

    def _counting(key, r, no_input=False):
        keycount[key] = keycount.get(key, 0) + 1
        return _orig_violation(key, r, no_input)

    rep.violation = _counting
    for c, ir, mr, mo in zip(cases, impl, model, own):
        if c["kind"] == "dist":
            disagreements += check_dist(rep, c, ir, mr, stats)
        elif c["kind"] == "nj":
            disagreements += check_nj(rep, c, ir, mr, mo, stats)
        elif c["kind"] == "upgma":
            disagreements += check_upgma(rep, c, ir, mr, stats)
        elif c["kind"] == "dist_history":
            check_dist_history(rep, c, ir, stats)
        elif c["kind"] == "tree_order":
            check_tree_order(rep, c, ir, stats)
        else:
            check_dm_history(rep, c, ir, stats)
    import os
    if os.environ.get("C15_DEBUG"):
        for d in disagreements[:40]:
            print("DISAGREE", json.dumps(d, default=str)[:900])
    blocks = {}
    for c in cases:
        k = f"{c['kind']}:{c['block']}"
        blocks[k] = blocks.get(k, 0) + 1
    sample = next(c for c in cases if c["kind"] == "nj" and c["n"] == 5)
    rep.coverage.update(
        evaluations=stats["evaluations"], distinct_nontrivial=len(stats["nontrivial"]),
        rule="one evaluation = one ordered sequence pair under one estimator (fresh or re-used calculator / app), or one nj / "
             "upgma / quick_tree call (incl. calls in a sequence on one DistanceMatrix object); non-trivial = distinct "
             "(estimator, sequence pair) with a defined non-zero expected distance, or distinct additive / ultrametric matrix "
             "generated from a tree with >= 3 tips",
        samples=[dict(kind="nj", names=sample["names"], matrix=sample["matrix"], gen_edges=sample["gen_edges"], gen_lens=sample["gen_lens"]),
                 dict(kind="dist", calc="tn93", names=["a", "b"], seqs=["ACGTTGCAAGCTTGCA", "ACGTTGCAAGCTTGCG"])],
        input_distribution=dict(cases=len(cases), blocks=blocks,
                                nj_tips={str(n): sum(1 for c in cases if c["kind"] == "nj" and c["n"] == n) for n in range(2, 13)},
                                skipped_illconditioned_logdet=stats["skipped_illconditioned"]),
        model_impl_disagreements=len(disagreements), spec_violations=stats["spec_violations"], violation_keys=keycount,
        partial=PARTIAL, duplicate_rule_variant=variant,
        exhaustive=True,
        exhaustive_scope=f"all labelled unrooted binary topologies on 3..{6 if tier == 'quick' else 7} tips (NJ), all rooted binary "
                         f"topologies on 2..{5 if tier == 'quick' else 6} tips (UPGMA), all pairs of length-2 sequences over "
                         f"{'AGT-' if tier == 'quick' else 'ACGT-'}; branch lengths, tip orders and longer alignments are sampled",
    )
    core.conclude(rep, pr, f"{len(cases)} cases ({stats['evaluations']} evaluations) against the formula / generating-tree oracles",
                  [d for d in disagreements[:5]], "Model.DistRun / Model.NJRun vs cogent3.evolve.fast_distance, phylo.nj, cluster.UPGMA", tier, PROP)
    return rep.finish("proof")


def replay(path: str) -> int:
    d = json.loads(open(path).read())
    if "case" not in d:
        print("replay names a broken obligation, not an input:", d.get("broken"))
        return 1
    c = d["case"]
    ir = core.run_impl_lines("c15_impl.py", [c])[0]
    rep = core.Report(PROP, "replay", 0)
    rep.findings = []          # a replay always shows the raw verdict
    import tempfile

    stats = dict(evaluations=0, nontrivial=set(), spec_violations=0, skipped_illconditioned=0)
    seen = []
    rep.violation = lambda key, r, no_input=False: seen.append((key, r))
    if c["kind"] == "dist":
        check_dist(rep, c, ir, None, stats)
    elif c["kind"] == "nj":
        check_nj(rep, c, ir, None, None, stats)
    elif c["kind"] == "upgma":
        check_upgma(rep, c, ir, None, stats)
    elif c["kind"] == "dist_history":
        check_dist_history(rep, c, ir, stats)
    elif c["kind"] == "tree_order":
        check_tree_order(rep, c, ir, stats)
    else:
        check_dm_history(rep, c, ir, stats)
    print("impl  :", json.dumps(ir)[:1500])
    for key, r in seen:
        print("oracle:", key, "| expected", r.get("expected_by_spec"), "| observed", r.get("observed_impl"), "|", r.get("pair", ""))
    if "step" in d and not seen:
        print("this replay records a model/implementation disagreement (no specification violation found); stored model output:",
              json.dumps(d.get("model_output"))[:600])
        return 1
    print("REPRODUCED" if seen else "not reproduced")
    return 1 if seen else 0
