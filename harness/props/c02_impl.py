"""C02 / C11 implementation runner: builds real cogent3 likelihood functions and
reports everything the check observes (runs inside the /repo interpreter).

case = {model, moltype, tree (newick with lengths), aln [[name, seq], ...],
        mprobs {motif: p} | None, pseed int, scoped {"edges": [...]} | None,
        bins {"n": k, "shape": s} | None, light bool}
"""
import random
import warnings

warnings.filterwarnings("ignore")

NON_RATE = {"mprobs", "psmprobs", "length", "rate_shape", "bprobs", "rate", "psubs", "dpsubs", "bin_switch"}


def tree_struct(node):
    return [node.name, [tree_struct(c) for c in node.children]]


class Refused(Exception):
    """the model constructor refused the specification (allowed outcome for user-built predicate sets)"""


def make_model(case):
    """named model through get_model (with recode_gaps when the case fixes it), or a directly built one:
    case["build"] = {kind: nuc|dinuc|codon, mprob_model, motifs (subset) | None,
                     predicates: "kappa" | "kappa+omega" | [[name, from, to, directed], ...]}"""
    from cogent3 import get_model

    bins = case.get("bins")
    kw = {}
    if "recode_gaps" in case and case["recode_gaps"] is not None:
        kw["recode_gaps"] = bool(case["recode_gaps"])
    if case.get("gc"):
        kw["gc"] = int(case["gc"])          # genetic code (codon models)
    if case.get("solved"):
        kw["rate_matrix_required"] = False  # closed-form P(t) variants of F81 / HKY85 / TN93
    if bins:
        kw.update(ordered_param="rate", distribution="gamma")
    b = case.get("build")
    if case["model"].startswith("DINUC:"):
        b = {"kind": "dinuc", "mprob_model": case["model"].split(":")[1], "predicates": "kappa"}
        kw.setdefault("recode_gaps", True)
    if not b:
        return get_model(case["model"], **kw)
    from cogent3.evolve import substitution_model as SM
    from cogent3.evolve.predicate import MotifChange, replacement

    spec = b.get("predicates", "kappa")
    if isinstance(spec, str):
        preds = [(MotifChange("A", "G") | MotifChange("C", "T")).aliased("kappa")]
        if "omega" in spec:
            preds.append(replacement.aliased("omega"))
    else:
        preds = [MotifChange(x, y, forward_only=bool(d)).aliased(nm) for nm, x, y, d in spec]
    cls = {"nuc": SM.TimeReversibleNucleotide, "dinuc": SM.TimeReversibleDinucleotide, "codon": SM.TimeReversibleCodon,
           "trinuc": SM.TimeReversibleTrinucleotide}[b["kind"]]
    kw.setdefault("recode_gaps", False)
    if b.get("model_gaps"):
        # the gap is a state of its own (5 / 25 / 125 states); cogent3 requires the tuple motif-prob model here
        kw["model_gaps"] = True
        kw["recode_gaps"] = False
    if b.get("mprob_model"):
        kw["mprob_model"] = b["mprob_model"]
    if b.get("motifs"):
        kw["motifs"] = list(b["motifs"])
    try:
        return cls(predicates=preds, name="built", **kw)
    except ValueError as e:
        if b.get("may_refuse"):
            raise Refused(str(e)) from e
        raise


def build_lf(case, tree_obj=None, aln_obj=None, before_alignment=None):
    from cogent3 import make_aligned_seqs, make_tree

    # history: other models built earlier in this interpreter (same class, other genetic code / alphabet / options);
    # the model under test must not depend on them
    for h in case.get("history") or []:
        hm = make_model(dict(h, bins=None))
        hm.get_alphabet()
    tree = tree_obj if tree_obj is not None else make_tree(case["tree"])
    if aln_obj is not None:
        aln = aln_obj
    else:
        aln = make_aligned_seqs({n: s for n, s in case["aln"]}, moltype=case.get("moltype", "dna"))
        # keep the requested row order
        aln = aln.take_seqs([n for n, _ in case["aln"]])
    bins = case.get("bins")
    sm = make_model(case)
    fa = case.get("from_align")
    lfkw = {"motif_probs_from_align": True} if fa else {}
    if bins and bins.get("hmm"):
        lf = sm.make_likelihood_function(tree, bins=bins["n"], sites_independent=False, **lfkw)
    else:
        lf = sm.make_likelihood_function(tree, bins=bins["n"], **lfkw) if bins else sm.make_likelihood_function(tree, **lfkw)
    if before_alignment is not None:
        before_alignment(tree)      # history step between make_likelihood_function and set_alignment
    if fa and fa.get("pseudocount") is not None:
        lf.set_alignment(aln, motif_pseudocount=fa["pseudocount"])
    else:
        lf.set_alignment(aln)
    names = lf.get_param_names()
    has_mprobs = "mprobs" in names or "psmprobs" in names
    if fa:
        pass    # motif probabilities come from the alignment (constant, the default): nothing is set explicitly
    elif "psmprobs" in names and not case.get("mprobs"):
        # position-specific monomer probabilities: a different fixed distribution at every position of the word
        ia = [str(m) for m in lf.model.mprob_model.get_input_alphabet()]
        r2 = random.Random(case.get("pseed", 0) + 7919)
        import numpy as _np

        for pos in range(lf.model.get_alphabet().get_motif_len()):
            w = [r2.randint(1, 9) for _ in ia]
            lf.set_param_rule("psmprobs", position=str(pos), value=_np.array([x / float(sum(w)) for x in w]), is_constant=True)
    elif case.get("mprobs") and has_mprobs:
        lf.set_motif_probs(case["mprobs"])
    elif has_mprobs and case.get("fix_mprobs", True) and case.get("moltype", "dna") != "protein" \
            and not getattr(lf.model, "_equal_motif_probs", False) and case["model"] not in ("JC69", "K80"):
        # codon / dinucleotide models: fixed motif probabilities on the model's own input alphabet (nucleotides or
        # words), bounded away from zero -- never estimated from the alignment, so that original and transformed
        # inputs are evaluated at the same parameter values
        ia = [str(m) for m in lf.model.mprob_model.get_input_alphabet()]
        r2 = random.Random(case.get("pseed", 0) + 7919)
        w = [r2.randint(1, 9) for _ in ia]
        tot = float(sum(w))
        lf.set_motif_probs({m: x / tot for m, x in zip(ia, w)})
    rng = random.Random(case.get("pseed", 0))
    params = {}
    rate_pars = sorted(p for p in names if p not in NON_RATE)
    for p in rate_pars:
        v = round(rng.uniform(0.3, 3.0), 3)
        lf.set_param_rule(p, value=v, is_constant=True)
        params[p] = {"value": v}
    sc = case.get("scoped")
    if sc and rate_pars:
        p = rate_pars[0]
        v = round(rng.uniform(0.3, 3.0), 3)
        if "edges" in sc:
            lf.set_param_rule(p, edges=sc["edges"], value=v, is_constant=True)
        else:
            # scope given by two tip names + stem / clade / outgroup_name (only the options present are passed)
            kw = {k: sc[k] for k in ("stem", "clade", "outgroup_name") if sc.get(k) is not None}
            lf.set_param_rule(p, tip_names=list(sc["tip_names"]), value=v, is_constant=True, **kw)
        params[p]["scoped"] = dict(sc, value=v)
    # lengths as make_likelihood_function took them from the tree ...
    edges = [e.name for e in lf.tree.get_edge_vector(include_root=False)]
    lf._verif_tree_lengths = {}
    for e in edges:
        try:
            lf._verif_tree_lengths[e] = float(lf.get_param_value("length", edge=e))
        except Exception:  # noqa: BLE001
            lf._verif_tree_lengths[e] = None
    if case.get("solved"):
        # ... and, for the closed-form models, explicit unequal lengths (the tree's own) so that P(t) is exercised
        for node in tree.get_edge_vector(include_root=False):
            if node.length is not None:
                lf.set_param_rule("length", edge=node.name, value=float(node.length), is_constant=True)
    if bins:
        if bins.get("bprobs"):
            lf.set_param_rule("bprobs", value=list(bins["bprobs"]), is_constant=True)
        lf.set_param_rule("rate_shape", value=bins["shape"], is_constant=True)
        if bins.get("hmm"):
            lf.set_param_rule("bin_switch", value=bins["hmm"]["switch"], is_constant=True)
    return lf, tree, aln, params


MPROB_KIND = {"SimpleMotifProbModel": "tuple", "MonomerProbModel": "monomer", "PosnSpecificMonomerProbModel": "monomers",
              "ConditionalMotifProbModel": "conditional"}


def observe_lf(lf, tree, aln, params, light=False):
    import numpy

    out = {}
    out["lnL"] = float(lf.get_log_likelihood())
    edges = [e.name for e in lf.tree.get_edge_vector(include_root=False)]
    out["lengths"] = dict(getattr(lf, "_verif_tree_lengths", {}))     # as taken from the tree
    out["lengths_used"] = {}                                           # at evaluation time
    for e in edges:
        try:
            out["lengths_used"][e] = float(lf.get_param_value("length", edge=e))
        except Exception:  # noqa: BLE001
            out["lengths_used"][e] = None
    out["param_by_edge"] = {}
    for p in params:
        d = {}
        for e in edges:
            try:
                d[e] = float(lf.get_param_value(p, edge=e))
            except Exception:  # noqa: BLE001
                d = None
                break
        out["param_by_edge"][p] = d
    out["params"] = params
    try:
        out["mprob_alphabet"] = [str(m) for m in lf.model.mprob_model.get_input_alphabet()]
    except Exception:  # noqa: BLE001
        out["mprob_alphabet"] = None
    out["recode_gaps"] = bool(lf.model.recode_gaps)
    out["mprob_model"] = MPROB_KIND.get(type(lf.model.mprob_model).__name__, type(lf.model.mprob_model).__name__)
    pname = "wprobs" if "wprobs" in lf.defn_for else "mprobs"
    try:
        pi = lf.get_param_value(pname)
    except Exception:  # noqa: BLE001  (edge-scoped root probabilities)
        pi = lf.get_param_value(pname, edge="root")
    out["pi"] = [float(x) for x in numpy.asarray(pi, float).ravel()]
    if light == "lnL":
        return out
    try:
        out["site_liks"] = [float(x) for x in lf.get_full_length_likelihoods()]
    except Exception:  # noqa: BLE001  (not defined for the patch-HMM)
        out["site_liks"] = None
    if light:
        return out
    model = lf.model
    alphabet = model.get_alphabet()
    out["alphabet"] = [str(m) for m in alphabet]
    out["mlen"] = int(alphabet.get_motif_len())
    mt = aln.moltype
    out["amb"] = {str(k): [str(x) for x in v] for k, v in dict(mt.ambiguities).items()}
    # characters that convert_alignment recodes before the leaves are built (none when recode_gaps is off)
    out["gaps"] = sorted(str(g) for g in mt.gaps) if lf.model.recode_gaps else []
    out["recode_to"] = str(mt.degenerate_from_seq(list(mt)))
    out["tree"] = tree_struct(lf.tree)
    bin_names = list(lf.bin_names)
    multi = len(bin_names) > 1
    psubs = []
    for b in bin_names:
        kw = {"bin": b} if multi else {}
        psubs.append({e: numpy.asarray(lf.get_psub_for_edge(e, **kw).array, float).tolist() for e in edges})
    out["psubs"] = psubs
    out["bprobs"] = [float(x) for x in lf.get_param_value("bprobs")] if multi else [1.0]
    if multi:
        out["rates"] = [float(lf.get_param_value("rate", bin=b)) for b in bin_names]
    try:
        mp = lf.get_param_value("mprobs")
        out["mprobs_param"] = [float(x) for x in numpy.asarray(mp, float).ravel()]
    except Exception:  # noqa: BLE001
        out["mprobs_param"] = None
    out["params"] = params
    root = lf.get_param_value("root")
    out["root_index"] = [int(i) for i in root.index]
    out["root_counts"] = [int(c) for c in root.counts]
    lhs = []
    for b in bin_names:
        kw = {"bin": b} if multi else {}
        lhs.append([float(x) for x in lf.get_param_value("lh", **kw)])
    out["lh_uniq"] = lhs
    return out


def run_case(case):
    try:
        lf, tree, aln, params = build_lf(case)
    except Refused as e:
        return {"refused": str(e)[:200]}
    light = case.get("light")
    return observe_lf(lf, tree, aln, params, light=light if light == "lnL" else bool(light))


if __name__ == "__main__":
    from vcheck.implutil import serve

    serve(run_case, limit=300)
