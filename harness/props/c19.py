"""C19 — File writes are all-or-nothing; interrupted runs resume to the same result.

Stage P: Properties/C19.v (prefix / fault / failure theorems about the
atomic-write program for plain AND zip targets, the handler-class theorem,
resume theorems about apply_to with not-completed records).
Stage C: every writer x target (plain / gz / zip / explicit archive) x
{destination exists, absent} is traced with a sys.addaudithook; the audited
operation list must equal the model program and, for EVERY audited event k, the
run is repeated with the process killed before event k and with an exception of
each class in {OSError, ValueError, AttributeError, KeyboardInterrupt} raised by
event k; real failure scenarios (formatting failures before / after the first
byte, invalid file mode) on every writer; the resulting sandbox is compared with
Model.AtomicWriteRun.  The except-clauses of atomic_write are read from the
source text (fail-closed) and handed to the model.  apply_to is killed after
every number of processed records, for every subset of failing inputs, both store
types, both first-run modes, default and user id function, and resumed.
Stage S: the oracle is the property text itself (dest in {old,new}; no
leftovers after a handled failure; resumed store = uninterrupted store)."""
from __future__ import annotations

import ast
import bz2
import concurrent.futures as cf
import gzip
import io
import itertools
import json
import os
import random
import subprocess
import zipfile

from vcheck import core
from vcheck.val import cbool, jsonable, zlist, zlit

PROP = "C19"
COQ_TARGETS = ["theories/Model/AtomicWriteRun.vo"]
CHILD = str(core.VERIF / "harness/props/c19_child.py")
RCHILD = str(core.VERIF / "harness/props/c19_resume_child.py")
OLD = b"OLD"
CLASSES = ["OSError", "ValueError", "AttributeError", "KeyboardInterrupt"]
EXC_CODE = {"OSError": 0, "ValueError": 1, "AttributeError": 2, "RuntimeError": 3, "KeyboardInterrupt": 4, None: 0}
# forked executions are cheap (~50 ms): the quick tier enumerates every kill / fault point of the secondary scenarios too
# and only halves their destination states; set True to sample kill points / rotate exception classes on a slow box
SAMPLE_SECONDARY = os.environ.get("C19_SAMPLE", "") == "1"
CASE_T = "Z * bool * Z * Z * Z * (list Z * list Z)"


# ------------------------------------------------------------------ the handler set, read from the source (fail-closed)

HBASE = {"BaseException": 0, "Exception": 1, "OSError": 2, "IOError": 2, "EnvironmentError": 2, "FileNotFoundError": 2,
         "PermissionError": 2, "ValueError": 3, "AttributeError": 4}


def read_handlers():
    """The except-clauses of atomic_write._get_fileobj / __exit__, the position of close() relative to the commit, and how
    _close_rename_zip commits, read from the source text.  Never guesses: whatever is not of the recognised shape is
    recorded in `problems` (the tie source <-> model is then broken: a proof-stage problem) and replaced by the most
    conservative reading (a clause that catches nothing; zip commit unknown = zip programs not compared with the model),
    so that the kill / fault enumeration still runs and searches for a concrete failing input."""
    path = os.path.join(str(core.REPO), "src", "cogent3", "util", "io.py")
    H = dict(enter=[], exit=[], enter_names=["<unreadable>"], exit_names=["<unreadable>"], path=path, zipcommit="unknown", problems=[])
    try:
        tree = ast.parse(open(path).read())
    except (OSError, SyntaxError) as e:
        H["problems"].append(f"cannot parse {path}: {e}")
        return H
    cls = [n for n in tree.body if isinstance(n, ast.ClassDef) and n.name == "atomic_write"]
    if len(cls) != 1:
        H["problems"].append("class atomic_write not found in util/io.py")
        return H
    meth = {n.name: n for n in cls[0].body if isinstance(n, ast.FunctionDef)}

    def clause(name):
        """(codes, names) or a string saying what is not recognised"""
        if name not in meth:
            return f"atomic_write.{name} not found"
        tries = [n for n in ast.walk(meth[name]) if isinstance(n, ast.Try)]
        if len(tries) != 1 or len(tries[0].handlers) != 1 or tries[0].finalbody or tries[0].orelse:
            return f"atomic_write.{name} is not 'one try with one except-clause, no finally / else'"
        h = tries[0].handlers[0]
        calls = [ast.unparse(c.func) for c in ast.walk(ast.Module(body=h.body, type_ignores=[])) if isinstance(c, ast.Call)]
        if "shutil.rmtree" not in calls or not any(isinstance(s, ast.Raise) and s.exc is None for s in h.body):
            return f"the except-clause of atomic_write.{name} is not 'rmtree; raise'"
        if h.type is None:
            names = ["BaseException"]
        elif isinstance(h.type, ast.Name):
            names = [h.type.id]
        elif isinstance(h.type, ast.Tuple) and all(isinstance(e, ast.Name) for e in h.type.elts):
            names = [e.id for e in h.type.elts]
        else:
            return f"cannot read the exception classes of atomic_write.{name}"
        if name == "__exit__":
            # the model program closes the temporary file BEFORE the commit: the try-block must start with the close
            body = tries[0].body
            if not body or ast.unparse(body[0]) != "self._file.close()":
                return "atomic_write.__exit__ does not close the temporary file first (the model's Close precedes the commit)"
            after = [ast.unparse(x) for b in body[1:] for x in ast.walk(b) if isinstance(x, ast.Call)]
            if not any(c.startswith("self._close_func(") for c in after):
                return "atomic_write.__exit__ does not call self._close_func after closing"
        return [HBASE.get(n, 5) for n in names], names

    for key, name in (("enter", "_get_fileobj"), ("exit", "__exit__")):
        r = clause(name)
        if isinstance(r, str):
            H["problems"].append(r)
        else:
            H[key], H[key + "_names"] = r
    # how an archive is committed: appended to where it is, or staged and moved into place
    if "_close_rename_zip" not in meth:
        H["problems"].append("atomic_write._close_rename_zip not found")
    else:
        ztext = ast.unparse(meth["_close_rename_zip"])
        if "replace(self._in_zip)" in ztext:
            H["zipcommit"] = "staged"
        elif "ZipFile(self._in_zip, 'a')" in ztext:
            H["zipcommit"] = "append"
        else:
            H["problems"].append("cannot tell how atomic_write._close_rename_zip commits the archive")
    return H


# ------------------------------------------------------------------ scenarios

def S(writer, dest, old, **kw):
    return dict(writer=writer, dest=dest, old=old, **kw)


def scenarios(tier):
    """(scenario, primary?) — primary scenarios are enumerated exhaustively in both tiers; secondary ones are
    enumerated exhaustively in the thorough tier and with sampled kill points / rotating exception classes in quick"""
    prim, sec = [], []
    for old in (True, False):
        prim += [
            S("aln", "x.fasta", old), S("aln", "x.fasta", old, fail=True),
            S("table", "t.tsv", old), S("table", "t.tsv", old, fail=True), S("table", "t.tsv", old, fail="badmode"),
            S("atomic", "z.txt", old), S("atomic", "z.txt", old, fail=True), S("atomic", "z.txt", old, fail="early"),
            # zip targets: a `.zip` destination (single member archive) and an explicit archive
            S("atomic", "z.txt.zip", old), S("atomic", "z.txt.zip", old, fail=True), S("atomic", "z.txt.zip", old, fail="early"),
            S("dictarray", "d.tsv.zip", old),
            S("atomic", "z.txt", old, in_zip="arch.zip"),
            S("seqs", "s.phylip.zip", old, fail=True),
            # compressed streams get their end-of-stream trailer at close(): writers that leave closing to the context manager
            S("table", "t.tsv.gz", old), S("tree", "t.nwk.gz", old), S("dictarray", "d.tsv.gz", old), S("atomic", "z.txt.gz", old),
            S("tree", "t.nwk.bz2", old), S("dictarray", "d.tsv.bz2", old), S("atomic", "z.txt.bz2", old), S("aln", "x.json.gz", old),
        ]
        if old:
            # configuration dimension: a destination without the owner-write bit (replace must still be one step)
            prim += [S("aln", "x.fasta", True, ro=True), S("table", "t.tsv", True, ro=True), S("atomic", "z.txt", True, ro=True)]
        sec_here = [
            S("aln", "x.phylip", old, array=True), S("aln", "x.fasta", old, new_type=True), S("aln", "x.json", old),
            S("aln", "x.fasta.gz", old), S("aln", "x.fasta.gz", old, fail=True),
            S("aln", "x.json.zip", old), S("aln", "x.fasta.zip", old, xraise=True), S("aln", "x.fasta.zip", old, fail=True),
            S("seqs", "s.fasta", old), S("seqs", "s.fasta", old, new_type=True),
            S("seqs", "s.phylip", old, fail=True), S("seqs", "s.phylip.gz", old, fail=True),
            S("tree", "t.nwk", old), S("tree", "t.json", old), S("tree", "t.nwk", old, fail=True), S("tree", "t.nwk.gz", old, fail=True),
            S("tree", "t.nwk.zip", old, xraise=True), S("tree", "t.json.zip", old),
            S("table", "t.csv", old), S("table", "t.json.gz", old), S("table", "t.json", old), S("table", "t.pickle", old),
            S("table", "t.tsv.gz", old, fail=True), S("table", "t.json.zip", old), S("atomic", "z.txt.gz", old, fail="badmode"),
            S("dictarray", "d.tsv", old), S("aln", "x.fasta.bz2", old), S("tree", "t.json.bz2", old), S("dictarray", "d.tsv", old, fail=True),
            S("treecoll", "c.trees", old), S("treecoll", "c.trees", old, fail=True), S("treecoll", "c.trees.gz", old, fail=True),
            S("treecoll", "c.trees.zip", old, xraise=True),
            S("atomic", "z.txt.zip", old, fail="badmode"),
        ]
        if tier == "thorough":
            sec += sec_here
        else:
            # quick: every scenario class once, the destination state alternating along the list
            sec += [s for i, s in enumerate(sec_here) if (i % 2 == 0) == old]
    return [(s, True) for s in prim] + [(s, False) for s in sec]


def sc_name(sc):
    return f"{sc['writer']}:{sc['dest']}:{'old' if sc['old'] else 'absent'}:{sc.get('fail') or 'ok'}" + \
        "".join(f":{t}" for t in ("new_type", "array", "ro", "xraise") if sc.get(t)) + (f":in_zip={sc['in_zip']}" if sc.get("in_zip") else "")


def dest_name(sc):
    return sc.get("in_zip") or sc["dest"]


def is_zip(sc):
    return dest_name(sc).endswith(".zip")


def writer_tag(sc):
    return sc["writer"] + ("-inzip" if sc.get("in_zip") else "-zip" if is_zip(sc) else
                           "-gz" if dest_name(sc).endswith((".gz", ".bz2")) else "")


def fail_tag(sc):
    f = sc.get("fail")
    return "ok" if not f else ("fail" if f is True else f"fail-{f}")


def run_server(sc, primary, tier, jobs=None):
    """all executions of one scenario (forked inside ONE interpreter): list of result dicts, trace first"""
    cfg = dict(scenario=sc, classes=CLASSES)
    if jobs is not None:
        cfg["jobs"] = jobs
    elif tier == "quick" and not primary and SAMPLE_SECONDARY:
        cfg.update(kills="sample", faults="sample")
    r = subprocess.run([core.PY, CHILD, json.dumps(cfg)], capture_output=True, text=True, env=core.impl_env(), timeout=1500)
    if r.returncode != 0:
        raise core.CheckError(f"c19_child failed rc={r.returncode} on {sc_name(sc)}: {r.stderr[-1500:]}")
    out = []
    for line in r.stdout.strip().split("\n"):
        d = json.loads(line)
        d["dest"] = None if d["dest"] is None else d["dest"].encode("latin1")
        if d["rc"] not in (0, 77):
            raise core.CheckError(f"c19_child execution failed rc={d['rc']} on {sc_name(sc)} {d['mode']} {d['k']}")
        out.append(d)
    return out


def zip_members(content):
    try:
        with zipfile.ZipFile(io.BytesIO(content)) as z:
            return [z.read(i) for i in z.infolist()]
    except Exception:  # noqa: BLE001
        return None


def decompressed(content, name):
    """the content as a reader of the file would see it; raises when the stream is truncated / corrupt"""
    if name.endswith(".gz"):
        return gzip.decompress(content)
    if name.endswith(".bz2"):
        return bz2.decompress(content)
    return content


def new_ref(trace, sc):
    """the content a completed write produced (the trace run), None when the trace did not complete"""
    if trace["outcome"] != "ok" or trace["dest"] is None:
        return None
    if is_zip(sc):
        ms = zip_members(trace["dest"])
        return ms[-1] if ms else None
    try:
        return decompressed(trace["dest"], dest_name(sc))
    except Exception:  # noqa: BLE001
        return None


def dest_code(content, new, sc):
    """0 absent, 1 the previous content, 2 exactly the new content, 3 anything else"""
    if content is None:
        return 0
    if is_zip(sc):
        ms = zip_members(content)
        if ms is None:
            return 3   # exists but is not an archive
        oldm = [OLD] if sc["old"] else None
        if oldm is not None and ms == oldm:
            return 1
        base = oldm if (sc.get("in_zip") and oldm) else []   # an explicit archive keeps its other members
        if len(ms) == len(base) + 1 and ms[:-1] == base and ms[-1] != OLD and new is not None and ms[-1] == new:
            return 2
        return 3
    if content == OLD:
        return 1
    try:
        # compressed targets are judged by what decompresses: a truncated stream is neither the previous nor the new content
        c = decompressed(content, dest_name(sc))
    except Exception:  # noqa: BLE001
        return 3
    if c == OLD:
        return 1
    if new is not None and c == new:
        return 2
    return 3


def event_codes(events, sc):
    """audit events -> model op codes: 1 mkdtemp, 11 inner mkdtemp, 2 open staged file (12 inside the inner directory),
    13/14 open(temporary archive, r+ / w+), 23/24 open(destination archive, r+ / w+), 15 staged file opened for reading,
    5 remove dest, 6 rename/replace to dest, 7 rmtree (17 of the inner directory), 0 rmtree's own directory scan, 9 unexpected"""
    codes, outer, inner = [], None, None
    dn = dest_name(sc)
    for e in events:
        ev, p = e["event"], e["paths"][0]
        if ev == "tempfile.mkdtemp":
            if outer is None:
                outer = p
                codes.append(1)
            elif p.startswith(outer + os.sep) and inner is None:
                inner = p
                codes.append(11)
            else:
                codes.append(9)
        elif ev == "open":
            m = e.get("mode", "")
            if p in (outer, inner):
                codes.append(0)
            elif inner and p.startswith(inner + os.sep):
                codes.append(12 if m.startswith("w") else 15 if m.startswith("r") else 9)
            elif outer and p.startswith(outer + os.sep):
                if inner is not None and p.endswith(".zip"):
                    codes.append(13 if m == "r+" else 14 if m in ("w+", "w") else 9)
                else:
                    codes.append(2 if m.startswith("w") else 15 if m == "r" else 9)
            elif p == dn and dn.endswith(".zip"):
                codes.append(23 if m == "r+" else 24 if m in ("w+", "w") else 9)
            else:
                codes.append(9)
        elif ev == "os.remove":
            codes.append(0 if (outer and p.startswith(outer + os.sep)) else 5)
        elif ev == "os.rename":
            codes.append(6)
        elif ev == "shutil.rmtree":
            codes.append(17 if p == inner else 7 if p == outer else 9)
        else:
            codes.append(9)
    return codes


def shape_of(sc, trace, H):
    """which model program describes the scenario (None: compared with the property-text oracle only)"""
    f = sc.get("fail")
    if is_zip(sc):
        if f or trace["outcome"] != "ok" or H["zipcommit"] != "append":
            return None
        return 3 if sc.get("in_zip") else 2
    if f and not trace["events"]:
        return None    # fails before atomic_write is entered (nothing touches the file system)
    if f == "badmode":
        return 5
    if f == "early":
        return 4
    return 1 if f else 0


def coq_case(shape, sc, mode, k, exc, H):
    return f"({shape}, {cbool(sc['old'])}, {mode}, {k}, {EXC_CODE[exc]}, ({zlist(H['enter'])}, {zlist(H['exit'])}))"


# ------------------------------------------------------------------ part A

def part_a(tier):
    scs = scenarios(tier)
    with cf.ThreadPoolExecutor(max_workers=core.NPROC) as ex:
        res = list(ex.map(lambda sp: run_server(sp[0], sp[1], tier), scs))
    return scs, res


def check_part_a(rep, scs, res, H, pr, disagreements, samples, nontrivial, dist):
    # ---- model cases
    cases, where = [], {}
    for si, ((sc, _), runs) in enumerate(zip(scs, res)):
        trace = runs[0]
        shape = shape_of(sc, trace, H)
        if shape is None:
            continue
        codes = event_codes(trace["events"], sc)
        for ri, r in enumerate(runs):
            if r["mode"] == "trace":
                where[(si, ri)] = len(cases)
                cases.append(coq_case(shape, sc, 0, 0, "ValueError" if shape == 5 else None, H))
                continue
            if shape == 5 or (shape in (2, 3) and r["mode"] == "fault"):
                continue
            k = r["k"]
            if k < len(codes) and codes[k] == 0:
                continue    # inside rmtree's own scan: part of the enclosing rmtree
            km = sum(1 for c in codes[:k] if c != 0)
            where[(si, ri)] = len(cases)
            cases.append(coq_case(shape, sc, 1 if r["mode"] == "kill" else 2, km, r["exc"], H))
    model = None
    try:
        model = core.coq_eval(PROP, ["Model.AtomicWrite", "Model.AtomicWriteRun"], "run_case", cases, CASE_T, shard=400)
        cov = core.coq_eval(PROP, ["Model.AtomicWrite", "Model.AtomicWriteRun"], "run_covers",
                            [f"({zlist(H['enter'])}, {zlist(H['exit'])})"], "list Z * list Z", tag="h")[0]
    except core.CheckError as e:
        if not pr["problems"]:
            raise
        rep.notes.append("model not runnable: " + str(e)[:200])
        cov = None
    n_eval = 0
    for si, ((sc, primary), runs) in enumerate(zip(scs, res)):
        name = sc_name(sc)
        trace = runs[0]
        new = new_ref(trace, sc)
        codes_all = event_codes(trace["events"], sc)
        completes = trace["outcome"] == "ok"
        old_code = 1 if sc["old"] else 0
        wt, ft = writer_tag(sc), fail_tag(sc)
        dist[("zip" if is_zip(sc) else "gz" if dest_name(sc).endswith((".gz", ".bz2")) else "plain") + ":" + ("fail" if not completes else "ok")] += 1
        for ri, r in enumerate(runs):
            n_eval += 1
            dc = dest_code(r["dest"], new, sc)
            left = bool(r["leftovers"])
            m = model[where[(si, ri)]] if (model is not None and (si, ri) in where) else None
            if r["mode"] == "trace":
                codes = [c for c in codes_all if c != 0]
                if sc.get("fail") and completes:
                    raise core.CheckError(f"scenario {name} was meant to fail but succeeded")
                if not completes and not sc.get("fail") and not sc.get("xraise"):
                    rep.violation(f"write-raised:{wt}", dict(scenario=sc, outcome=trace["outcome"], broken="a plain write raised"))
                    continue
                # oracle (property text): completion => exactly the new content, nothing else;
                # handled failure => the previous state, nothing else
                expect = 2 if completes else old_code
                if dc != expect or left:
                    rep.violation(f"complete:{wt}:{ft}:dest{dc}:left{int(left)}",
                                  dict(scenario=sc, mode="trace", expected_by_spec=dict(dest=expect, leftovers=[]),
                                       observed_impl=dict(dest=dc, dest_bytes=repr(r["dest"])[:80], leftovers=r["leftovers"], outcome=r["outcome"],
                                                          archive_members=repr(zip_members(r["dest"]))[:200] if is_zip(sc) and r["dest"] else None),
                                       events=codes, broken="after a completed / handled-failed write the sandbox is not {new | old} with nothing else"))
                elif m is not None:
                    m_codes, m_obs = m[0], m[1]
                    if (shape_of(sc, trace, H) != 5 and codes != m_codes) or [dc, left] != m_obs:
                        disagreements.append(dict(key=f"trace:{wt}", scenario=sc, observed_impl=dict(events=codes, dest=dc, leftovers=left),
                                                  model_output=jsonable(m)))
                if len(samples) < 3 and (is_zip(sc) or len(samples) < 1):
                    samples.append(dict(scenario=sc, audited_events=codes, dest_code=dc, leftovers=r["leftovers"]))
                continue
            mode, k, exc = r["mode"], r["k"], r["exc"]
            nontrivial.add((name, mode, k, exc))
            opcode = codes_all[k] if k < len(codes_all) else -1
            allowed = {old_code} | ({2} if completes else set())
            if mode == "fault" and r["outcome"] == "ok":
                allowed = {2}      # the fault was absorbed: the write reports success, so it must be complete
            bad_dest = dc not in allowed
            # a handled failure (any Exception; KeyboardInterrupt is not one) leaves nothing temporary, as far as the
            # handlers can reach: an exception raised by the cleanup's own rmtree is beyond them
            bad_left = mode == "fault" and left and exc != "KeyboardInterrupt" and opcode not in (7, 17, 0)
            bad_left = bad_left or (mode == "fault" and r["outcome"] == "ok" and left)
            if bad_dest or bad_left:
                what = "dest" if bad_dest else "leftover"
                if sc.get("in_zip") and bad_dest:
                    key = f"inzip:{mode}:archive-neither-previous-nor-new"
                elif what == "leftover" and exc != "OSError":
                    key = f"fault:leftover:{wt}:{ft}:{exc}"      # coarse: one replay per writer x outcome x exception class
                else:
                    key = f"{mode}:{what}:{wt}:{ft}:before-op{opcode}:dest{dc}" + (f":{exc}" if exc not in (None, "OSError") else "")
                rep.violation(key,
                              dict(scenario=sc, mode=mode, k=k, exc=exc, audited_events=codes_all,
                                   expected_by_spec=dict(dest_in=sorted(allowed), leftovers="none after a handled failure"),
                                   observed_impl=dict(dest=dc, dest_bytes=repr(r["dest"])[:80], leftovers=r["leftovers"], outcome=r["outcome"],
                                                      archive_members=repr(zip_members(r["dest"]))[:200] if is_zip(sc) and r["dest"] else None),
                                   model_output=jsonable(m) if m is not None else None,
                                   broken="destination is neither the previous nor the new content" if bad_dest else
                                          "a handled failure left temporary files behind"))
            elif m is not None and [dc, left] != m:
                disagreements.append(dict(key=f"{mode}:{wt}", scenario=sc, mode=mode, k=k, exc=exc,
                                          observed_impl=dict(dest=dc, leftovers=r["leftovers"]), model_output=jsonable(m)))
            if len(samples) < 6 and mode == "kill" and k == 4 and is_zip(sc):
                samples.append(dict(scenario=sc, mode=mode, k=k, dest_code=dc, leftovers=r["leftovers"]))
    # the except-clauses read from the source must cover every handled class (the premise of handled_failure_no_temp_any_class)
    if cov is False and not H["problems"]:
        rep.violation("handlers:do-not-cover-every-exception", dict(
            handlers=dict(_get_fileobj=H["enter_names"], __exit__=H["exit_names"]), source=H["path"],
            expected_by_spec="both cleanup clauses of atomic_write catch every Exception",
            broken="premise covers_handled of theorem handled_failure_no_temp_any_class is false for the clauses in the source"),
            no_input=not rep.violations)
    return n_eval, len(cases)


# ------------------------------------------------------------------ part B (resume)

TRICKY_NAMES = [(["sofa", "a", "alfa"], "fa"), (["alfasta", "fasta", "afastab"], "fasta"),
                (["fa", "sofab", "so", "sofa"], "fa"), (["delta", "ta", "del", "elta"], "ta")]


def resume_jobs(tier, rng):
    jobs = []
    ns = [3] if tier == "quick" else [3, 4]
    for n in ns:
        for k in range(n + 1):
            for r in range(n + 1):
                for bad in itertools.combinations(range(n), r):
                    for mode1 in ("a", "w"):
                        for store in ("dir", "sqlite"):
                            for idfn in (False, True):
                                if tier == "quick" and n == 3 and idfn and store == "sqlite" and mode1 == "w" and len(bad) > 1:
                                    continue
                                jobs.append(dict(n=n, k=k, bad=list(bad), mode1=mode1, store=store, idfn=idfn))
    # identifiers that END in the suffix text, CONTAIN it, equal it, or are prefixes / suffixes of one another
    # (membership tests on the store must compare whole identifiers and whole dotted suffixes)
    for names, suffix in TRICKY_NAMES if tier == "thorough" else TRICKY_NAMES[:2]:
        n = len(names)
        for k in range(n + 1):
            for bad in [[]] + [[i] for i in range(n)]:
                for store in ("dir", "sqlite"):
                    for idfn in (False, True):
                        if idfn and bad and tier == "quick":
                            continue
                        jobs.append(dict(n=n, k=k, bad=bad, mode1="a", store=store, idfn=idfn, names=names, suffix=suffix))
    # a store that already holds records of an earlier run
    for n in ns:
        for store in ("dir", "sqlite"):
            jobs.append(dict(n=n + 1, k=rng.randrange(0, n), bad=[], mode1="a", store=store, idfn=False, pre=1))
            jobs.append(dict(n=n + 1, k=rng.randrange(1, n), bad=[1], mode1="a", store=store, idfn=False, pre=2))
    return jobs


def run_resume_jobs(jobs):
    nsh = max(1, min(core.NPROC, len(jobs) // 4 or 1))
    shards = [jobs[i::nsh] for i in range(nsh)]

    def one(sh):
        r = subprocess.run([core.PY, RCHILD, json.dumps(dict(jobs=sh))], capture_output=True, text=True, env=core.impl_env(), timeout=2400)
        if r.returncode != 0:
            raise core.CheckError(f"c19_resume_child failed rc={r.returncode}: {r.stderr[-1500:]}")
        return [json.loads(line) for line in r.stdout.strip().split("\n")]

    with cf.ThreadPoolExecutor(max_workers=nsh) as ex:
        parts = list(ex.map(one, shards))
    out = [None] * len(jobs)
    for i, p in enumerate(parts):
        for j, r in enumerate(p):
            out[i + j * nsh] = r
    return out


def rid(name, job):
    """record / input name -> input number: 's03.fasta', 's03', 'not_completed/s03.json', 'md5/s03.txt' -> 3"""
    b = os.path.basename(name)
    b = b.rsplit(".", 1)[0] if "." in b else b
    names = job.get("names") or [f"s{i:02d}" for i in range(job["n"])]
    return names.index(b)


def resume_key(job, what):
    # coarse: what went wrong x were there failing inputs x store type (+ user id function when nothing else is special)
    return f"resume:{what}:{'bad' if job.get('bad') else 'ok'}:{job.get('store', 'dir')}" + \
        (":idfn" if job.get("idfn") and not job.get("bad") else "") + (":tricky-ids" if job.get("names") and what != "raised" else "")


def check_resume(rep, jobs, rres, pr, disagreements, samples, nontrivial):
    rcases, ridx = [], {}
    for j, (job, r) in enumerate(zip(jobs, rres)):
        if r.get("machinery_error"):
            raise core.CheckError("resume machinery: " + r["machinery_error"])
        if not job.get("pre"):
            order = [rid(x, job) for x in r["order"]]
            ridx[j] = len(rcases)
            rcases.append(f"({zlist(order)}, {zlist(job['bad'])}, {zlit(job['k'])})")
    rmodel = None
    try:
        rmodel = core.coq_eval(PROP, ["Model.AtomicWrite", "Model.AtomicWriteRun"], "run_resume_nc", rcases, "list Z * list Z * Z", tag="r")
    except core.CheckError:
        if not pr["problems"]:
            raise
    n_eval = 0
    for j, (job, r) in enumerate(zip(jobs, rres)):
        n_eval += 1
        n = job["n"]
        nontrivial.add(("resume", json.dumps(job, sort_keys=True)))
        if r.get("resume_error"):
            rep.violation(resume_key(job, "raised"),
                          dict(resume_job=job, expected_by_spec="the resumed run completes", observed_impl=r["resume_error"],
                               broken="re-running apply_to on the interrupted store raised"))
            continue
        if r["final"] != r["uninterrupted"]:
            diff = sorted(set(r["final"].items()) ^ set(r["uninterrupted"].items()))[:4]
            rep.violation(resume_key(job, "store-differs"),
                          dict(resume_job=job, expected_by_spec="store of the uninterrupted run",
                               observed_impl=dict(diff=diff, final=sorted(r["final"]), uninterrupted=sorted(r["uninterrupted"])),
                               broken="resumed store differs from the uninterrupted run"))
            continue
        completed_before = {rid(p, job) for p in r["after_kill"] if "/" not in p}
        expected_proc = sorted(i for i in range(n) if i not in completed_before)
        got = sorted(rid(p, job) for p in r["processed_resume"])
        rewritten = sorted(key for key, st in r.get("stamps_before", {}).items() if r.get("stamps_after", {}).get(key) != st)
        if rewritten:
            # a completed record was written again (same content or not): inode/mtime of its file, or rowid/log id of its row, changed
            rep.violation(resume_key(job, "rewrote-completed"),
                          dict(resume_job=job, expected_by_spec="records completed before the interruption are not written again",
                               observed_impl=dict(rewritten=rewritten, stamps_before={k_: r["stamps_before"][k_] for k_ in rewritten},
                                                  stamps_after={k_: r["stamps_after"].get(k_) for k_ in rewritten},
                                                  processed_on_resume=r["processed_resume"]),
                               broken="the resumed run rewrote an already completed record"))
        elif got != expected_proc:
            rep.violation(resume_key(job, "processed"), dict(resume_job=job, expected_by_spec=expected_proc, observed_impl=got,
                          broken="resume did not process exactly the inputs without a completed record"))
        elif rmodel is not None and j in ridx:
            m = rmodel[ridx[j]]
            comp = lambda snap: sorted(rid(p, job) for p in snap if "/" not in p)  # noqa: E731
            nc = lambda snap: sorted(rid(p, job) for p in snap if p.startswith("not_completed/"))  # noqa: E731
            obs = [got, comp(r["final"]), nc(r["final"]), comp(r["uninterrupted"]), nc(r["uninterrupted"])]
            if obs != [sorted(x) for x in m]:
                disagreements.append(dict(key="resume", resume_job=job, observed_impl=obs, model_output=jsonable(m)))
        if len(samples) < 9 and job["k"] == 2 and job["bad"] == [1]:
            samples.append(dict(resume=job, processed_on_resume=r["processed_resume"], final_records=sorted(r["final"])))
    return n_eval


# ------------------------------------------------------------------ the check

def run(tier: str, seed: int) -> int:
    rep = core.Report(PROP, tier, seed)
    rng = random.Random(seed * 104729 + 19)
    pr = core.proof_stage(PROP, COQ_TARGETS)
    core.proof_coverage(rep, pr, "make theories/Properties/C19.vo && coqc gen/assum_C19.v (Print Assumptions)", [
        "POSIX rename/replace atomicity is the DEFINITION of the model's Replace/Rename operation (assumed, not verified)",
        "sys.addaudithook event stream (tempfile.mkdtemp, open, os.remove, os.rename, shutil.rmtree) is taken as the list of "
        "file-system operations of a write; buffered writes and close are not audited and are not kill points; what "
        "zipfile.ZipFile does between two audited events (member + directory written on close) is one model step",
        "os._exit inside the audit hook stands for process death; durability (fsync), power loss and the kernel are outside the model",
        "the except-clauses of atomic_write._get_fileobj / __exit__ are read from the source text with ast by the driver "
        "(one try, one clause, 'rmtree; raise'; anything else aborts) and handed to the model as the handler set",
        "executions of one scenario are forked from one interpreter that has imported cogent3 (a fresh process per execution, no re-import)",
    ])
    disagreements, samples, nontrivial = [], [], set()
    dist = {k: 0 for k in ("plain:ok", "plain:fail", "gz:ok", "gz:fail", "zip:ok", "zip:fail")}
    H = read_handlers()
    if H["problems"]:
        # the tie between the source text and the model's handler set / program shape is broken: no obligation counts as
        # discharged for this tree; the enumeration below searches for a concrete failing input (conclude() reports the
        # broken tie as `no-failing-input-found` when it finds none)
        pr["problems"] = list(pr["problems"]) + ["source tie broken (atomic_write reader, fail-closed): " + x for x in H["problems"]]
        pr["discharged"] = 0
        rep.coverage.update(discharged=0)
        rep.notes.append("source tie broken: " + "; ".join(H["problems"]))
    # ---- part A
    scs, res = part_a(tier)
    n_a, n_model = check_part_a(rep, scs, res, H, pr, disagreements, samples, nontrivial, dist)
    # ---- part B
    jobs = resume_jobs(tier, rng)
    rres = run_resume_jobs(jobs)
    n_b = check_resume(rep, jobs, rres, pr, disagreements, samples, nontrivial)
    n_eval = n_a + n_b
    runs = [r for rr in res for r in rr]
    rep.coverage.update(
        evaluations=n_eval, distinct_nontrivial=len(nontrivial),
        rule="one evaluation = one forked-process execution of a writer (trace, kill before audited event k, or an exception of one class "
             "raised by event k) or one interrupted+resumed apply_to; every audited event of every scenario is a kill point "
             "and a fault point for each of 4 exception classes (quick: secondary scenarios with one of the two destination states each, "
             "alternating; thorough: both); non-trivial = kill/fault/resume runs (distinct (scenario, mode, k, class) / resume job)",
        samples=samples,
        input_distribution=dict(scenarios=len(scs), scenario_classes=dist,
                                kill_runs=sum(1 for r in runs if r["mode"] == "kill"),
                                fault_runs={c: sum(1 for r in runs if r["mode"] == "fault" and r["exc"] == c) for c in CLASSES},
                                model_cases=n_model, resume_runs=len(jobs),
                                resume_dimensions="k x every subset of failing inputs x first-run mode a/w x directory/sqlite x default/user id function",
                                handlers_read_from_source=dict(_get_fileobj=H["enter_names"], __exit__=H["exit_names"],
                                                               _close_rename_zip=H["zipcommit"]),
                                writers=sorted({s["writer"] for s, _ in scs})),
        model_impl_disagreements=len(disagreements),
        partial=["zip targets: kill points are the audited events; a death INSIDE ZipFile's own member/directory write is not enumerated; "
                 "faults on zip targets are checked against the property-text oracle only (the nested handler structure is not modelled)",
                 "KeyboardInterrupt (not an Exception) raised inside __enter__ / __exit__ is not a handled failure: only the destination "
                 "is checked against the property text, the leftovers against the model (which predicts them from the clauses read)",
                 "durability (fsync) and torn writes inside one os call are outside the model",
                 "kill points are audited os-level events; buffered writes/close are covered by the model only",
                 "a kill between a data-store member write and its md5 side file is not enumerated (resume is per completed record, as the property states)"],
        exhaustive=True,
    )
    core.conclude(rep, pr, f"{n_eval} kill/fault/resume executions against the property-text oracle", disagreements,
                  "Model.AtomicWriteRun vs cogent3.util.io.atomic_write users / apply_to", tier, PROP)
    return rep.finish("proof")


def replay(path: str) -> int:
    d = json.loads(open(path).read())
    if "scenario" in d:
        sc, mode, k, exc = d["scenario"], d.get("mode", "trace"), d.get("k", -1), d.get("exc")
        runs = run_server(sc, True, "quick", jobs=[["trace", -1, None]] + ([] if mode == "trace" else [[mode, k, exc]]))
        t, r = runs[0], runs[-1]
        new = new_ref(t, sc)
        dc = dest_code(r["dest"], new, sc)
        print("scenario", sc, mode, k, exc, "-> dest code", dc, "leftovers", r["leftovers"], "outcome", r["outcome"],
              "archive members", zip_members(r["dest"]) if is_zip(sc) and r["dest"] else None)
        completes = t["outcome"] == "ok"
        if mode == "trace":
            bad = dc != (2 if completes else (1 if sc["old"] else 0)) or bool(r["leftovers"])
        else:
            allowed = {1 if sc["old"] else 0} | ({2} if completes else set())
            bad = dc not in allowed or (mode == "fault" and exc != "KeyboardInterrupt" and bool(r["leftovers"]))
        print("expected by the property: dest in {previous, new}, no leftovers after a handled failure")
        print("REPRODUCED" if bad else "not reproduced")
        return 1 if bad else 0
    if "resume_job" in d:
        r = run_resume_jobs([d["resume_job"]])[0]
        bad = bool(r.get("resume_error")) or r["final"] != r["uninterrupted"]
        print("resumed run error:", r.get("resume_error"))
        print("final == uninterrupted:", r["final"] == r["uninterrupted"], "processed on resume:", r["processed_resume"])
        print("REPRODUCED" if bad else "not reproduced")
        return 1 if bad else 0
    print("replay names a broken obligation, not an input:", d.get("broken"))
    return 1
