"""C19 — File writes are all-or-nothing; interrupted runs resume to the same result.

Stage P: Properties/C19.v (prefix / fault / failure theorems about the
atomic-write program, resume theorems about apply_to).
Stage C: every writer x target configuration is traced with a
sys.addaudithook; the audited operation list must equal the model program and,
for EVERY audited event k, the run is repeated with the process killed before
event k and with OSError raised by event k; the resulting sandbox is compared
with Model.AtomicWriteRun.  apply_to is killed after every number of processed
records and resumed.
Stage S: the oracle is the property text itself (dest in {old,new}; no
leftovers after a handled failure; resumed store = uninterrupted store)."""
from __future__ import annotations

import concurrent.futures as cf
import gzip
import json
import os
import random
import shutil
import subprocess
import tempfile

from vcheck import core
from vcheck.val import cbool, jsonable, zlist, zlit

PROP = "C19"
COQ_TARGETS = ["theories/Model/AtomicWriteRun.vo"]
CHILD = str(core.VERIF / "harness/props/c19_child.py")
RCHILD = str(core.VERIF / "harness/props/c19_resume_child.py")
OLD = b"OLD"


# ------------------------------------------------------------------ scenarios

def scenarios(tier):
    sc = []
    for old in (True, False):
        sc += [
            dict(writer="aln", dest="x.fasta", old=old),
            dict(writer="aln", dest="x.fasta", old=old, fail=True),
            dict(writer="table", dest="t.tsv", old=old),
            dict(writer="table", dest="t.tsv", old=old, fail=True),
            dict(writer="atomic", dest="z.txt", old=old),
            dict(writer="atomic", dest="z.txt", old=old, fail=True),
        ]
        if old:
            # configuration dimension: a destination without the owner-write bit (replace must still be one step)
            sc += [
                dict(writer="aln", dest="x.fasta", old=True, ro=True),
                dict(writer="table", dest="t.tsv", old=True, ro=True),
                dict(writer="atomic", dest="z.txt", old=True, ro=True),
            ]
        if tier == "thorough" or old:
            sc += [
                dict(writer="aln", dest="x.phylip", old=old, array=True),
                dict(writer="aln", dest="x.fasta", old=old, new_type=True),
                dict(writer="aln", dest="x.json", old=old),
                dict(writer="aln", dest="x.fasta.gz", old=old),
                dict(writer="seqs", dest="s.fasta", old=old),
                dict(writer="seqs", dest="s.phylip", old=old, fail=True) if False else dict(writer="seqs", dest="s.fasta", old=old, new_type=True),
                dict(writer="tree", dest="t.nwk", old=old),
                dict(writer="tree", dest="t.json", old=old),
                dict(writer="table", dest="t.csv", old=old),
                dict(writer="table", dest="t.tsv.gz", old=old),
                dict(writer="table", dest="t.json", old=old),
                dict(writer="table", dest="t.pickle", old=old),
                dict(writer="dictarray", dest="d.tsv", old=old),
                dict(writer="treecoll", dest="c.trees", old=old),
                dict(writer="treecoll", dest="c.trees", old=old, fail=True),
            ]
    return sc


def sc_name(sc):
    return f"{sc['writer']}:{sc['dest']}:{'old' if sc['old'] else 'absent'}:{'fail' if sc.get('fail') else 'ok'}" + \
        (":new_type" if sc.get("new_type") else "") + (":array" if sc.get("array") else "") + (":ro" if sc.get("ro") else "")


def run_child(sc, mode, k=-1):
    """returns dict(rc, events, outcome, dest: bytes|None, leftovers: [names])"""
    sb = tempfile.mkdtemp(prefix="c19_")
    try:
        dest = os.path.join(sb, sc["dest"])
        if sc["old"]:
            with open(dest, "wb") as f:
                f.write(OLD)
            if sc.get("ro"):
                os.chmod(dest, 0o444)
        try:
            r = subprocess.run([core.PY, CHILD, json.dumps(dict(sandbox=sb, scenario=sc, mode=mode, k=k))],
                               capture_output=True, text=True, env=core.impl_env(), timeout=180)
            rc, out, err = r.returncode, r.stdout, r.stderr
        except subprocess.TimeoutExpired:
            rc, out, err = 124, "", "timeout"
        events, outcome = None, None
        if rc == 0:
            try:
                d = json.loads(out.strip().split("\n")[-1])
                events, outcome = d["events"], d["outcome"]
            except (json.JSONDecodeError, IndexError):
                raise core.CheckError(f"c19_child printed garbage: {out[-300:]} {err[-600:]}")
        elif rc != 77:
            raise core.CheckError(f"c19_child failed rc={rc}: {err[-1500:]}")
        content = None
        if os.path.exists(dest):
            with open(dest, "rb") as f:
                content = f.read()
        left = sorted(n for n in os.listdir(sb) if n != sc["dest"])
        return dict(rc=rc, events=events, outcome=outcome, dest=content, leftovers=left, sandbox=sb)
    finally:
        shutil.rmtree(sb, ignore_errors=True)


def norm(content, destname):
    if content is None:
        return None
    if destname.endswith(".gz"):
        try:
            return gzip.decompress(content)
        except Exception:  # noqa: BLE001
            return b"<corrupt gz>" + content[:20]
    return content


def event_codes(events, sb):
    """audit events -> model op codes (1 mkdtemp, 2 open tmp file, 5 remove dest, 6 rename/replace to dest, 7 rmtree, 9 unexpected)"""
    codes, tmpdir = [], None
    for e in events:
        ev, paths = e["event"], e["paths"]
        if ev == "tempfile.mkdtemp":
            tmpdir = paths[0]
            codes.append(1)
        elif ev == "open":
            if tmpdir and paths[0] == tmpdir:
                codes.append(0)  # rmtree's own directory scan: part of the enclosing rmtree
            elif tmpdir and paths[0].startswith(tmpdir + os.sep):
                codes.append(2)
            else:
                codes.append(9)
        elif ev == "os.remove":
            codes.append(5 if (tmpdir is None or not paths[0].startswith(tmpdir + os.sep)) else 0)
        elif ev == "os.rename":
            codes.append(6)
        elif ev == "shutil.rmtree":
            codes.append(7)
        else:
            codes.append(9)
    return codes


def dest_code(content, new, destname):
    if content == OLD:
        return 1
    c = norm(content, destname)
    if c is None:
        return 0
    if c == OLD:
        return 1
    if new is not None and c == new:
        return 2
    return 3


# ------------------------------------------------------------------ part A

def part_a(rep, tier):
    """returns (cases for the model, observations, bookkeeping)"""
    scs = scenarios(tier)
    jobs = []  # (sc, mode, k)
    traces = {}
    with cf.ThreadPoolExecutor(max_workers=core.NPROC) as ex:
        tr = list(ex.map(lambda sc: run_child(sc, "trace"), scs))
    for sc, t in zip(scs, tr):
        traces[sc_name(sc)] = t
        n = len(t["events"])
        for k in range(n + 1):
            jobs.append((sc, "kill", k))
        for k in range(n):
            jobs.append((sc, "fault", k))
    with cf.ThreadPoolExecutor(max_workers=core.NPROC) as ex:
        res = list(ex.map(lambda j: run_child(j[0], j[1], j[2]), jobs))
    return scs, traces, jobs, res


def model_cases_a(scs, traces, jobs):
    cases, index = [], []
    for sc in scs:
        cases.append(f"({cbool(bool(sc.get('fail')))}, {cbool(sc['old'])}, 0, 0)")
        index.append(("trace", sc, None))
    for sc, mode, k in jobs:
        # k counts audit events incl. rmtree's internal directory open (code 0): translate to the model's audited index
        codes = event_codes(traces[sc_name(sc)]["events"], None)
        km = sum(1 for c in codes[:k] if c != 0)
        internal = k < len(codes) and codes[k] == 0
        cases.append(f"({cbool(bool(sc.get('fail')))}, {cbool(sc['old'])}, {1 if mode == 'kill' else 2}, {km})")
        index.append((mode, sc, dict(k=k, km=km, internal=internal)))
    return cases, index


# ------------------------------------------------------------------ part B (resume)

def make_inputs(d, n, idfn=False):
    os.makedirs(d)
    for i in range(n):
        with open(os.path.join(d, f"s{i:02d}{'_raw' if idfn else ''}.fasta"), "w") as f:
            f.write(f">a\nACGT{'A' * i}\n>b\nGGCC{'T' * i}\n")


def snapshot_store(path):
    snap = {}
    for root, _, files in os.walk(path):
        for fn in files:
            p = os.path.join(root, fn)
            rel = os.path.relpath(p, path)
            if rel.startswith("logs"):
                continue
            with open(p, "rb") as f:
                snap[rel] = f.read().decode("latin1")
    return snap


def run_resume_case(n, k, bad, pre, idfn=False):
    """returns dict(processed_resume, final, uninterrupted)"""
    base = tempfile.mkdtemp(prefix="c19r_")
    try:
        ind = os.path.join(base, "in")
        make_inputs(ind, n, idfn)

        errs = []

        def call(outdir, kill_at, log):
            cfg = dict(indir=ind, outdir=outdir, kill_at=kill_at, log=log, bad=bad, idfn=idfn)
            r = subprocess.run([core.PY, RCHILD, json.dumps(cfg)], capture_output=True, text=True, env=core.impl_env(), timeout=300)
            if r.returncode not in (0, 77):
                if log.endswith("out2.log"):
                    # the RESUMED run raised: an observation about the code, not a machinery failure
                    errs.append(r.stderr[-1200:])
                    return r.returncode
                raise core.CheckError(f"c19_resume_child failed rc={r.returncode}: {r.stderr[-1500:]}")
            return r.returncode

        # uninterrupted reference
        ref = os.path.join(base, "ref")
        if pre:
            # a store that already holds some completed records (an earlier partial run)
            call(ref, len(pre), os.path.join(base, "ref0.log"))
        call(ref, -1, os.path.join(base, "ref.log"))
        # interrupted + resumed
        out = os.path.join(base, "out")
        if pre:
            call(out, len(pre), os.path.join(base, "out0.log"))
        rc = call(out, k, os.path.join(base, "out1.log"))
        after_kill = snapshot_store(out)
        call(out, -1, os.path.join(base, "out2.log"))
        logp = os.path.join(base, "out2.log")
        processed = open(logp).read().split() if os.path.exists(logp) else []
        order = [int(x[1:3]) for x in open(os.path.join(base, "ref.log")).read().split()]
        if pre:
            order = [int(x[1:3]) for x in open(os.path.join(base, "ref0.log")).read().split()] + order
        return dict(killed=(rc == 77), after_kill=sorted(after_kill), processed_resume=processed, order=order,
                    final=snapshot_store(out), uninterrupted=snapshot_store(ref), resume_error=(errs[0] if errs else None))
    finally:
        shutil.rmtree(base, ignore_errors=True)


# ------------------------------------------------------------------ the check

def run(tier: str, seed: int) -> int:
    rep = core.Report(PROP, tier, seed)
    rng = random.Random(seed * 104729 + 19)
    pr = core.proof_stage(PROP, COQ_TARGETS)
    core.proof_coverage(rep, pr, "make theories/Properties/C19.vo && coqc gen/assum_C19.v (Print Assumptions)", [
        "POSIX rename/replace atomicity is the DEFINITION of the model's Replace/Rename operation (assumed, not verified)",
        "sys.addaudithook event stream (tempfile.mkdtemp, open, os.remove, os.rename, shutil.rmtree) is taken as the list of "
        "file-system operations of a write; buffered writes and close are not audited and are not kill points",
        "os._exit inside the audit hook stands for process death; durability (fsync), power loss and the kernel are outside the model",
    ])
    disagreements = []
    # ---- part A
    scs, traces, jobs, res = part_a(rep, tier)
    model = None
    cases, index = model_cases_a(scs, traces, jobs)
    try:
        model = core.coq_eval(PROP, ["Model.AtomicWrite", "Model.AtomicWriteRun"], "run_case", cases,
                              "bool * bool * Z * Z", shard=400)
    except core.CheckError as e:
        if not pr["problems"]:
            raise
        rep.notes.append("model not runnable: " + str(e)[:200])
    news = {}
    for sc in scs:
        t = traces[sc_name(sc)]
        news[sc_name(sc)] = norm(t["dest"], sc["dest"]) if (t["outcome"] == "ok") else None
    n_eval = 0
    nontrivial = set()
    samples = []
    for i, (mode, sc, info) in enumerate(index):
        name = sc_name(sc)
        new = news[name]
        if mode == "trace":
            t = traces[name]
            codes = [c for c in event_codes(t["events"], None) if c != 0]
            dc = dest_code(t["dest"], new, sc["dest"])
            left = bool(t["leftovers"])
            n_eval += 1
            # oracle (property text): completion => exactly the new content, nothing else; formatting failure => old state, nothing else
            if sc.get("fail"):
                expect_dest = 1 if sc["old"] else 0
                if t["outcome"] == "ok":
                    raise core.CheckError(f"scenario {name} was meant to fail but succeeded")
            else:
                expect_dest = 2
                if t["outcome"] != "ok":
                    rep.violation(f"write-raised:{sc['writer']}", dict(scenario=sc, outcome=t["outcome"], broken="a plain write raised"))
                    continue
            if dc != expect_dest or left:
                rep.violation(f"complete:{sc['writer']}:{'fail' if sc.get('fail') else 'ok'}:dest{dc}:left{int(left)}",
                              dict(scenario=sc, mode="trace", expected_by_spec=dict(dest=expect_dest, leftovers=[]),
                                   observed_impl=dict(dest=dc, dest_bytes=repr(t["dest"])[:80], leftovers=t["leftovers"], outcome=t["outcome"]),
                                   events=codes, broken="after a completed / handled-failed write the sandbox is not {new | old} with nothing else"))
            if model is not None:
                m_codes, m_obs = model[i][0], model[i][1]
                if codes != m_codes or [dc, left] != m_obs:
                    disagreements.append(dict(key=f"trace:{sc['writer']}", scenario=sc, observed_impl=dict(events=codes, dest=dc, leftovers=left),
                                              model_output=jsonable(model[i])))
            if len(samples) < 2:
                samples.append(dict(scenario=sc, audited_events=codes, dest_code=dc, leftovers=t["leftovers"]))
            continue
        r = res[i - len(scs)]
        n_eval += 1
        dc = dest_code(r["dest"], new, sc["dest"])
        left = bool(r["leftovers"])
        k = info["k"]
        nontrivial.add((name, mode, k))
        # ---- oracle
        allowed = {1 if sc["old"] else 0} | ({2} if not sc.get("fail") else set())
        codes_all = event_codes(traces[name]["events"], None)
        faulted_is_rmtree = mode == "fault" and k < len(codes_all) and codes_all[k] in (7, 0)
        bad_dest = dc not in allowed
        bad_left = mode == "fault" and left and not faulted_is_rmtree
        if bad_dest or bad_left:
            what = "dest" if bad_dest else "leftover"
            opcode = codes_all[k] if k < len(codes_all) else -1
            rep.violation(f"{mode}:{what}:{sc['writer']}:{'fail' if sc.get('fail') else 'ok'}:before-op{opcode}:dest{dc}",
                          dict(scenario=sc, mode=mode, k=k, audited_events=codes_all,
                               expected_by_spec=dict(dest_in=sorted(allowed), leftovers="none after a handled failure"),
                               observed_impl=dict(dest=dc, dest_bytes=repr(r["dest"])[:80], leftovers=r["leftovers"], outcome=r["outcome"]),
                               model_output=jsonable(model[i]) if model is not None else None,
                               broken="destination is neither the previous nor the new content" if bad_dest else
                                      "a handled failure left temporary files behind"))
        elif model is not None and not info["internal"] and [dc, left] != model[i]:
            disagreements.append(dict(key=f"{mode}:{sc['writer']}", scenario=sc, mode=mode, k=k,
                                      observed_impl=dict(dest=dc, leftovers=r["leftovers"]), model_output=jsonable(model[i])))
        if len(samples) < 5 and mode == "kill" and k == 2:
            samples.append(dict(scenario=sc, mode=mode, k=k, dest_code=dc, leftovers=r["leftovers"]))

    # ---- part B
    ns = [4] if tier == "quick" else [3, 6]
    rjobs = []
    for n in ns:
        for k in range(n + 1):
            rjobs.append((n, k, [], []))
        rjobs.append((n, rng.randrange(1, n), ["s01"], []))        # a failing record (NotCompleted) in the set
        rjobs.append((n, rng.randrange(0, n - 1), [], ["s00"]))     # store already holds an earlier record
        for k in sorted({0, 1, n // 2, n}):                          # user supplied id_from_source (input name != record id)
            rjobs.append((n, k, [], [], True))
    with cf.ThreadPoolExecutor(max_workers=min(core.NPROC, 8)) as ex:
        rres = list(ex.map(lambda j: run_resume_case(*j), rjobs))
    rcases = []
    rjobs = [j if len(j) == 5 else (*j, False) for j in rjobs]
    for (n, k, bad, pre, idfn), r in zip(rjobs, rres):
        # inputs in the order the store lists them (= processing order of the uninterrupted run)
        order = r["order"] if len(r["order"]) == n else list(range(n))
        rcases.append(f"({zlist(order)}, {zlist(order[:len(pre)])}, {zlit(k)})")
    rmodel = None
    try:
        rmodel = core.coq_eval(PROP, ["Model.AtomicWrite", "Model.AtomicWriteRun"], "run_resume", rcases, "list Z * list Z * Z", tag="r")
    except core.CheckError as e:
        if not pr["problems"]:
            raise
    for j, ((n, k, bad, pre, idfn), r) in enumerate(zip(rjobs, rres)):
        n_eval += 1
        nontrivial.add(("resume", n, k, tuple(bad), tuple(pre), idfn))
        ids = lambda snap: sorted(int(p[1:3]) for p in snap if "/" not in p and p.endswith(".fasta"))  # noqa: E731
        if r.get("resume_error"):
            rep.violation(f"resume:raised:{'bad' if bad else 'ok'}:{'pre' if pre else 'fresh'}" + (":idfn" if idfn else ""),
                          dict(n_inputs=n, kill_after=k, bad=bad, pre=pre, idfn=idfn, expected_by_spec="the resumed run completes",
                               observed_impl=r["resume_error"], broken="re-running apply_to on the interrupted store raised"))
            continue
        if r["final"] != r["uninterrupted"]:
            diff = sorted(set(r["final"].items()) ^ set(r["uninterrupted"].items()))[:4]
            rep.violation(f"resume:store-differs:{'bad' if bad else 'ok'}:{'pre' if pre else 'fresh'}" + (":idfn" if idfn else ""),
                          dict(n_inputs=n, kill_after=k, bad=bad, pre=pre, idfn=idfn, expected_by_spec="store of the uninterrupted run",
                               observed_impl=dict(diff=diff, final=sorted(r["final"]), uninterrupted=sorted(r["uninterrupted"])),
                               broken="resumed store differs from the uninterrupted run"))
            continue
        done_before = set(p for p in r["after_kill"] if "/" not in p)
        expected_proc = sorted(f"s{i:02d}.fasta" for i in range(n) if f"s{i:02d}.fasta" not in done_before)
        if sorted(r["processed_resume"]) != expected_proc:
            rep.violation(f"resume:processed:{'bad' if bad else 'ok'}" + (":idfn" if idfn else ""), dict(n_inputs=n, kill_after=k, bad=bad, pre=pre, idfn=idfn,
                          expected_by_spec=expected_proc, observed_impl=sorted(r["processed_resume"]),
                          broken="resume did not process exactly the missing inputs"))
        elif rmodel is not None and not bad:
            m = rmodel[j]
            obs = [sorted(int(p[1:3]) for p in r["processed_resume"]), ids(r["final"]), ids(r["uninterrupted"])]
            if obs != [sorted(m[0]), sorted(m[1]), sorted(m[2])]:
                disagreements.append(dict(key="resume", n_inputs=n, kill_after=k, pre=pre, observed_impl=obs, model_output=jsonable(m)))
        if len(samples) < 7 and k == 2:
            samples.append(dict(resume=dict(n_inputs=n, kill_after=k), processed_on_resume=r["processed_resume"], final_ids=ids(r["final"])))

    rep.coverage.update(
        evaluations=n_eval, distinct_nontrivial=len(nontrivial),
        rule="one evaluation = one child-process execution of a writer (trace, kill before audited event k, or OSError at event k) or one "
             "interrupted+resumed apply_to; every audited event of every scenario is used as a kill point and as a fault point (exhaustive "
             "over events); non-trivial = kill/fault/resume runs (distinct (scenario, mode, k))",
        samples=samples,
        input_distribution=dict(scenarios=len(scs), kill_runs=sum(1 for j in jobs if j[1] == "kill"),
                                fault_runs=sum(1 for j in jobs if j[1] == "fault"), resume_runs=len(rjobs),
                                writers=sorted({s["writer"] for s in scs})),
        model_impl_disagreements=len(disagreements),
        partial=["zip targets (in_zip) are not modelled or enumerated: ZipFile append is not atomic and is outside the theorem",
                 "durability (fsync) and torn writes inside one os call are outside the model",
                 "kill points are audited os-level events; buffered writes/close are covered by the model only",
                 "a kill between a data-store member write and its md5 side file is not enumerated (resume is per completed record, as the property states)"],
        exhaustive=True,
    )
    core.conclude(rep, pr, f"{n_eval} kill/fault/resume executions against the property-text oracle", disagreements,
                  "Model.AtomicWriteRun vs cogent3.util.io.atomic_write users / apply_to", tier, PROP)
    return rep.finish("proof")


def replay(path: str) -> int:
    d = json.loads(open(path).read())
    if "scenario" in d:
        sc, mode, k = d["scenario"], d.get("mode", "trace"), d.get("k", -1)
        t = run_child(sc, "trace")
        new = norm(t["dest"], sc["dest"]) if t["outcome"] == "ok" else None
        r = t if mode == "trace" else run_child(sc, mode, k)
        dc = dest_code(r["dest"], new, sc["dest"])
        print("scenario", sc, mode, k, "-> dest code", dc, "leftovers", r["leftovers"], "outcome", r["outcome"])
        allowed = {1 if sc["old"] else 0} | ({2} if not sc.get("fail") else set())
        bad = dc not in allowed or (mode != "kill" and bool(r["leftovers"]))
        print("REPRODUCED" if bad else "not reproduced")
        return 1 if bad else 0
    if "n_inputs" in d:
        r = run_resume_case(d["n_inputs"], d["kill_after"], d.get("bad", []), d.get("pre", []), d.get("idfn", False))
        bad = r["final"] != r["uninterrupted"]
        print("final == uninterrupted:", not bad, "processed on resume:", r["processed_resume"])
        print("REPRODUCED" if bad else "not reproduced")
        return 1 if bad else 0
    print("replay names a broken obligation, not an input:", d.get("broken"))
    return 1
