"""C05 — Substitution processes are valid, calibrated Markov processes.

Stage P: Properties/C05.v (field algebra: zero rows, calibration, detailed
balance => stationarity, every polynomial / Pade rational function of Q is
row-stochastic and keeps pi, eigen-form semigroup, rate classes average one).
Stage C: the real cogent3 models (likelihood-function level) vs the Coq model
evaluated over exact rationals (inputs are dyadic floats, so model and code see
the same numbers; outputs compared under stated tolerances).
Stage S: plain numpy / Fraction oracle written from the published definitions
of the models and of a calibrated Markov process."""
from __future__ import annotations

import itertools
import json
import math
import random
from fractions import Fraction

import numpy

from vcheck import core
from vcheck.val import zlit

PROP = "C05"
COQ_TARGETS = ["theories/Model/RateMatrixRun.vo"]

TOL = 1e-9          # stated tolerance for every float comparison below (absolute, scaled by max(1,|x|))
TOL_BACKENDS = 1e-8  # agreement between exponentiator back-ends / semigroup law

NUC = "TCAG"        # cogent3's DNA alphabet order
PUR, PYR = set("AG"), set("CT")

REVERSIBLE_NUC = ["JC69", "K80", "F81", "HKY85", "TN93", "GTR"]
GENERAL_NUC = ["GN", "ssGN"]
CODON = ["MG94HKY", "MG94GTR", "GY94", "Y98", "CNFHKY", "CNFGTR", "H04G", "H04GK", "H04GGK", "GNC"]
PROTEIN = ["JTT92", "DSO78", "WG01"]
GTR_PAIRS = ["A/C", "A/G", "A/T", "C/G", "C/T"]
GN_PARAMS = ["A>C", "A>T", "A>G", "C>A", "C>T", "C>G", "T>A", "T>C", "G>A", "G>C", "G>T"]
SSGN_PARAMS = ["(A>G | T>C)", "(A>T | T>A)", "(C>G | G>C)", "(C>T | G>A)", "(G>T | C>A)"]

# standard genetic code, independent of cogent3 (NCBI table 1, TCAG order)
_AAS = "FFLLSSSSYY**CC*WLLLLPPPPHHQQRRRRIIIMTTTTNNKKSSRRVVVVAAAADDEEGGGG"
CODE = {a + b + c: _AAS[16 * i + 4 * j + k] for i, a in enumerate(NUC) for j, b in enumerate(NUC) for k, c in enumerate(NUC)}

PARAMS_OF = {
    "JC69": [], "F81": [], "K80": ["kappa"], "HKY85": ["kappa"], "TN93": ["kappa_y", "kappa_r"], "GTR": GTR_PAIRS,
    "GN": GN_PARAMS, "ssGN": SSGN_PARAMS,
    "MG94HKY": ["kappa", "omega"], "MG94GTR": GTR_PAIRS + ["omega"], "GY94": ["kappa", "omega"], "Y98": ["kappa", "omega"],
    "CNFHKY": ["kappa", "omega"], "CNFGTR": GTR_PAIRS + ["omega"], "H04G": ["G", "kappa", "omega"],
    "H04GK": ["G.K", "kappa", "omega"], "H04GGK": ["G", "G.K", "kappa", "omega"], "GNC": GN_PARAMS + ["omega"],
    "JTT92": [], "DSO78": [], "WG01": [],
}
MPROB_OF = {"MG94HKY": "monomer", "MG94GTR": "monomer", "CNFHKY": "conditional", "CNFGTR": "conditional", "GTR": "conditional"}
FIXED_EQUAL_MPROBS = {"JC69", "K80"}


# ------------------------------------------------------------------ generators

def dyadic(rng, lo_exp=-4, hi=8.0, den=16):
    """a float k/den in (0, hi]"""
    return rng.randint(1, int(hi * den)) / den


def rand_param(rng, style):
    if style == "near_equal":
        return 1.0 + rng.choice([0, 0, 1, -1]) / 1024
    if style == "near_degenerate":
        return 1.0 + rng.choice([-1, 0, 1, 1]) * 2.0 ** -rng.choice([10, 12, 14, 16])
    if style == "extreme":
        return rng.choice([2.0 ** -19, 2.0 ** -10, 2.0 ** -6, 2.0 ** 6, 2.0 ** 9, 2.0 ** 19, 1.0])  # bounds are 1e-6 .. 1e6
    return dyadic(rng, hi=6.0)


def rand_probs(rng, n, style):
    """n positive dyadic floats summing to exactly 1"""
    total = 64 if n <= 4 else (256 if n <= 16 else 2048)
    if style == "tiny_pi" and n <= 16:
        total = 1024
        ints = [1] * n
        rest = total - n
        big = rng.randrange(n)
        ints[big] += rest - (n - 1) * 3
        for i in range(n):
            if i != big:
                ints[i] += 3
    else:
        cuts = sorted(rng.sample(range(1, total), n - 1))
        ints = [b - a for a, b in zip([0] + cuts, cuts + [total])]
    assert sum(ints) == total and min(ints) >= 1
    return [i / total for i in ints]


def rand_length(rng, style):
    if style == "long":
        return rng.choice([3.0, 5.5, 10.0])
    if style == "tiny":
        return rng.choice([2.0 ** -20, 2.0 ** -12, 1 / 1024])
    if style == "short":
        return rng.randint(1, 6) / 16
    return rng.randint(1, 24) / 16


def named_case(rng, name, style="plain", bins=None, light=False):
    params = {p: rand_param(rng, "plain" if style == "short" else style) for p in PARAMS_OF[name]}
    if name in CODON or name in PROTEIN:
        kind = MPROB_OF.get(name, "tuple")
        nmp = 4 if kind == "monomer" else (61 if name in CODON else 20)
    else:
        nmp = 4
    mprobs = None if name in FIXED_EQUAL_MPROBS else rand_probs(rng, nmp, style)
    lstyle = style if style in ("long", "tiny", "short") else "plain"
    c = dict(kind="lf", spec={"name": name}, params=params, mprobs=mprobs, t1=rand_length(rng, lstyle),
             t2=rand_length(rng, lstyle), bins=bins, light=light, style=style, family=family_of(name))
    if rng.random() < 0.5 and not bins:
        c["expm_settings"] = ["eigen", "checked", "pade", "either"]
    return c


def family_of(name):
    return "codon" if name in CODON else "protein" if name in PROTEIN else "nucleotide"


def built_case(rng, style="plain", which=None, mpm=None, bins=None):
    """user-built predicate models"""
    which = which or rng.choice(["rev_nuc", "nonrev_nuc", "rev_dinuc", "nonrev_dinuc", "rev_codon", "subset_dinuc"])
    pairs = [("A", "C"), ("A", "G"), ("A", "T"), ("C", "G"), ("C", "T"), ("G", "T")]
    if which == "rev_nuc":
        k = rng.randint(1, 4)
        preds = [[a, b, False] for a, b in rng.sample(pairs, k)]
        spec = dict(cls="TimeReversibleNucleotide", preds=preds, mprob_model=None)
        names = [f"{a}/{b}" for a, b, _ in preds]
        nmp, fam = 4, "nucleotide"
    elif which == "nonrev_nuc":
        dirs = [(a, b) for a in NUC for b in NUC if a != b]
        k = rng.randint(1, 6)
        chosen = rng.sample(dirs, k)
        preds = [[a, b, True] for a, b in chosen]
        spec = dict(cls="NonReversibleNucleotide", preds=preds, mprob_model=None)
        names = [f"{a}>{b}" for a, b, _ in preds]
        nmp, fam = 4, "nucleotide"
    elif which == "rev_dinuc":
        mpm = mpm or rng.choice(["tuple", "monomer", "monomers", "conditional"])
        spec = dict(cls="TimeReversibleDinucleotide", preds=["kappa"], mprob_model=mpm)
        names = ["kappa"]
        nmp, fam = (4 if mpm in ("monomer", "monomers") else 16), "dinucleotide"
    elif which in ("rand_preds_nuc", "rand_preds_dinuc"):
        # any mixture of undirected and DIRECTED single-nucleotide predicates handed to a TimeReversible class: the
        # constructor may refuse (unbalanced / redundant); whatever it accepts must behave as a time-reversible model
        dirs = [(a, b) for a in NUC for b in NUC if a != b]
        preds, seen = [], set()
        for _ in range(rng.randint(1, 4)):
            if rng.random() < 0.5:
                a, b = rng.choice(pairs)
                pr = [a, b, False]
            else:
                a, b = rng.choice(dirs)
                pr = [a, b, True]
                if rng.random() < 0.6:   # and its mirror image as a separate parameter
                    if (b, a, True) not in seen:
                        seen.add((b, a, True))
                        preds.append([b, a, True])
            if tuple(pr) not in seen:
                seen.add(tuple(pr))
                preds.append(pr)
        cls = "TimeReversibleNucleotide" if which == "rand_preds_nuc" else "TimeReversibleDinucleotide"
        mpm = None if which == "rand_preds_nuc" else rng.choice(["tuple", "monomer", "conditional"])
        spec = dict(cls=cls, preds=preds, mprob_model=mpm)
        names = [f"{a}>{b}" if f else f"{a}/{b}" for a, b, f in preds]
        nmp, fam = (4 if (which == "rand_preds_nuc" or mpm == "monomer") else 16), ("nucleotide" if which == "rand_preds_nuc" else "dinucleotide")
    elif which == "subset_nuc":
        keep = sorted(rng.sample(list(NUC), 3))
        spec = dict(cls=rng.choice(["TimeReversibleNucleotide", "NonReversibleNucleotide"]), preds=[[keep[0], keep[1], False]],
                    mprob_model=None, motifs=keep)
        names = [f"{keep[0]}/{keep[1]}"]
        nmp, fam = 3, "nucleotide"
    elif which == "subset_dinuc":
        mpm = mpm or rng.choice(["tuple", "monomer", "monomers", "conditional"])
        allw = [a + b for a in NUC for b in NUC]
        keep = sorted(rng.sample(allw, rng.randint(9, 13)))
        spec = dict(cls="TimeReversibleDinucleotide", preds=["kappa"], mprob_model=mpm, motifs=keep)
        names = ["kappa"]
        nmp, fam = (4 if mpm in ("monomer", "monomers") else len(keep)), "dinucleotide"
    elif which == "general":
        spec = dict(cls="General", preds=[], mprob_model=None)
        names = [f"{a}/{b}" for a in NUC for b in NUC if a != b][:-1]   # every cell its own rate; G/A is the reference
        nmp, fam = 4, "nucleotide"
    elif which == "general_stationary":
        spec = dict(cls="GeneralStationary", preds=[], mprob_model=None)
        names = ["T>C", "T>A", "T>G", "C>T", "A>T", "C>A", "C>G", "A>C", "A>G"]
        nmp, fam = 4, "nucleotide"
        style = "near_equal"
    elif which == "nonrev_dinuc":
        dirs = [(a, b) for a in NUC for b in NUC if a != b]
        chosen = rng.sample(dirs, rng.randint(1, 3))
        preds = [[a, b, True] for a, b in chosen]
        mpm = mpm or rng.choice(["tuple", "tuple", "monomer", "monomers", "conditional"])
        spec = dict(cls="NonReversibleDinucleotide", preds=preds, mprob_model=mpm)
        names = [f"{a}>{b}" for a, b, _ in preds]
        nmp, fam = (4 if mpm in ("monomer", "monomers") else 16), "dinucleotide"
    else:
        mpm = mpm or rng.choice(["tuple", "monomer", "monomers", "conditional"])
        spec = dict(cls="TimeReversibleCodon", preds=["kappa", "omega"], mprob_model=mpm)
        names = ["kappa", "omega"]
        nmp, fam = (4 if mpm in ("monomer", "monomers") else 61), "codon"
    params = {p: rand_param(rng, style) for p in names}
    if spec.get("mprob_model") == "monomers":   # one monomer distribution per position
        mlen = 3 if fam == "codon" else 2
        mprobs = [rand_probs(rng, 4, style) for _ in range(mlen)]
    elif which == "general_stationary":
        mprobs = [x / 64 for x in rng.choice([[16, 16, 16, 16], [17, 15, 16, 16], [14, 18, 17, 15]])]
    else:
        mprobs = rand_probs(rng, nmp, style)
    return dict(kind="lf", spec=spec, params=params, mprobs=mprobs, t1=rand_length(rng, "plain"),
                t2=rand_length(rng, "plain"), bins=bins, light=False, style=style, family=fam, built=which)


GS_PARAMS = [f"{a}>{b}" for a in NUC[:3] for b in NUC if a != b]   # rows T, C, A are free; row G is solved for


def gs_requirements(params, pi):
    """GeneralStationary: the exchangeabilities G>T, G>C, G>A are what stationarity of pi requires,
    pi_G R[G,j] = sum_k pi_k R[j,k] - sum_{i != G} pi_i R[i,j]   (exact rationals).  Returns (R, required)"""
    R = [[Fraction(0)] * 4 for _ in range(4)]
    for nm, v in params.items():
        R[NUC.index(nm[0])][NUC.index(nm[2])] = Fraction(v)
    p = [Fraction(x) for x in pi]
    req = []
    for j in range(3):
        row_total = sum(p[k] * R[j][k] for k in range(4))
        col_total = sum(p[i] * R[i][j] for i in range(3))
        req.append(row_total - col_total)
        R[3][j] = (row_total - col_total) / p[3]
    return R, req


def gs_case(rng):
    """a parameter vector placed just inside or just outside the feasible region of ONE chosen dependent column"""
    pi = rand_probs(rng, 4, "plain")
    for _ in range(50):
        params = {nm: rng.randint(4, 48) / 16 for nm in GS_PARAMS}
        j = rng.randrange(3)
        i = rng.choice([x for x in range(3) if x != j])
        nm = f"{NUC[i]}>{NUC[j]}"
        p0 = dict(params)
        p0[nm] = 0.0
        _, req0 = gs_requirements(p0, pi)
        vstar = req0[j] / Fraction(pi[i])          # value of the chosen parameter at which column j becomes infeasible
        side = rng.choice(["inside", "outside", "far-inside"])
        factor = {"inside": Fraction(15, 16), "outside": Fraction(17, 16), "far-inside": Fraction(1, 2)}[side]
        v = float(Fraction(round(vstar * factor * 4096), 4096))
        if not 1e-3 < v < 1e3:
            continue
        params[nm] = v
        _, req = gs_requirements(params, pi)
        feasible = all(x >= 0 for x in req)
        if side == "outside" and sum(1 for x in req if x < 0) != 1:
            continue   # exactly the chosen column violates the requirement
        if side != "outside" and not feasible:
            continue
        return dict(kind="lf", spec=dict(cls="GeneralStationary", preds=[], mprob_model=None), params=params, mprobs=pi,
                    t1=rand_length(rng, "plain"), t2=rand_length(rng, "plain"), bins=None, light=False, style="gs_" + side,
                    family="nucleotide", built="general_stationary", gs_column=j, gs_feasible=feasible)
    return built_case(rng, "plain", which="general_stationary")


def small_rate_matrix(rng, n):
    """dyadic generator with zero row sums, entries k/8"""
    A = [[0.0] * n for _ in range(n)]
    for i in range(n):
        for j in range(n):
            if i != j:
                A[i][j] = rng.randint(0, 12) / 8
        A[i][i] = -sum(A[i])
    return A


def aux_cases(rng, tier):
    out = []
    npade = 6 if tier == "quick" else 60
    for _ in range(npade):
        n = rng.choice([2, 3, 4])
        A = small_rate_matrix(rng, n)
        if rng.random() < 0.3:
            A = [[x / 8 for x in row] for row in A]
        out.append(dict(kind="pade", A=A))
    out.append(dict(kind="pade", A=[[0.0] * 3 for _ in range(3)]))
    # large distances: the same rate matrix at t = 4 .. 32 (norm of Q t between ~10 and ~200), every back-end
    nbig = 8 if tier == "quick" else 60

    def big(n):
        # the speed of the process (norm of Q) and the time are drawn independently: fast Q x short t, slow Q x long t, ...
        while True:
            sc = rng.choice([1.0, 0.25, 1 / 16, 1 / 64, 1 / 256])
            A = [[x * sc for x in row] for row in small_rate_matrix(rng, n)]
            t = rng.choice([1.0, 4.0, 16.0, 64.0, 256.0, 1024.0, 4096.0])
            norm = max(sum(abs(x) for x in row) for row in A) * t
            if 4 <= norm <= 250:
                return A, t

    for _ in range(nbig):
        A, t = big(rng.choice([3, 4]))
        out.append(dict(kind="pade", A=A, t=t))
        A, t = big(rng.choice([3, 4]))
        out.append(dict(kind="expm_all", A=A, t=t))
    ntay = 3 if tier == "quick" else 20
    for _ in range(ntay):
        # norm < 1: the plain series is evaluated as is (also by a scaling-and-squaring variant, whose j is then 0)
        n = rng.choice([2, 3, 4])
        A = [[0.0] * n for _ in range(n)]
        for i in range(n):
            for j in range(n):
                if i != j:
                    A[i][j] = rng.randint(0, 3) / 32
            A[i][i] = -sum(A[i])
        out.append(dict(kind="taylor", A=A))
    out.append(dict(kind="taylor", A=[[0.0] * 2 for _ in range(2)]))
    for _ in range(8 if tier == "quick" else 60):
        out.append(dict(kind="ratios", ratios=[rng.choice([rng.randint(1, 64) / 8, 2.0 ** -rng.randint(1, 19), 2.0 ** rng.randint(3, 19)])
                                               for _ in range(rng.randint(1, 8))]))
    for _ in range(2 if tier == "quick" else 10):
        ml = rng.choice([1, 1, 2])
        nst = 4 ** ml
        out.append(dict(kind="discrete", model=rng.choice(["BH", "DT"]) if ml == 1 else "DT", motif_length=ml,
                        psubs={e: [rand_probs(rng, nst, "plain") for _ in range(nst)] for e in rng.sample("abc", rng.randint(1, 3))}))
    nr = 12 if tier == "quick" else 150
    for _ in range(nr):
        k = rng.randint(2, 5)
        w = rand_probs(rng, k, "plain") if rng.random() < 0.7 else [rng.randint(1, 16) / 16 for _ in range(k)]
        which = rng.choice(["weighted", "monotonic", "gamma"])
        if which == "gamma":
            out.append(dict(kind="rates", which=which, w=w, a=rng.choice([0.25, 0.5, 1.0, 2.0, 3.5])))
        else:
            out.append(dict(kind="rates", which=which, w=w, v=rand_probs(rng, k, "plain")))
    return out


# witnesses of past findings: always run first
CORPUS = [
    # near-defective Q (eigenvector basis ill-conditioned): the eigen precision test lets an inaccurate P through
    dict(kind="lf", spec={"name": "GN"},
         params={"A>C": 1.0, "A>T": 1.0000152587890625, "A>G": 1.0000152587890625, "C>A": 1.0000152587890625,
                 "C>T": 1.0000152587890625, "C>G": 1.0000152587890625, "T>A": 1.0000152587890625, "T>C": 1.0000152587890625,
                 "G>A": 0.9999847412109375, "G>C": 0.9999847412109375, "G>T": 1.0000152587890625},
         mprobs=[0.859375, 0.09375, 0.03125, 0.015625], t1=0.5, t2=0.25, bins=None, light=False, style="near_degenerate",
         family="nucleotide", expm_settings=["eigen", "checked", "pade", "either"]),
    # plain Taylor series without scaling at a long branch
    dict(kind="lf", spec={"name": "HKY85"}, params={"kappa": 4.0}, mprobs=[0.0625, 0.8125, 0.0625, 0.0625], t1=10.0, t2=5.5,
         bins=None, light=False, style="long", family="nucleotide"),
]


def build_cases(rng, tier):
    cases = [dict(c) for c in CORPUS]
    reps = 4 if tier == "quick" else 28
    for name in REVERSIBLE_NUC + GENERAL_NUC:
        for r in range(reps):
            if tier == "quick":
                style = ["plain", "short", "short", rng.choice(["near_equal", "extreme", "tiny_pi", "long", "tiny"])][r]
            else:
                style = ["plain", "short", "near_equal", "extreme", "tiny_pi", "long", "tiny"][r % 7]
            cases.append(named_case(rng, name, style))
    # rate heterogeneity
    for name in (["HKY85", "GN"] if tier == "quick" else ["HKY85", "GTR", "GN", "F81", "TN93", "ssGN"]):
        for dist in ("gamma", "free"):
            n = rng.randint(2, 4)
            bins = dict(n=n, dist=dist, shape=rng.choice([0.25, 0.5, 1.0, 2.0]))
            if dist == "free":
                bins["partition"] = rand_probs(rng, n, "plain")
            if rng.random() < 0.6:
                bins["bprobs"] = rand_probs(rng, n, "plain")
            cases.append(named_case(rng, name, "plain", bins=bins))
    # quick: one codon model per motif-probability model (monomer, conditional, tuple) + one other
    for name, setting in (("HKY85", "pade"), ("GN", "either")) if tier == "quick" else \
            [(nm, st_) for nm in ("HKY85", "GN", "GTR", "TN93") for st_ in ("pade", "either", "eigen")]:
        bins = dict(n=rng.choice([6, 8]), dist="gamma", shape=rng.choice([0.1, 0.125, 0.25]))
        c = named_case(rng, name, "plain", bins=bins)
        c.update(t1=rng.choice([4.0, 6.0, 8.0]), t2=rng.choice([6.0, 10.0]), expm=setting, style="long_x_rate")
        cases.append(c)
    codon = CODON if tier != "quick" else ["MG94HKY", "CNFGTR", "Y98", rng.choice(["MG94GTR", "CNFHKY", "GY94", "H04G", "H04GK", "H04GGK", "GNC"])]
    for name in codon:
        for r in range(1 if tier == "quick" else 5):
            cases.append(named_case(rng, name, "plain" if r == 0 else rng.choice(["near_equal", "extreme"])))
    for name in (PROTEIN[:1] if tier == "quick" else PROTEIN):
        cases.append(named_case(rng, name, "plain"))
    for name in GENERAL_NUC:
        for _ in range(2 if tier == "quick" else 40):
            cases.append(named_case(rng, name, "near_degenerate"))
    for mpm in ("tuple", "monomer", "monomers", "conditional"):
        cases.append(built_case(rng, "plain", which="rev_dinuc", mpm=mpm))
        cases.append(built_case(rng, "plain", which="subset_dinuc", mpm=mpm))
    cases.append(built_case(rng, "plain", which="rev_codon", mpm="monomers"))
    # non-stationary process whose word probabilities still come from a monomer model; rate classes on word models
    cases.append(built_case(rng, "plain", which="nonrev_dinuc", mpm="monomers"))
    cases.append(built_case(rng, "plain", which="nonrev_dinuc", mpm="monomer"))
    cases.append(built_case(rng, "plain", which="rev_dinuc", mpm="monomers", bins=dict(n=3, dist="gamma", shape=0.5)))
    cases.append(built_case(rng, "plain", which="subset_dinuc", mpm="monomer",
                            bins=dict(n=2, dist="free", shape=1.0, partition=[0.25, 0.75], bprobs=[0.625, 0.375])))
    cases.append(built_case(rng, "plain", which="subset_nuc"))
    for _ in range(10 if tier == "quick" else 80):
        cases.append(built_case(rng, "plain", which=rng.choice(["rand_preds_nuc", "rand_preds_nuc", "rand_preds_dinuc"])))
    for _ in range(12 if tier == "quick" else 90):
        cases.append(gs_case(rng))
    for st_ in (["plain", "short", "extreme"] if tier == "quick" else ["plain", "short", "extreme", "near_equal", "near_degenerate", "long"] * 4):
        cases.append(built_case(rng, st_, which="general"))
    if tier != "quick":
        for _ in range(12):
            cases.append(built_case(rng, rng.choice(["plain", "extreme", "tiny_pi"]), which="subset_dinuc"))
            cases.append(built_case(rng, "plain", which="subset_nuc"))
            cases.append(built_case(rng, "plain", which="general_stationary"))
        for mpm in ("tuple", "monomer", "monomers", "conditional"):
            for _ in range(2):
                cases.append(built_case(rng, rng.choice(["plain", "extreme"]), which="rev_codon", mpm=mpm))
    cases.append(built_case(rng, "plain", which="nonrev_dinuc"))
    cases.append(built_case(rng, "plain", which="rev_nuc"))
    cases.append(built_case(rng, "plain", which="nonrev_nuc"))
    nb = 6 if tier == "quick" else 200
    for _ in range(nb):
        cases.append(built_case(rng, rng.choice(["plain", "plain", "near_equal", "extreme", "near_degenerate"])))
    head, rest = cases[:len(CORPUS)], cases[len(CORPUS):] + aux_cases(rng, tier)
    rng.shuffle(rest)  # spread the expensive (codon) configurations over the interpreter shards
    return head + rest


# ------------------------------------------------------------------ rendering for Coq

def rat(x: float) -> str:
    n, d = float(x).as_integer_ratio()
    return f"({zlit(n)},{d})"


def nat(k: int) -> str:
    return f"{k}%nat"


def coq_mask(m) -> str:
    return "[" + ";".join("[" + ";".join("true" if x else "false" for x in row) + "]" for row in m) + "]"


def coq_ratmat(A) -> str:
    return "[" + ";".join("[" + ";".join(rat(x) for x in row) + "]" for row in A) + "]"


def taylor_terms_needed(norm, eps=1e-13):
    k = 1
    term = norm
    while term > eps or k < 4:
        k += 1
        term = term * norm / k
    return k + 1


def coq_pick_case(c, st, r=None):
    """CasePick: General / GeneralStationary from param_pick and last_in_column (data) and the INPUT values"""
    gs = c["spec"]["cls"] == "GeneralStationary"
    pick = "[" + ";".join("[" + ";".join(nat(x) for x in row) + "]" for row in st["param_pick"]) + "]"
    lic = "[" + ";".join(f"({nat(i)},{nat(j)})" for i, j in st["last_in_column"]) + "]"
    params = "[" + ";".join(rat(c["params"][p]) for p in st["param_order"]) + "]"
    probs = "[" + ";".join(rat(x) for x in c["mprobs"]) + "]"
    return f"CasePick {'true' if gs else 'false'} {nat(len(st['words']))} {pick} {lic} {params} {probs}"


def coq_lf_case(c, r):
    """CaseQ for an lf case, or None when the model does not cover it"""
    st = r["structure"]
    if c["spec"].get("cls") in ("GeneralStationary", "General"):
        return coq_pick_case(c, st, r), 0
    if st["pred_masks"] is None or not (st["stationary_calcQ"] or st["general_calcQ"]):
        return None
    mp = {"SimpleMotifProbModel": 0, "MonomerProbModel": 1, "ConditionalMotifProbModel": 2,
          "PosnSpecificMonomerProbModel": 3}.get(st["mprob_class"])

    if mp is None:
        return None
    mono = st["monomers"]
    words = "[" + ";".join("[" + ";".join(nat(mono.index(ch)) for ch in w) + "]" for w in st["words"]) + "]"
    preds = "[" + ";".join(f"({coq_mask(m)},{rat(r['params'][p])})" for m, p in zip(st["pred_masks"], st["param_order"])) + "]"
    flat = [x for row in r["mprobs"] for x in row] if mp == 3 else r["mprobs"]
    probs = "[" + ";".join(rat(x) for x in flat) + "]"
    n = len(st["words"])
    Q = numpy.array(r["Q"])
    norm = float(numpy.abs(Q).sum(axis=1).max()) * c["t1"]
    terms = 0
    s = 0
    if n == 4 and not c.get("bins") and norm <= 1.6 and c.get("style") in ("plain", "near_equal", "tiny_pi", "short") \
            and max(len(rat(v)) for v in list(r["params"].values()) + [1.0]) < 40:
        terms = taylor_terms_needed(norm)
        if terms > 18:
            terms = 0
    stationary = "true" if st["stationary_calcQ"] else "false"
    return (f"CaseQ {stationary} {mp} {nat(len(mono))} {nat(st['mlen'])} {words} {preds} {probs} {rat(c['t1'])} "
            f"{nat(s)} {nat(terms)}"), terms


def pade_q_j(A):
    """the float computations of PadeExponentiator that choose j and q (re-done here from the published
    scaling-and-squaring recipe; only used to tell the exact model which order to evaluate)"""
    A = numpy.array(A, float)
    norm = numpy.maximum.reduce(numpy.sum(numpy.absolute(A), axis=1))
    j = int(numpy.floor(numpy.log(max(norm, 0.5)) / numpy.log(2.0))) + 1
    e, q, qf = 1.0, 0, 1.0
    while e > 1e-12:
        q += 1
        q2 = 2.0 * q
        qf *= q ** 2 / (q2 * (q2 - 1) * q2 * (q2 + 1))
        e = 8 * (norm / (2 ** j)) ** (2 * q) * qf
    return q, j


def coq_aux_case(c, r):
    if c["kind"] == "pade":
        At = numpy.array(c["A"], float) * c.get("t", 1.0)   # dyadic entries and t: the product is exact
        q, j = pade_q_j(At)
        As = (At / 2.0 ** j).tolist()
        return f"CasePade {nat(len(As))} {nat(q)} {coq_ratmat(As)}"
    if c["kind"] == "taylor":
        return f"CaseTaylor {nat(len(c['A']))} {nat(r['q_after'] - 1)} {coq_ratmat(c['A'])}"
    if c["kind"] == "ratios":
        return f"CaseRatios [{';'.join(rat(x) for x in c['ratios'])}]"
    if c["kind"] == "rates":
        kind = {"weighted": 0, "monotonic": 1, "gamma": 2}[c["which"]]
        v = r["medians"] if c["which"] == "gamma" else c["v"]
        return f"CaseRates {kind} [{';'.join(rat(x) for x in c['w'])}] [{';'.join(rat(x) for x in v)}]"
    raise ValueError(c["kind"])


SCALE = 2 ** 90


def unscale(v):
    if isinstance(v, list):
        return [unscale(x) for x in v]
    return float(Fraction(int(v), SCALE))


# ------------------------------------------------------------------ plain-Python oracle (published definitions)

def is_transition(x, y):
    return (x in PUR and y in PUR) or (x in PYR and y in PYR)


def one_diff(w1, w2):
    d = [i for i in range(len(w1)) if w1[i] != w2[i]]
    return d[0] if len(d) == 1 else None


def published_rate(name_or_spec, params, x, y):
    """multiplier of the exchange x -> y (nucleotides), from the publications; None = oracle not available"""
    if isinstance(name_or_spec, dict) and name_or_spec.get("cls") == "General":
        return params.get(f"{x}/{y}", 1.0)   # G/A is the reference cell
    if isinstance(name_or_spec, dict):
        f = 1.0
        for p in name_or_spec["preds"]:
            if p == "kappa":
                if is_transition(x, y):
                    f *= params["kappa"]
            elif p == "omega":
                pass
            else:
                a, b, fwd = p
                nm = f"{a}>{b}" if fwd else f"{a}/{b}"
                if (x, y) == (a, b) or (not fwd and (x, y) == (b, a)):
                    f *= params[nm]
        return f
    name = name_or_spec
    if name in ("JC69", "F81"):
        return 1.0
    if name in ("K80", "HKY85", "MG94HKY", "GY94", "Y98", "CNFHKY"):
        return params["kappa"] if is_transition(x, y) else 1.0
    if name == "TN93":
        if x in PYR and y in PYR:
            return params["kappa_y"]
        if x in PUR and y in PUR:
            return params["kappa_r"]
        return 1.0
    if name in ("GTR", "MG94GTR", "CNFGTR"):
        key = "/".join(sorted([x, y]))
        return params.get(key, 1.0)  # G/T is the reference
    if name in ("GN", "GNC"):
        return params.get(f"{x}>{y}", 1.0)  # T>G is the reference
    if name == "ssGN":
        comp = {"A": "T", "T": "A", "G": "C", "C": "G"}
        for k, v in params.items():
            if k.startswith("("):
                alts = [s.strip() for s in k.strip("()").split("|")]
                if f"{x}>{y}" in alts:
                    return v
        assert (x, y) in (("A", "C"), ("T", "G")), (x, y)
        return 1.0
    return None


def oracle_Q(c, r):
    """rate matrix from the published definition of the model; None when this oracle does not apply"""
    st = r["structure"]
    words = st["words"]
    n = len(words)
    spec = c["spec"]
    name = spec.get("name")
    if name in PROTEIN or name in ("H04G", "H04GK", "H04GGK"):
        return None
    key = name if name else spec
    params = r["params"]
    mlen = st["mlen"]
    pi = numpy.array(r["pi"])
    if name:
        kind = MPROB_OF.get(name, "tuple")
        stationary = name not in ("GN", "ssGN", "GNC")
        is_codon = name in CODON
    else:
        kind = spec.get("mprob_model") or "tuple"
        stationary = spec["cls"].startswith("TimeReversible")
        is_codon = spec["cls"].endswith("Codon")
    mono = dict(zip(r["mprobs_keys"], r["mprobs"])) if kind == "monomer" else None
    per = [dict(zip(r["mprobs_keys"], row)) for row in r["mprobs"]] if kind == "monomers" else None
    if not name and spec["cls"] == "GeneralStationary":
        Rf, req = gs_requirements(params, r["mprobs"])
        if any(x < 0 for x in req):
            return None
        q = numpy.array([[float(Rf[i][j]) * pi[j] if i != j else 0.0 for j in range(4)] for i in range(4)])
        q -= numpy.diag(q.sum(axis=1))
        return q / -(pi * numpy.diag(q)).sum()
    has_omega = ("omega" in params)
    q = numpy.zeros((n, n))
    for i, wi in enumerate(words):
        for j, wj in enumerate(words):
            d = one_diff(wi, wj)
            if d is None:
                continue
            x, y = wi[d], wj[d]
            f = published_rate(key, params, x, y)
            if f is None:
                return None
            if is_codon and has_omega and CODE[wi] != CODE[wj]:
                f *= params["omega"]
            if stationary:
                if kind == "tuple":
                    f *= pi[j]
                elif kind == "monomer":
                    f *= mono[y]
                elif kind == "monomers":
                    f *= per[d][y]
                else:  # conditional nucleotide frequency: pi_j / sum of pi over words sharing the context
                    ctx = sum(pi[k] for k, wk in enumerate(words) if wk[:d] == wj[:d] and wk[d + 1:] == wj[d + 1:])
                    f *= pi[j] / ctx if ctx > 0 else 0.0
            q[i, j] = f
    q -= numpy.diag(q.sum(axis=1))
    mu = -(pi * numpy.diag(q)).sum()
    return q / mu


def oracle_pi(c, r):
    """word probabilities from the motif probabilities, by the published definition"""
    st = r["structure"]
    name = c["spec"].get("name")
    kind = MPROB_OF.get(name, "tuple") if name else (c["spec"].get("mprob_model") or "tuple")
    if kind == "monomers":   # product of per-position monomer probabilities, normalised over the allowed words
        per = [dict(zip(r["mprobs_keys"], row)) for row in r["mprobs"]]
        raw = numpy.array([math.prod(per[k][ch] for k, ch in enumerate(w)) for w in st["words"]])
        return raw / raw.sum()
    if kind != "monomer":
        return numpy.array(r["mprobs"])
    mono = dict(zip(r["mprobs_keys"], r["mprobs"]))
    raw = numpy.array([math.prod(mono[ch] for ch in w) for w in st["words"]])
    return raw / raw.sum()


def exact_expm(Q, t):
    """exp(Q t) by exact-rational scaling and squaring (Taylor core, 24 terms at norm <= 1/2;
    classical remainder bound < 1e-30), rounded to 2^-220 between squarings"""
    n = len(Q)
    tt = Fraction(t)
    A = [[Fraction(x) * tt for x in row] for row in Q]
    norm = max(sum(abs(x) for x in row) for row in A)
    s = 0
    while norm / (2 ** s) > Fraction(1, 2):
        s += 1
    A = [[x / (2 ** s) for x in row] for row in A]
    grid = 2 ** 220

    def rnd(M):
        return [[Fraction(round(x * grid), grid) for x in row] for row in M]

    def mul(X, Y):
        return [[sum(X[i][k] * Y[k][j] for k in range(n)) for j in range(n)] for i in range(n)]

    E = [[Fraction(int(i == j)) for j in range(n)] for i in range(n)]
    T = [row[:] for row in E]
    for k in range(1, 25):
        T = rnd(mul(T, [[x / k for x in row] for row in A]))
        E = [[E[i][j] + T[i][j] for j in range(n)] for i in range(n)]
    for _ in range(s):
        E = rnd(mul(E, E))
    return numpy.array([[float(x) for x in row] for row in E])


def ref_expm(Q, t):
    Q = numpy.asarray(Q, float)
    if len(Q) <= 4:
        return exact_expm(Q.tolist(), t)
    from scipy.linalg import expm

    return expm(Q * t)


def close(a, b, tol):
    a, b = numpy.asarray(a, float), numpy.asarray(b, float)
    if a.shape != b.shape:
        return False, float("inf")
    d = numpy.abs(a - b) / numpy.maximum(1.0, numpy.abs(b))
    m = float(d.max()) if d.size else 0.0
    return (m <= tol and not numpy.isnan(m)), m


class Checker:
    def __init__(self, rep):
        self.rep = rep
        self.nchecks = 0
        self.worst = {}

    def check(self, ok, key, c, what, detail):
        self.nchecks += 1
        if not ok:
            self.rep.violation(key, dict(case=c, broken=what, **detail))

    def near(self, a, b, tol, key, c, what, extra=None):
        ok, m = close(a, b, tol)
        self.worst[key.split(":")[0] + ":" + key.split(":")[1]] = max(self.worst.get(key.split(":")[0] + ":" + key.split(":")[1], 0.0), m if m == m else float("inf"))
        self.check(ok, key, c, what, dict(expected_by_spec=numpy.asarray(b).tolist(), observed_impl=numpy.asarray(a).tolist(),
                                          max_scaled_diff=m, tolerance=tol, **(extra or {})))
        return ok


def spec_checks(ck: Checker, c, r):
    """the property, clause by clause, on what the implementation returned"""
    st = r["structure"]
    fam = c["family"]
    name = c["spec"].get("name") or c.get("built")
    Q = numpy.array(r["Q"])
    n = len(Q)
    pi = numpy.array(r["pi"])
    I = numpy.eye(n)
    mpk = {"SimpleMotifProbModel": "tuple", "MonomerProbModel": "monomer", "ConditionalMotifProbModel": "conditional",
           "PosnSpecificMonomerProbModel": "monomers"}.get(st["mprob_class"], "?")
    tag = f"{fam}:{mpk}"
    # the model's word probabilities are a probability distribution over its states
    ck.near(float(pi.sum()), 1.0, TOL, f"pi:sum-one:{tag}", c, "word probabilities do not sum to one")
    ck.check(bool((pi >= 0).all()), f"pi:nonneg:{tag}", c, "negative word probability", dict(observed_impl=pi.tolist()))
    # word probabilities
    ck.near(pi, oracle_pi(c, r), TOL, f"pi:wordprobs:{tag}", c, "word probabilities differ from the published definition")
    # Q: zero rows, sign pattern, calibration
    ck.near(Q.sum(axis=1), numpy.zeros(n), TOL, f"Q:rows:{tag}", c, "rows of Q do not sum to zero")
    off = Q - numpy.diag(numpy.diag(Q))
    ck.check(bool((off >= 0).all()), f"Q:offdiag-sign:{tag}", c, "negative off-diagonal rate", dict(observed_impl=Q.tolist()))
    ck.near(-(pi * numpy.diag(Q)).sum(), 1.0, TOL, f"Q:calibration:{tag}", c,
            "expected rate at the motif probabilities is not one")
    # a branch of length t carries t expected substitutions: -sum_i pi_i (Q t)_ii = t with pi normalised by the ORACLE
    pin = oracle_pi(c, r)
    ck.near(-(pin * numpy.diag(Q)).sum() * r["lengths"]["a"], r["lengths"]["a"], TOL, f"Q:expected-substitutions:{tag}", c,
            "expected number of substitutions on a branch differs from its length (at the published stationary distribution)")
    Qo = oracle_Q(c, r)
    if Qo is not None:
        ck.near(Q, Qo, TOL, f"Q:published:{name if c['spec'].get('name') else tag}", c,
                "Q differs from the published definition of the model")
    if "Q_direct" in r:
        ck.near(r["Q_direct"], Q, 1e-12, f"Q:lf-vs-calcQ:{tag}", c, "likelihood function and sm.calcQ disagree on Q")
    # calibrated=False: Q x length (what the code does); its docstring also promises the bin rate for rate-heterogeneity
    # models, so Q x length x rate is accepted as well (the property text does not decide between the two)
    rate_a = r["bins"]["rates"][0] if r.get("bins") else 1.0
    Qu = numpy.array(r["Q_uncal_a"])
    if not close(Qu, Q * r["lengths"]["a"] * rate_a, 1e-12)[0]:
        ck.near(Qu, Q * r["lengths"]["a"], 1e-12, f"Q:uncalibrated:{tag}", c,
                "get_rate_matrix_for_edge(calibrated=False) is neither Q x length nor Q x length x rate")
    reversible = bool(c["spec"].get("name") in REVERSIBLE_NUC + [m for m in CODON if m != "GNC"] + PROTEIN
                      or (c["spec"].get("cls", "").startswith("TimeReversible")))
    stationary = reversible or c["spec"].get("cls") == "GeneralStationary"
    if stationary:
        ck.near(pi @ Q, numpy.zeros(n), TOL, f"Q:stationarity:{tag}", c, "pi Q != 0 for a stationary model")
    if reversible:
        B = pi[:, None] * Q
        ck.near(B, B.T, TOL, f"Q:detailed-balance:{tag}", c, "pi_i Q_ij != pi_j Q_ji for a time-reversible model")
    # rate classes
    rates = [1.0]
    bprobs = [1.0]
    if r.get("bins"):
        rates, bprobs = r["bins"]["rates"], r["bins"]["bprobs"]
        ck.near(sum(b * x for b, x in zip(bprobs, rates)), 1.0, TOL, f"rates:mean-one:{c['bins']['dist']}", c,
                "rate-class multipliers do not average to one")
        ck.near(sum(bprobs), 1.0, TOL, "rates:bprobs-sum", c, "bin probabilities do not sum to one")
    # is the eigenbasis of Q ill-conditioned (near-defective Q)?  measured here with numpy, independently of cogent3
    try:
        condV = float(numpy.linalg.cond(numpy.linalg.eig(Q)[1]))
    except numpy.linalg.LinAlgError:
        condV = float("inf")
    ill = not condV < 1e5
    # transition matrices
    L = r["lengths"]

    def pkey(base):
        # with an ill-conditioned eigenbasis every defect of the eigen-computed P is the same finding
        return "P:eigen-checked:ill-conditioned" if ill else base

    p_reliable = True
    for bname, rate in zip(sorted(r["P"]), rates):
        Ps = {e: numpy.array(M) for e, M in r["P"][bname].items()}
        for e, P in Ps.items():
            ref = ref_expm(Q, L[e] * rate)
            key = "P:eigen-checked:ill-conditioned" if ill else f"P:expm:{fam}"
            ok = ck.near(P, ref, TOL, key, c, "P differs from exp(Q t) (independent exact/scipy evaluation)",
                         dict(edge=e, t=L[e] * rate, cond_eigenvectors=condV))
            if not ok:
                p_reliable = False
                continue
            ck.near(P.sum(axis=1), numpy.ones(n), TOL, pkey(f"P:rows:{fam}"), c, "rows of P do not sum to one", dict(edge=e))
            ck.check(bool((P >= -1e-12).all()), pkey(f"P:nonneg:{fam}"), c, "negative transition probability",
                     dict(edge=e, observed_impl=float(P.min())))
            if stationary:
                ck.near(pi @ P, pi, TOL, pkey(f"P:stationarity:{fam}"), c, "pi P != pi for a stationary model", dict(edge=e))
            if reversible:
                B = pi[:, None] * P
                ck.near(B, B.T, TOL, pkey(f"P:detailed-balance:{fam}"), c, "pi_i P_ij != pi_j P_ji", dict(edge=e))
        if p_reliable:
            ck.near(Ps["d"], I, TOL, pkey(f"P:identity-at-zero:{fam}"), c, "P(0) is not the identity")
            ck.near(Ps["a"] @ Ps["b"], Ps["c"], TOL_BACKENDS, pkey(f"P:semigroup:{fam}"), c, "P(s)P(t) != P(s+t)")
    # back-ends
    UNCHECKED = ("fast", "expdefn:eigen", "eigen")
    CHECKED = ("checked", "expdefn:checked", "expdefn:either", "either")

    def backend_key(k):
        if ill and k in UNCHECKED:
            return "P:eigen-unchecked:ill-conditioned"
        if ill and k in CHECKED:
            return "P:eigen-checked:ill-conditioned"
        return f"P:backend:{k}"

    if "backends" in r:
        t = r["backends_t"]
        ref = ref_expm(Q, t)
        good = {}
        for k, M in r["backends"].items():
            if isinstance(M, dict):
                # an exponentiator that refuses (eigen precision test / singular eigenvectors) is allowed to for the
                # eigen-only settings; everything with a fall-back must work
                ck.check(k in ("checked", "expdefn:checked", "fast", "expdefn:eigen", "semisym"), f"P:backend-raised:{k}", c,
                         f"exponentiator {k} raised", dict(observed_impl=M))
                continue
            M = numpy.array(M)
            ok = ck.near(M, ref, TOL_BACKENDS, backend_key(k), c, f"back-end {k} differs from exp(Qt)",
                         dict(t=t, family=fam, cond_eigenvectors=condV))
            if ok:
                ok = ck.near(M.sum(axis=1), numpy.ones(n), TOL_BACKENDS, backend_key(k), c,
                             f"back-end {k}: rows do not sum to one", dict(t=t, family=fam))
            if ok:
                good[k] = M
        for (k1, M1), (k2, M2) in itertools.combinations(sorted(good.items()), 2):
            ck.near(M1, M2, 2 * TOL_BACKENDS, "P:backends-agree", c, f"back-ends {k1} and {k2} disagree", dict(pair=[k1, k2]))
    for s, M in (r.get("P_by_setting") or {}).items():
        if isinstance(M, dict):
            # "checked"/"eigen" = eigen without a fall-back: refusing is their documented behaviour
            ck.check(s in ("checked", "eigen"), f"P:expm-setting-raised:{s}", c, f"lf.set_expm({s!r}) raised", dict(observed_impl=M))
            continue
        ref = ref_expm(Q, L["a"] * rates[0])
        key = backend_key(s) if ill else f"P:expm-setting:{s}"
        ck.near(M, ref, TOL_BACKENDS, key, c, f"lf.set_expm({s!r}) gives a P that differs from exp(Qt)", dict(cond_eigenvectors=condV))
    return p_reliable


def aux_spec_checks(ck: Checker, c, r):
    if c["kind"] == "ratios":
        pr = numpy.array(r["props"])
        ck.near(float(pr.sum()), 1.0, TOL, "discrete:partition-sum", c, "ratios_to_proportions(1, ratios) does not sum to one")
        ck.check(len(pr) == len(c["ratios"]) + 1 and bool((pr >= 0).all()), "discrete:partition-shape", c,
                 "ratios_to_proportions: wrong length or negative entry", dict(observed_impl=r["props"]))
        return
    if c["kind"] == "discrete":
        for e, M in r["P"].items():
            P = numpy.array(M)
            ck.near(P.sum(axis=1), numpy.ones(len(P)), TOL, "discrete:P-rows", c, "rows of a discrete-time psub matrix do not sum to one", dict(edge=e))
            ck.check(bool((P >= 0).all()), "discrete:P-nonneg", c, "negative entry in a discrete-time psub matrix", dict(edge=e))
            if e in c["psubs"]:
                ck.near(P, numpy.array(c["psubs"][e]), 1e-12, "discrete:P-roundtrip", c,
                        "psub matrix read back differs from the one set (proportions -> ratios -> proportions)", dict(edge=e))
        ck.check(r["lnL_finite"], "discrete:lnL", c, "likelihood not finite", {})
        return
    if c["kind"] == "expm_all":
        A = numpy.array(c["A"])
        t = c["t"]
        ref = ref_expm(A, t)
        try:
            condV = float(numpy.linalg.cond(numpy.linalg.eig(A)[1]))
        except numpy.linalg.LinAlgError:
            condV = float("inf")
        ill = not condV < 1e5
        for k, M in r["backends"].items():
            if isinstance(M, dict):
                ck.check(k in ("checked", "expdefn:checked", "fast", "expdefn:eigen"), f"P:backend-raised:{k}", c,
                         f"exponentiator {k} raised", dict(observed_impl=M))
                continue
            key = f"P:backend:{k}"
            if ill and k in ("fast", "expdefn:eigen"):
                key = "P:eigen-unchecked:ill-conditioned"
            elif ill and k in ("checked", "expdefn:checked", "expdefn:either"):
                key = "P:eigen-checked:ill-conditioned"
            M = numpy.array(M)
            if ck.near(M, ref, TOL_BACKENDS, key, c, f"back-end {k} differs from exp(Qt)", dict(t=t, cond_eigenvectors=condV)):
                ck.near(M.sum(axis=1), numpy.ones(len(A)), TOL_BACKENDS, key, c, f"back-end {k}: rows do not sum to one", dict(t=t))
        return
    if c["kind"] == "pade":
        A = numpy.array(c["A"]) * c.get("t", 1.0)
        ref = ref_expm(A, 1.0)
        ck.near(r["F"], ref, TOL_BACKENDS, "pade:expm", c, "PadeExponentiator differs from exp(A)")
        ck.near(numpy.array(r["F"]).sum(axis=1), numpy.ones(len(A)), TOL, "pade:rows", c, "Pade rows do not sum to one")
    elif c["kind"] == "taylor":
        A = numpy.array(c["A"])
        ck.near(r["P"], ref_expm(A, 1.0), TOL_BACKENDS, "taylor:expm", c, "TaylorExponentiator differs from exp(A)")
        ck.near(numpy.array(r["P"]).sum(axis=1), numpy.ones(len(A)), TOL, "taylor:rows", c, "Taylor rows do not sum to one")
    elif c["kind"] == "rates":
        w = numpy.array(c["w"])
        wn = w / w.sum() if c["which"] == "gamma" else w
        ck.near(float((wn * numpy.array(r["rates"])).sum()), 1.0, TOL, f"rates:mean-one-direct:{c['which']}", c,
                "rate classes do not average to one under the bin weights")
        if c["which"] == "monotonic":
            ck.check(all(a <= b + 1e-15 for a, b in zip(r["rates"], r["rates"][1:])), "rates:monotonic-order", c,
                     "MonotonicDefn rates are not ordered", dict(observed_impl=r["rates"]))


# ------------------------------------------------------------------ model vs implementation

def model_compare(ck: Checker, c, r, mv, terms, disagreements, p_reliable=True):
    """mv: parsed val from Coq"""
    def dis(key, what, a, b, m):
        disagreements.append(dict(key=key, case=c, what=what, model_output=a, observed_impl=b, max_scaled_diff=m))

    if c["kind"] == "lf" and c["spec"].get("cls") in ("GeneralStationary", "General"):
        from vcheck.val import Exc

        ck.nchecks += 1
        if isinstance(mv, Exc) or "refused" in r:
            if not (isinstance(mv, Exc) and "refused" in r):
                dis("model:refusal:" + c["spec"]["cls"], "model and implementation disagree on refusing this parameter vector",
                    repr(mv)[:80], r.get("refused", "accepted"), None)
            return
        Rm, Q = [unscale(x) for x in mv]
        for key, a, b in (("model:R", Rm, r.get("R")), ("model:Q", Q, r["Q"])):
            if b is None:
                continue
            ok, m = close(b, a, TOL)
            ck.nchecks += 1
            if not ok:
                dis(key + ":" + c["spec"]["cls"], "model and implementation differ", a, b, m)
        return
    if c["kind"] == "lf":
        wp, Rm, Q, P = [unscale(x) for x in mv]
        for key, a, b in (("model:wordprobs", wp, r["pi"]), ("model:R", Rm, r.get("R")), ("model:Q", Q, r["Q"])):
            if b is None:
                continue
            ok, m = close(b, a, TOL)
            ck.nchecks += 1
            if not ok:
                dis(key + ":" + c["family"], "model and implementation differ", a, b, m)
        if terms and p_reliable:  # an implementation P already reported against the oracle is not reported twice
            ok, m = close(r["P"][sorted(r["P"])[0]]["a"], P, TOL)
            ck.nchecks += 1
            if not ok:
                dis("model:P:" + c["family"], "model Taylor P and implementation P differ", P, r["P"][sorted(r["P"])[0]]["a"], m)
    elif c["kind"] == "pade":
        N, D = [numpy.array(unscale(x)) for x in mv]
        q, j = pade_q_j(numpy.array(c["A"], float) * c.get("t", 1.0))
        F = numpy.array(r["F"])
        # undo the j squarings is not possible; instead square the model's own solution
        X = numpy.linalg.solve(D, N)
        for _ in range(j):
            X = X @ X
        ok, m = close(F, X, TOL_BACKENDS)
        ck.nchecks += 1
        if not ok:
            dis("model:pade", "solve(D,N)^(2^j) of the model's N, D differs from PadeExponentiator", X.tolist(), F.tolist(), m)
        if j == 0:
            ok, m = close(D @ F, N, TOL_BACKENDS)
            ck.nchecks += 1
            if not ok:
                dis("model:pade-DF=N", "implementation F does not solve the model's D F = N", (D @ F).tolist(), N.tolist(), m)
    elif c["kind"] == "taylor":
        P = unscale(mv)
        ok, m = close(r["P"], P, 1e-12)
        ck.nchecks += 1
        if not ok:
            dis("model:taylor", "model Taylor partial sum (same number of terms) differs from TaylorExponentiator", P, r["P"], m)
    elif c["kind"] == "ratios":
        v = unscale(mv)
        ok, m = close(r["props"], v, 1e-12)
        ck.nchecks += 1
        if not ok:
            dis("model:ratios", "model partition differs from ratios_to_proportions", v, r["props"], m)
    elif c["kind"] == "rates":
        v = unscale(mv)
        ok, m = close(r["rates"], v, 1e-12)
        ck.nchecks += 1
        if not ok:
            dis("model:rates:" + c["which"], "model rate classes differ from the Defn.calc result", v, r["rates"], m)


def coverage_cell(c, r):
    st = r["structure"]
    mpk = {"SimpleMotifProbModel": "tuple", "MonomerProbModel": "monomer", "ConditionalMotifProbModel": "conditional",
           "PosnSpecificMonomerProbModel": "monomers"}.get(st["mprob_class"], "?")
    full = {1: 4, 2: 16, 3: 64}.get(st["mlen"], 0)
    n = len(st["words"])
    subset = "full" if n == full or c["family"] == "protein" else ("sense-codons" if (c["family"] == "codon" and n == 61) else "subset")
    proc = "reversible" if st["is_time_reversible"] else ("stationary-nonreversible" if st["is_stationary"] else "general")
    rc = (c.get("bins") or {}).get("dist") or "none"
    return f"{c['family']}|{mpk}|{subset}|{proc}|rates:{rc}"


def coverage_grid():
    """the cells a cogent3 user can build (alphabet kind x motif-prob model x state subset x process x rate classes)"""
    cells = []
    for fam, subsets, mpks in (("nucleotide", ("full", "subset"), ("tuple", "conditional")),
                               ("dinucleotide", ("full", "subset"), ("tuple", "monomer", "monomers", "conditional")),
                               ("codon", ("sense-codons",), ("tuple", "monomer", "monomers", "conditional")),
                               ("protein", ("full",), ("tuple",))):
        for sub in subsets:
            for mpk in mpks:
                for proc in ("reversible", "stationary-nonreversible", "general"):
                    for rc in ("none", "gamma", "free"):
                        cells.append(f"{fam}|{mpk}|{sub}|{proc}|rates:{rc}")
    return cells


def run_model(cases, impl):
    terms, coq_cases, idx = [], [], []
    for k, (c, r) in enumerate(zip(cases, impl)):
        if isinstance(r, dict) and "refused" in r and r.get("structure", {}).get("param_pick") and c["kind"] == "lf":
            coq_cases.append(coq_pick_case(c, r["structure"]))   # the model must refuse as well
            terms.append(0)
            idx.append(k)
            continue
        if isinstance(r, dict) and ("exc" in r or "refused" in r):
            continue
        if c["kind"] in ("expm_all", "discrete"):
            continue
        if c["kind"] == "lf":
            cc = coq_lf_case(c, r)
            if cc is None:
                continue
            coq_cases.append(cc[0])
            terms.append(cc[1])
        else:
            coq_cases.append(coq_aux_case(c, r))
            terms.append(0)
        idx.append(k)
    # heavy cases (P evaluation, codon masks) in small shards
    heavy = [i for i, (cc, t) in enumerate(zip(coq_cases, terms)) if t or len(cc) > 20000]
    light = [i for i in range(len(coq_cases)) if i not in set(heavy)]
    out = [None] * len(coq_cases)
    imports = ["Model.RateMatrix", "Model.RateMatrixRun"]
    if light:
        res = core.coq_eval(PROP, imports, "run_case", [coq_cases[i] for i in light], "case", shard=25, tag="l")
        for i, v in zip(light, res):
            out[i] = v
    if heavy:
        res = core.coq_eval(PROP, imports, "run_case", [coq_cases[i] for i in heavy], "case", shard=3, tag="h")
        for i, v in zip(heavy, res):
            out[i] = v
    return {k: (v, t) for k, v, t in zip(idx, out, terms)}


# ------------------------------------------------------------------ the check

def run(tier: str, seed: int) -> int:
    rep = core.Report(PROP, tier, seed)
    rng = random.Random(seed * 1000003 + 5)
    pr = core.proof_stage(PROP, COQ_TARGETS)
    core.proof_coverage(rep, pr, "make theories/Properties/C05.vo && coqc gen/assum_C05.v (Print Assumptions)", [
        "IEEE-754 arithmetic, LAPACK eig/inv/solve, numpy.exp, scipy gdtri and numba are not modelled: float results are "
        f"compared with the exact-rational model / oracle under tolerance {TOL} (back-end agreement and semigroup {TOL_BACKENDS})",
        "predicate masks (which cells a parameter multiplies) are taken from the implementation as data for the Coq model; "
        "the independent oracle recomputes them from the published model definitions",
        "classical Taylor remainder bound for exp (unproved) justifies the reference exp(Qt) used by the oracle; scipy.linalg.expm "
        "is the reference for matrices larger than 4x4",
    ])
    rep.assumptions += [
        "theorems are over an abstract field (laws as premises): they speak about exact arithmetic, not floats",
        "Pade theorems assume the linear solve returned F with D F = N and D invertible",
        "eigen theorems assume evI^T evT = I and a multiplicative scalar exponential; clipping at 0 / taking real parts is not modelled",
    ]
    proof_broken = bool(pr["problems"])
    cases = build_cases(rng, tier)
    if proof_broken:
        cases += build_cases(rng, tier)  # widened search
    impl = core.run_impl_sharded("c05_impl.py", cases, nshards=core.NPROC)
    ck = Checker(rep)
    disagreements = []
    model = {}
    try:
        model = run_model(cases, impl)
    except core.CheckError as e:
        if not proof_broken:
            raise
        rep.notes.append(f"model not runnable: {str(e)[:300]}")
    nontrivial = set()
    dist = {}
    matrix = {}
    refusals, gs_stats = {}, {}
    for k, (c, r) in enumerate(zip(cases, impl)):
        dk = c["kind"] + ":" + (c.get("family") or c.get("which") or "")
        dist[dk] = dist.get(dk, 0) + 1
        if isinstance(r, dict) and "exc" in r:
            key = f"raised:{c['kind']}:{c.get('family', '')}"
            rep.violation(key, dict(case=c, observed_impl=r, broken="a valid model/parameter setting made the implementation raise or hang"))
            continue
        p_reliable = True
        if isinstance(r, dict) and "refused" in r:
            # a constructor / parameter refusal is compliant; refusing a vector the exact oracle finds feasible with margin is not
            tag = f"{c['spec'].get('cls') or c['spec'].get('name')}:{r['stage']}"
            refusals[tag] = refusals.get(tag, 0) + 1
            if c.get("built") == "general_stationary":
                gs_stats["refused:" + c.get("style", "")] = gs_stats.get("refused:" + c.get("style", ""), 0) + 1
                if c.get("gs_feasible") and c.get("style") == "gs_far-inside":
                    rep.violation("GS:refused-feasible", dict(case=c, observed_impl=r, broken="GeneralStationary refused a parameter "
                                  "vector for which every dependent exchangeability is positive (exact oracle)"))
            elif r["stage"] != "constructor":
                rep.violation(f"raised:{c['kind']}:{c.get('family', '')}", dict(case=c, observed_impl=r,
                              broken="parameter values within bounds were refused"))
            if k in model:
                model_compare(ck, c, r, model[k][0], model[k][1], disagreements)
            continue
        if c.get("built") == "general_stationary":
            gs_stats["accepted:" + c.get("style", "")] = gs_stats.get("accepted:" + c.get("style", ""), 0) + 1
        if c["kind"] == "lf":
            cell = coverage_cell(c, r)
            matrix[cell] = matrix.get(cell, 0) + 1
            p_reliable = spec_checks(ck, c, r)
            if len(r["params"]) or c["mprobs"]:
                nontrivial.add(json.dumps([c["spec"], c["params"], c["mprobs"], c["t1"], c["t2"]], sort_keys=True))
        else:
            aux_spec_checks(ck, c, r)
            nontrivial.add(json.dumps(c, sort_keys=True))
        if k in model:
            model_compare(ck, c, r, model[k][0], model[k][1], disagreements, p_reliable)
    sample = next((c for c in cases if c["kind"] == "lf"), cases[0])
    rep.coverage.update(
        evaluations=len(cases), distinct_nontrivial=len(nontrivial), numeric_checks=ck.nchecks,
        rule="one evaluation = one model configuration (model x parameter vector x motif probabilities x two branch lengths "
             "[+ rate classes]) or one direct exponentiator / rate-class call; non-trivial = has free parameters or non-default "
             "motif probabilities (lf) / any direct call; every configuration is checked clause by clause against the oracle and "
             "(where the Coq model covers it) against the exact-rational model",
        samples=[{k: v for k, v in sample.items()}],
        input_distribution=dict(kinds=dist, model_evaluated=len(model),
                                model_P_evaluated=sum(1 for v in model.values() if v[1]),
                                styles={s: sum(1 for c in cases if c.get("style") == s) for s in
                                        ("plain", "short", "near_equal", "near_degenerate", "extreme", "tiny_pi", "long", "tiny")}),
        worst_scaled_diffs={k: v for k, v in sorted(ck.worst.items())},
        coverage_matrix=dict(sorted(matrix.items())),
        coverage_cells_never_generated=[x for x in coverage_grid() if x not in matrix],
        not_covered=["model_gaps=True alphabets (gap state, _is_any_indel)", "motif_length=3 trinucleotide (64-state) models",
                     "edge- or bin-scoped substitution parameters (partitioned_params other than rate)",
                     "multiple loci"],
        refusals=refusals, general_stationary_boundary=gs_stats,
        model_impl_disagreements=len(disagreements),
        model_impl_disagreement_samples=[dict(key=d["key"], max_scaled_diff=d["max_scaled_diff"], spec=d["case"].get("spec"),
                                              style=d["case"].get("style"), case=d["case"]) for d in disagreements[:5]],
        partial=[
            "non-negativity of P entries and the exact semigroup law P(s)P(t)=P(s+t) for the truncated Taylor / Pade forms need the "
            "limit (real analysis of the matrix exponential): stmt_transition_probabilities_nonneg, stmt_taylor_semigroup_in_the_limit "
            "are stated, not proved; covered numerically (P >= -1e-12, semigroup within 1e-8)",
            "agreement of the exponentiator back-ends with each other and with exp(Qt): numerical correspondence only",
            "floating-point rounding, LAPACK, gdtri: not modelled",
            "predicate -> mask translation (evolve/predicate.py) is not modelled in Coq; masks are data, re-derived by the oracle",
            "GeneralStationary: the numpy.allclose fudge zone (a requirement in (-1e-8, 0) is replaced by its absolute value) is "
            "modelled and compared but excluded from the theorems (premise near0 x -> not neg x)",
        ],
        exhaustive=False,
    )
    print("coverage matrix (family|mprob model|states|process|rate classes: count):", flush=True)
    for cell, cnt in sorted(matrix.items()):
        print(f"  {cell}: {cnt}")
    print(f"  cells of the buildable grid never generated: {len([x for x in coverage_grid() if x not in matrix])} of {len(coverage_grid())} "
          "(listed in evidence coverage.coverage_cells_never_generated)", flush=True)
    for d in disagreements[:5]:
        print(f"model/implementation disagreement: {d['key']} max scaled diff {(d['max_scaled_diff'] or 0):.3g} on {d['case'].get('spec') or d['case'].get('kind')}", flush=True)
    core.conclude(rep, pr, f"{len(cases)} configurations, {ck.nchecks} numeric checks against the published-definition oracle",
                  disagreements[:5], "Model.RateMatrixRun.run_case vs cogent3 substitution models", tier, PROP)
    return rep.finish("proof")


def replay(path: str) -> int:
    d = json.loads(open(path).read())
    if "case" not in d:
        print("replay names a broken obligation, not an input:", d.get("broken"))
        return 1
    c = d["case"]
    r = core.run_impl_lines("c05_impl.py", [c])[0]

    class R:
        def __init__(self):
            self.hits = []

        def violation(self, key, replay, no_input=False):
            self.hits.append((key, replay.get("broken"), replay.get("max_scaled_diff")))
            if key == d.get("key") and not getattr(self, "shown", False):
                self.shown = True
                print("oracle   :", replay.get("expected_by_spec"))
                print("impl     :", replay.get("observed_impl"))

    rr = R()
    ck = Checker(rr)
    if isinstance(r, dict) and "exc" in r:
        print("impl raised:", r)
        print("REPRODUCED")
        return 1
    if c["kind"] == "lf":
        spec_checks(ck, c, r)
        print("impl Q   :", r["Q"])
        Qo = oracle_Q(c, r)
        print("oracle Q :", None if Qo is None else Qo.tolist())
    else:
        aux_spec_checks(ck, c, r)
        print("impl     :", r)
    for h in rr.hits:
        print("violated :", h)
    bad = any(h[0] == d.get("key") for h in rr.hits)
    if d.get("key", "").startswith("correspondence"):
        dis = []
        model = run_model([c], [r])
        if 0 in model:
            model_compare(ck, c, r, model[0][0], model[0][1], dis)
        for x in dis:
            print("model    :", x["key"], x["what"], "max scaled diff", x["max_scaled_diff"])
        bad = bad or bool(dis) or bool(rr.hits)
    print("REPRODUCED" if bad else "not reproduced")
    return 1 if bad else 0
