"""C19 child process: performs ONE write scenario inside a sandbox directory
with a sys.addaudithook that logs file-system events and, at the k-th event,
either kills the process (os._exit) or raises OSError.

argv: JSON {"sandbox": dir, "scenario": {...}, "mode": "trace"|"kill"|"fault", "k": int}
stdout: JSON {"events": [...], "outcome": "ok"|"raised:<Class>"}   (not printed when killed)
"""
import json
import os
import sys

cfg = json.loads(sys.argv[1])
SANDBOX = os.path.realpath(cfg["sandbox"])
MODE, K = cfg["mode"], cfg.get("k", -1)
SC = cfg["scenario"]

import cogent3  # noqa: E402  (import everything before the hook is armed)
from cogent3 import make_aligned_seqs, make_table, make_tree, make_unaligned_seqs  # noqa: E402
from cogent3.util.dict_array import DictArrayTemplate  # noqa: E402
from cogent3.util.io import atomic_write  # noqa: E402

EVENTS = []
ARMED = [False]
INTEREST = {"tempfile.mkdtemp", "open", "os.remove", "os.rename", "shutil.rmtree", "os.mkdir", "os.rmdir"}


def _inside(p):
    try:
        p = os.path.realpath(os.fspath(p))
    except TypeError:
        return False
    return p == SANDBOX or p.startswith(SANDBOX + os.sep)


def hook(event, args):
    if not ARMED[0] or event not in INTEREST:
        return
    if event == "tempfile.mkdtemp":
        paths = [args[0]]
    elif event == "open":
        if not isinstance(args[0], (str, bytes, os.PathLike)):
            return
        paths = [args[0]]
    elif event == "os.rename":
        paths = [args[0], args[1]]
    else:
        paths = [args[0]]
    if not paths or not any(_inside(p) for p in paths):
        return
    if event == "os.mkdir" or event == "os.rmdir":
        # mkdtemp's own mkdir / rmtree's own rmdir: part of the enclosing operation
        return
    idx = len(EVENTS)
    rec = {"event": event, "paths": [os.path.realpath(os.fspath(p)) for p in paths]}
    if event == "open":
        rec["mode"] = str(args[1])
    EVENTS.append(rec)
    if idx == K:
        if MODE == "kill":
            os._exit(77)
        if MODE == "fault":
            raise OSError(5, "injected fault", rec["paths"][0])


sys.addaudithook(hook)


class Boom:
    """an object whose text rendering fails: formatting failure inside a writer"""

    def __str__(self):
        raise RuntimeError("formatting failed")

    __repr__ = __str__


def run_scenario():
    w = SC["writer"]
    dest = os.path.join(SANDBOX, SC["dest"])
    fail = SC.get("fail", False)
    if w == "aln":
        data = {"s1": "ACGT--GT", "s2": "ACGTAAGT", "s3": "AC--AAGT"}
        obj = make_aligned_seqs(data=data, moltype="dna", array_align=SC.get("array", False), new_type=SC.get("new_type", False))
        if fail:
            obj.write(dest, format="notaformat")
        else:
            obj.write(dest)
    elif w == "seqs":
        data = {"s1": "ACGTGT", "s2": "ACGTAAGTTT"}
        obj = make_unaligned_seqs(data=data, moltype="dna", new_type=SC.get("new_type", False))
        if fail:
            obj.write(dest, format="phylip")  # ragged sequences cannot be written as phylip
        else:
            obj.write(dest)
    elif w == "tree":
        t = make_tree("((a:1,b:2):3,(c:4,d:5):6);")
        if fail:
            t.get_node_matching_name("a").name = Boom()
        t.write(dest)
    elif w == "table":
        rows = [[1, "a,b", 2.5], [2, 'q"x', 3.5]]
        t = make_table(header=["i", "s", "f"], data=rows)
        if fail:
            import numpy

            col = numpy.empty(2, dtype=object)
            col[0], col[1] = Boom(), Boom()
            t = make_table(data={"i": [1, 2], "o": col})
        t.write(dest)
    elif w == "dictarray":
        darr = DictArrayTemplate(["a", "b"], ["x", "y"]).wrap([[1, 2], [3, 4]])
        if fail:
            darr.write(dest, format="notaformat")
        else:
            darr.write(dest)
    elif w == "treecoll":
        from cogent3.phylo.tree_collection import ScoredTreeCollection

        t = make_tree("((a:1,b:2):3,(c:4,d:5):6);")
        coll = ScoredTreeCollection([(1.0, t), (0.5, t)])
        if fail:
            coll.append((Boom(), t))
        coll.write(dest)
    elif w == "atomic":
        kw = {}
        if SC.get("in_zip"):
            kw["in_zip"] = os.path.join(SANDBOX, SC["in_zip"])
        with atomic_write(dest, mode="wt", **kw) as f:
            f.write("NEW-part1\n")
            if fail:
                raise RuntimeError("formatting failed")
            f.write("NEW-part2\n")
    else:
        raise ValueError(w)


ARMED[0] = True
try:
    run_scenario()
    outcome = "ok"
except BaseException as e:  # noqa: BLE001
    outcome = f"raised:{type(e).__name__}"
ARMED[0] = False
print(json.dumps({"events": EVENTS, "outcome": outcome}))
