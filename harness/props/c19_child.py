"""C19 child server: imports cogent3 ONCE, then performs every execution of ONE
write scenario in a forked process of its own (fresh sandbox directory each):
the trace run, a run killed before audited event k for every k, and a run in
which audited event k raises an exception of each requested class.

A sys.addaudithook logs the file-system events (tempfile.mkdtemp, open,
os.remove, os.rename, shutil.rmtree) that touch the sandbox; at the k-th event
the forked process either dies (os._exit, no handler runs) or raises.

argv: JSON {"scenario": {...}, "kills": "all"|"sample", "faults": "all"|"sample"|"none",
            "classes": ["OSError", ...], "jobs": [[mode, k, exc], ...] (optional: exactly these instead)}
stdout: one JSON line per execution
  {"mode","k","exc","rc","events","outcome","dest": latin-1 text | null,"leftovers":[...]}
"""
import json
import os
import shutil
import sys
import tempfile
import time
import zipfile

cfg = json.loads(sys.argv[1])
SC = cfg["scenario"]
OLD = b"OLD"

import cogent3  # noqa: E402,F401  (import everything before any fork)
from cogent3 import make_aligned_seqs, make_table, make_tree, make_unaligned_seqs  # noqa: E402
from cogent3.phylo.tree_collection import ScoredTreeCollection  # noqa: E402
from cogent3.util.dict_array import DictArrayTemplate  # noqa: E402
from cogent3.util.io import atomic_write  # noqa: E402
import numpy  # noqa: E402

EXC = {"OSError": OSError, "ValueError": ValueError, "AttributeError": AttributeError,
       "RuntimeError": RuntimeError, "KeyboardInterrupt": KeyboardInterrupt}

STATE = {"armed": False, "sandbox": None, "mode": "trace", "k": -1, "exc": "OSError", "events": []}
INTEREST = {"tempfile.mkdtemp", "open", "os.remove", "os.rename", "shutil.rmtree"}


def _inside(p):
    try:
        p = os.path.realpath(os.fspath(p))
    except TypeError:
        return False
    sb = STATE["sandbox"]
    return p == sb or p.startswith(sb + os.sep)


def hook(event, args):
    if not STATE["armed"] or event not in INTEREST:
        return
    if event == "open":
        if not isinstance(args[0], (str, bytes, os.PathLike)):
            return
        paths = [args[0]]
    elif event == "os.rename":
        paths = [args[0], args[1]]
    else:
        paths = [args[0]]
    if not any(_inside(p) for p in paths):
        return
    events = STATE["events"]
    idx = len(events)
    rec = {"event": event, "paths": [os.path.relpath(os.path.realpath(os.fspath(p)), STATE["sandbox"]) for p in paths]}
    if event == "open":
        rec["mode"] = str(args[1])
    events.append(rec)
    if idx == STATE["k"]:
        if STATE["mode"] == "kill":
            os._exit(77)
        if STATE["mode"] == "fault":
            cls = EXC[STATE["exc"]]
            if cls is OSError:
                raise OSError(5, "injected fault", rec["paths"][0])
            raise cls("injected fault")


sys.addaudithook(hook)


class Boom:
    """an object whose text rendering fails: formatting failure inside a writer"""

    def __str__(self):
        raise RuntimeError("formatting failed")

    __repr__ = __str__


def run_scenario(sandbox):
    w = SC["writer"]
    dest = os.path.join(sandbox, SC["dest"])
    fail = SC.get("fail", False)
    if w == "aln":
        data = {"s1": "ACGT--GT", "s2": "ACGTAAGT", "s3": "AC--AAGT"}
        obj = make_aligned_seqs(data=data, moltype="dna", array_align=SC.get("array", False), new_type=SC.get("new_type", False))
        if fail:
            obj.write(dest, format="notaformat")
        else:
            obj.write(dest)
    elif w == "seqs":
        data = {"s1": "ACGTGT", "s2": "ACGTAAGTTT"}
        obj = make_unaligned_seqs(data=data, moltype="dna", new_type=SC.get("new_type", False))
        if fail:
            obj.write(dest, format="phylip")  # ragged sequences cannot be written as phylip
        else:
            obj.write(dest)
    elif w == "tree":
        t = make_tree("((a:1,b:2):3,(c:4,d:5):6);")
        if fail:
            t.get_node_matching_name("a").name = Boom()
        t.write(dest)
    elif w == "table":
        rows = [[1, "a,b", 2.5], [2, 'q"x', 3.5]]
        t = make_table(header=["i", "s", "f"], data=rows)
        if fail == "badmode":
            t.write(dest, mode="z")  # invalid file mode: open() raises ValueError
        elif fail:
            col = numpy.empty(2, dtype=object)
            col[0], col[1] = Boom(), Boom()
            t = make_table(data={"i": [1, 2], "o": col})
            t.write(dest)
        else:
            t.write(dest)
    elif w == "dictarray":
        darr = DictArrayTemplate(["a", "b"], ["x", "y"]).wrap([[1, 2], [3, 4]])
        if fail:
            darr.write(dest, format="notaformat")
        else:
            darr.write(dest)
    elif w == "treecoll":
        t = make_tree("((a:1,b:2):3,(c:4,d:5):6);")
        coll = ScoredTreeCollection([(1.0, t), (0.5, t)])
        if fail:
            coll.append((Boom(), t))
        coll.write(dest)
    elif w == "atomic":
        kw = {}
        path = dest
        if SC.get("in_zip"):
            # explicit archive: the member path is relative, the archive is the destination
            kw["in_zip"] = os.path.join(sandbox, SC["in_zip"])
            path = SC["dest"]
        if fail == "badmode":
            kw["mode"] = "z"
        else:
            kw["mode"] = "wt"
        with atomic_write(path, **kw) as f:
            if fail == "early":
                raise RuntimeError("formatting failed")  # before the first byte
            f.write("NEW-part1\n")
            if fail:
                raise RuntimeError("formatting failed")
            f.write("NEW-part2\n")
    else:
        raise ValueError(w)


def dest_file(sandbox):
    return os.path.join(sandbox, SC.get("in_zip") or SC["dest"])


def setup(sandbox):
    if not SC["old"]:
        return
    p = dest_file(sandbox)
    if p.endswith(".zip"):
        with zipfile.ZipFile(p, "w") as z:
            z.writestr("other.txt" if SC.get("in_zip") else "prev.txt", OLD)
    else:
        with open(p, "wb") as f:
            f.write(OLD)
    if SC.get("ro"):
        os.chmod(p, 0o444)


def one(mode, k, exc):
    sandbox = os.path.realpath(tempfile.mkdtemp(prefix="c19_"))
    resfile = sandbox + ".result"
    try:
        setup(sandbox)
        pid = os.fork()
        if pid == 0:
            # ---- the execution proper
            try:
                STATE.update(sandbox=sandbox, mode=mode, k=k, exc=exc, events=[], armed=True)
                try:
                    run_scenario(sandbox)
                    outcome = "ok"
                except BaseException as e:  # noqa: BLE001
                    outcome = f"raised:{type(e).__name__}"
                STATE["armed"] = False
                with open(resfile, "w") as f:
                    json.dump({"events": STATE["events"], "outcome": outcome}, f)
                os._exit(0)
            finally:
                os._exit(70)
        t0 = time.time()
        rc = None
        while time.time() - t0 < 120:
            done, status = os.waitpid(pid, os.WNOHANG)
            if done:
                rc = os.waitstatus_to_exitcode(status)
                break
            time.sleep(0.002)
        if rc is None:
            os.kill(pid, 9)
            os.waitpid(pid, 0)
            rc = 124
        events = outcome = None
        if rc == 0:
            with open(resfile) as f:
                d = json.load(f)
            events, outcome = d["events"], d["outcome"]
        df = dest_file(sandbox)
        content = None
        if os.path.exists(df):
            with open(df, "rb") as f:
                content = f.read().decode("latin1")
        left = []
        top = os.path.basename(df)
        for root, dirs, files in os.walk(sandbox):
            for n in dirs + files:
                rel = os.path.relpath(os.path.join(root, n), sandbox)
                if rel != top:
                    left.append(rel)
        return {"mode": mode, "k": k, "exc": exc, "rc": rc, "events": events, "outcome": outcome,
                "dest": content, "leftovers": sorted(left)}
    finally:
        for root, dirs, files in os.walk(sandbox):
            for n in dirs + files:
                try:
                    os.chmod(os.path.join(root, n), 0o700)
                except OSError:
                    pass
        shutil.rmtree(sandbox, ignore_errors=True)
        if os.path.exists(resfile):
            os.remove(resfile)


def emit(r):
    sys.stdout.write(json.dumps(r) + "\n")
    sys.stdout.flush()


if cfg.get("jobs") is not None:
    for mode, k, exc in cfg["jobs"]:
        emit(one(mode, k, exc))
    sys.exit(0)

trace = one("trace", -1, None)
emit(trace)
if trace["rc"] == 0:
    n = len(trace["events"])
    classes = cfg.get("classes", ["OSError"])
    kills = list(range(n + 1))
    if cfg.get("kills") == "sample" and n > 4:
        # every second boundary, always the first two and the last three (commit region)
        kills = sorted({0, 1, n - 2, n - 1, n} | set(range(0, n + 1, 2)))
    for k in kills:
        emit(one("kill", k, None))
    if cfg.get("faults", "all") != "none":
        for k in range(n):
            if cfg.get("faults") == "sample":
                # OSError at every event, the other classes rotate over the events
                cl = ["OSError"] + ([classes[1 + (k % (len(classes) - 1))]] if len(classes) > 1 else [])
            else:
                cl = classes
            for exc in cl:
                emit(one("fault", k, exc))
