"""C08 — Gapped-coordinate maps agree with the gapped string they describe.

Stage P: Properties/C08.v (IndelMap model = gap-mask semantics).
Stage C: the real IndelMap / FeatureMap vs the Coq model (vm_compute), full
         internal state and every query result.
Stage S: plain-Python string oracle on "x-" masks (and a set-of-positions
         oracle for FeatureMap)."""
from __future__ import annotations

import itertools
import json
import random
import re
import subprocess

from vcheck import core
from vcheck.val import Exc, from_jsonable, jsonable, zlit

PROP = "C08"
COQ_TARGETS = ["theories/Model/IndelMapRun.vo", "theories/Model/FeatureMapRun.vo"]
NA = "<n/a>"  # the specification does not speak about this observation

# clauses of the property that are not covered by an unbounded theorem about the live code
PARTIAL = [
    "slicing with a stop beyond the end: the pinned code violates Python's clamping (slice_beyond_len_refuted); in-range "
    "intervals are proved for all maps (slice_spec) and the corrected method for all bounds (slice_v2_spec)",
    "concatenation with a gap run split over the joint: the pinned code violates it (add_refuted); proved for all other "
    "pairs (add_spec_partial), read through abs for all pairs (add_abs_spec), and for the corrected method for all pairs "
    "(add_v2_spec)",
    "nongap() of a gap-free map and get_coordinates() with >= 2 gaps and a short residue tail: violated by the pinned code "
    "(nongap_refuted, get_coordinates_refuted); proved on the rest of the domain for all lengths (nongap_spec_partial, "
    "get_coordinates_spec_partial); the corrected methods only for strings of length <= 10 (listings_v2_bounded_partial)",
    "composition with an inner span that overhangs the map (negative start / end beyond the length, forward or reversed): "
    "compared with the model and decided by the position oracle over every map of <= 2 spans on a parent of length 3 x every "
    "inner span in [-2, len + 2] in both directions, no unbounded theorem (composition_spec / composition_v2_spec need the inner "
    "map inside [0, len]); the rule before the repair of C08-6 violates it for spans wholly outside (remap_with_wholly_outside_refuted)",
    "FeatureMap nucleic_reversed and __mul__: the cell-by-cell statement is proved for forward maps; for maps with reversed "
    "spans only cell count and 'inside the parent' (the method discards strand, as documented)",
    "merge_maps: parent_length=None only; termini_unknown, tidy_start/tidy_end/value, serialisation: not modelled",
]


# ------------------------------------------------------------------ translator tie (IndelMap integer / array kernel)

TRANSLATOR = "harness/translators/indelmap.py + harness/translators/featuremap.py"
MODEL_TARGETS = ["theories/Model/IndelMapRun.vo", "theories/Model/FeatureMapRun.vo"]
EQ_FILES = ["IndelMapGenEq.v", "IndelMapGenMergeEq.v", "IndelMapGenLoopEq.v", "IndelMapGenCoordsEq.v", "IndelMapGenJoinEq.v", "IndelMapGenSeqMapEq.v", "FeatureMapGenEq.v"]


TRANSLATORS = [  # (script, generated file, last line of a complete output)
    ("harness/translators/indelmap.py", "IndelMapGen", "End G."),
    ("harness/translators/featuremap.py", "FeatureMapGen", "End GF."),
]


def run_translator():
    """regenerate gen/IndelMapGen.v and gen/FeatureMapGen.v from the current source text; returns (error string or None, records)"""
    core.GEN.mkdir(exist_ok=True)
    records = []
    for script, stem, last in TRANSLATORS:
        rec = core.GEN / f"{stem}.records.json"
        if rec.exists():
            rec.unlink()
        r = subprocess.run([core.PY, str(core.VERIF / script), "--repo", str(core.REPO), "--records", str(rec)],
                           capture_output=True, text=True, env=core.impl_env(), cwd=str(core.VERIF))
        out = core.GEN / f"{stem}.v"
        if r.returncode != 0:
            return f"{script}: " + ((r.stderr or r.stdout).strip()[-800:] or f"translator exited with {r.returncode}"), []
        if not r.stdout.rstrip().endswith(last):
            return f"{script}: translator produced truncated output", []
        if not out.exists() or out.read_text() != r.stdout:
            out.write_text(r.stdout)
        try:
            records += json.loads(rec.read_text())
        except (OSError, ValueError) as e:
            return f"{script}: translator wrote no function records: {e}", []
    return None, records


def pre_build():
    err, _ = run_translator()
    if err:
        raise core.CheckError("indelmap translator failed: " + err)


def explain_tie_break(problem):
    """a build failure inside IndelMapGenEq.v / IndelMapGen.v is a broken translator tie: name the lemma / generated function"""
    m = re.search(r"(Proofs/(?:IndelMap|FeatureMap)Gen\w*\.v|gen/(?:IndelMap|FeatureMap)Gen\.v):(\d+)", problem)
    if not m:
        return problem
    path = core.COQ / ("theories/" + m.group(1) if m.group(1).startswith("Proofs") else m.group(1))
    try:
        lines = path.read_text().split("\n")[: int(m.group(2))]
    except OSError:
        return problem
    lemma = None
    for ln in lines:
        mm = re.match(r"(?:Lemma|Definition|Theorem)\s+(\w+)", ln)
        if mm:
            lemma = mm.group(1)
    what = ("the function generated from the current source is no longer provably equal to the model function"
            if m.group(1).startswith("Proofs") else "the generated Gallina does not type-check")
    return f"translator tie broken at {lemma}: {what} ({problem})"


def tie_report(terr, records, pr):
    """coverage['translator_tie']: what was translated and whether equality with the model was proved in this run"""
    lemmas = []
    for f in EQ_FILES:
        path = core.COQ / "theories" / "Proofs" / f
        if path.exists():
            src = core.strip_comments(path.read_text())
            lemmas += re.findall(r"(?:Lemma|Theorem)\s+(\w+_eq(?:_all)?)\b", src)
    gen_thms = [t for t in pr.get("theorems", {}) if t.startswith("gen_")]
    proved = terr is None and not pr.get("problems") and bool(gen_thms) and all(pr["theorems"][t]["ok"] for t in gen_thms)
    if terr is not None:
        status = "broken: translator failed closed: " + terr
    elif pr.get("problems"):
        status = "broken: " + "; ".join(str(x) for x in pr["problems"])[:600]
    else:
        status = "ok"
    return dict(
        status=status, translator=TRANSLATOR, generated="coq/gen/IndelMapGen.v (module G), coq/gen/FeatureMapGen.v (module GF)",
        equality_file="coq/theories/Proofs/IndelMapGen{Eq,MergeEq,LoopEq,CoordsEq,JoinEq,SeqMapEq}.v, FeatureMapGenEq.v", equality_with_model_proved=proved,
        equality_lemmas=lemmas if proved else [], transported_theorems=gen_thms if proved else [],
        functions=records,
        not_translated=["IndelMap.from_spans / spans_to_gap_coords", "to_rich_dict / from_rich_dict",
                        "Sequence.parse_out_gaps", "FeatureMap.__getitem__ / Span.remap_with / Span.__getitem__ (bisect + in-place "
                        "surgery on lists of span objects)", "FeatureMap.covered (its sweep puts an Optional start into the emitted "
                        "pairs)", "FeatureMap.__mul__, __add__, without_gaps, get_coordinates, get_gap_coordinates, zeroed"],
        reading="Python int / numpy integer = Z; numpy arrays and Python lists = list Z (which of the two is tracked, `+` differs); "
                "a[i] = the total read pyget (negative wrap, 0 out of range) and a[i:j] with non-literal bounds = zslice (bounds >= 0), "
                "as in Model/IndelMap.v; searchsorted = first index with element >= v (> v); falling off the end = Err E_None; "
                "(idx,) = numpy.where(m)[0] raises ValueError unless exactly one match; in-place updates of local arrays are rebinding "
                "(views and their bases are removed from scope after an update; updating a field of self aborts); "
                "self.num_gaps = len(gap_pos) (checked in __post_init__); tolerated and dropped: flags.writeable, _serialisable.pop; "
                "for-loops (also nested, with continue / break) become structural fixpoints over the array whose state are the "
                "variables assigned in the body, generators return the list of yielded spans (TerminalPadding = LostSpan); "
                "numpy.intersect1d(assume_unique, return_indices) = index pairs in the order of the first (sorted) argument, "
                "r[idx] += v / r[idx] = v with index arrays = sequential updates (distinct indices); _update_lengths returns the "
                "array it updates in place; singledispatch registrations are chosen by the kind of the argument (map / array); "
                "numpy.empty((n, 2)) = n rows assigned before being read",
    )


# ------------------------------------------------------------------ plain-Python oracle on mask strings

def runs(mask, ch):
    out = []
    for key, grp in itertools.groupby(enumerate(mask), key=lambda t: t[1]):
        grp = list(grp)
        if key == ch:
            out.append((grp[0][0], grp[-1][0] + 1))
    return out


def canon_state(mask):
    """the one well-formed (gap_pos, cum_gap_lengths, parent_length) describing the string"""
    gp, cum = [], []
    tot = 0
    for s, e in runs(mask, "-"):
        tot += e - s
        gp.append(mask[:s].count("x"))
        cum.append(tot)
    return [gp, cum, mask.count("x")]


def nonempty(spans):
    """drop zero-length entries of a spans / coordinate listing"""
    if not isinstance(spans, list):
        return spans
    out = []
    for s in spans:
        if isinstance(s, list):
            if s[0] != s[1]:
                out.append(s)
        elif s != 0:
            out.append(s)
    return out


def o_spans(mask):
    out = []
    for key, grp in itertools.groupby(enumerate(mask), key=lambda t: t[1]):
        grp = list(grp)
        s, e = grp[0][0], grp[-1][0] + 1
        if key == "x":
            a = mask[:s].count("x")
            out.append([a, a + e - s])
        else:
            out.append(e - s)
    return out


def o_seq_index(mask, i):
    n = len(mask)
    if i < 0:
        i += n
    if i < 0 or i > n:
        return NA
    return mask[:i].count("x")


def o_align_index(mask, s, slice_stop):
    pos = [i for i, c in enumerate(mask) if c == "x"]
    p = len(pos)
    if s < 0:
        s += p
    if s < 0:
        return NA
    if slice_stop:
        if s > p:
            return NA
        return 0 if s == 0 else pos[s - 1] + 1
    if s >= p:
        return NA
    return pos[s]


def o_slice(mask, a, b):
    n = len(mask)
    # an out-of-range negative bound is explicitly rejected by the class (IndexError, asserted by
    # its test-suite): outside the specification
    for v in (a, b):
        if v is not None and v < -n:
            return NA
    return canon_state(mask[slice(a, b)])


def profile(mask):
    """number of gap characters in front of each residue, and after the last"""
    out = [0]
    for c in mask:
        if c == "-":
            out[-1] += 1
        else:
            out.append(0)
    return out


def from_profile(p):
    return "x".join("-" * g for g in p)


def o_merge(k1, k2):
    return canon_state(from_profile([a + b for a, b in zip(profile(k1), profile(k2))]))


def o_minus(k1, k2):
    if len(k1) != len(k2):
        return Exc(9)
    return canon_state("".join(a for a, b in zip(k1, k2) if not (a == "-" and b == "-")))


def o_shared(k1, k2):
    if len(k1) != len(k2):
        return Exc(9)
    common = "".join("-" if (a == "-" and b == "-") else "x" for a, b in zip(k1, k2))
    return [[s, e] for s, e in runs(common, "-")]


def slice_list(sl):
    if "all" in sl:
        lo, hi = sl["all"]
        b = [None] + list(range(lo, hi + 1))
        return [(x, y) for x in b for y in b]
    return [tuple(p) for p in sl["list"]]


# ------------------------------------------------------------------ shapes (stable violation keys)

def mask_shape(mask):
    if not mask:
        return "empty"
    if "-" not in mask:
        return "no-gap"
    if "x" not in mask:
        return "all-gap"
    return "+".join(t for t, ok in (("leading-gap", mask[0] == "-"), ("trailing-gap", mask[-1] == "-"),
                                    ("inner", mask[0] != "-" and mask[-1] != "-")) if ok)


def pos_class(mask, v):
    n = len(mask)
    if v is None:
        return "none"
    if v < -n:
        return "neg-oob"
    if v > n:
        return "beyond-len"
    if v < 0:
        v += n
    if v == 0:
        return "0"
    if v == n:
        return "len"
    here, before = mask[v], mask[v - 1]
    if here == "-" and before == "-":
        return "in-gap"
    if here == "-":
        return "gap-start"
    if before == "-":
        return "gap-end"
    return "residue"


def slice_key(mask, a, b):
    ca, cb = pos_class(mask, a), pos_class(mask, b)
    if "beyond-len" in (ca, cb):
        return "slice:index-beyond-len"
    return f"slice:{ca}:{cb}"


def add_key(k1, k2):
    if k1.endswith("-") and k2.startswith("-"):
        return "add:left-ends-in-gap+right-starts-with-gap"
    return "add:other"


def coords_key(mask):
    ng = len(runs(mask, "-"))
    tail = "ends-in-residue" if mask.endswith("x") else "ends-in-gap"
    return f"get_coordinates:{'gaps>=2' if ng >= 2 else 'gaps<2'}:{tail}"


# ------------------------------------------------------------------ items: (op, args, key, oracle) per observation slot

def unary_items(c):
    """[(op, args, key, oracle)] in the order the observations are flattened"""
    mask = c["mask"]
    n = len(mask)
    sh = mask_shape(mask)
    cs = canon_state(mask)
    items = [
        ("from_mask", None, f"from_mask:{sh}", cs),
        ("len", None, f"len:{sh}", n),
        ("spans", None, f"spans:{sh}", ("nonempty", o_spans(mask))),
        ("spans_mask", None, f"spans_mask:{sh}", mask),
        ("nongap", None, f"nongap:{sh}", ("nonempty", [[s, e] for s, e in runs(mask, "x")])),
        ("get_coordinates", None, coords_key(mask),
         ("nonempty", [[mask[:s].count("x"), mask[:s].count("x") + e - s] for s, e in runs(mask, "x")])),
        ("get_gap_coordinates", None, f"get_gap_coordinates:{sh}", [[mask[:s].count("x"), e - s] for s, e in runs(mask, "-")]),
        ("get_gap_align_coordinates", None, f"get_gap_align_coordinates:{sh}", [[s, e] for s, e in runs(mask, "-")]),
    ]
    for i in c["idx"]:
        items.append(("get_seq_index", i, f"get_seq_index:{pos_class(mask, i)}", o_seq_index(mask, i)))
    for s in c["sidx"]:
        items.append(("get_align_index", s, f"get_align_index:{sh}", o_align_index(mask, s, False)))
        items.append(("get_align_index_slice_stop", s, f"get_align_index:slice_stop:{sh}", o_align_index(mask, s, True)))
    for a, b in slice_list(c["slices"]):
        items.append(("getitem", [a, b], slice_key(mask, a, b), o_slice(mask, a, b)))
    for i in range(n):
        items.append(("getitem_int", i, "getitem_int:" + pos_class(mask, i), canon_state(mask[i])))
    items.append(("nucleic_reversed", None, f"nucleic_reversed:{sh}", canon_state(mask[::-1])))
    for s in c["scales"]:
        items.append(("mul", s, f"mul:{sh}", canon_state("".join(ch * s for ch in mask)) if s >= 1 else NA))
    # no ungapped segment at all: the constructor's explicit `if not locations` branch reads that as
    # "nothing to mark" (a gap-free map of the aligned length) — a convention, outside the specification
    items.append(("from_aligned_segments", None, f"from_aligned_segments:{sh}", cs if "x" in mask else NA))
    items.append(("gap_coords_to_map", None, f"gap_coords_to_map:{sh}", cs))
    return items


def flatten_unary(c, obs):
    """observation list (impl or model layout) -> flat list aligned with unary_items"""
    out = list(obs[:8])
    out += list(obs[8])
    for pair in obs[9]:
        out += [pair[0], pair[1]]
    out += list(obs[10])
    out += list(obs[11])
    out.append(obs[12])
    out += list(obs[13])
    out += [obs[14], obs[15]]
    return out


def binary_items(c):
    k1 = c["mask"]
    items = []
    for k2 in c["others"]:
        tot = k1 + k2
        ak = add_key(k1, k2)
        p = tot.count("x")
        items += [
            ("add", k2, ak, canon_state(tot)),
            ("add.spans_mask", k2, ak, tot),
            ("add.len", k2, ak, len(tot)),
            ("add.get_seq_index", k2, ak, [o_seq_index(tot, i) for i in range(len(tot) + 1)]),
            ("add.get_align_index", k2, ak, [[o_align_index(tot, s, False), o_align_index(tot, s, True)] for s in range(p + 1)]),
            ("merge_maps", k2, "merge_maps:" + ("gap-free-operand" if "-" not in k1 or "-" not in k2 else "both-gapped"),
             o_merge(k1, k2) if k1.count("x") == k2.count("x") else None),
            ("minus_gaps", k2, "minus_gaps:" + ("same-len" if len(k1) == len(k2) else "different-len"), o_minus(k1, k2)),
            ("shared_gaps", k2, "shared_gaps:" + ("same-len" if len(k1) == len(k2) else "different-len"), o_shared(k1, k2)),
        ]
    return items


def flatten_binary(c, obs):
    out = []
    for row in obs:
        out += list(row)
    return out


def o_join(mask, cs):
    return canon_state("".join(mask[a:b] for a, b in sorted(cs)))


def join_items(c):
    mask = c["mask"]
    items = []
    for cs in c["coordss"]:
        abut = any(cs[i][1] == cs[i + 1][0] for i in range(len(cs) - 1))
        items.append(("joined_segments", cs, f"joined_segments:{len(cs)}seg" + (":abutting" if abut else ""), o_join(mask, cs)))
    return items


def o_seq_span(mask, s, e):
    """the pointwise image of the alignment span [s, e): the residue indices of its residue columns, as a span"""
    pos = [mask[:c_].count("x") for c_ in range(s, e) if mask[c_] == "x"]
    lo, hi = mask[:s].count("x"), mask[:e].count("x")
    assert pos == list(range(lo, hi))
    return [[lo, hi]]


def span_shape(mask, s, e):
    n = len(mask)
    inside = mask[s:e]
    if s == e:
        return "empty-span"
    if "x" not in inside:
        return "wholly-in-gap"
    first = "gap" if mask[s] == "-" else "res"
    last = "gap" if mask[e - 1] == "-" else "res"
    tail = ":ends-in-trailing-gap" if (last == "gap" and "x" not in mask[e - 1:]) else ""
    return f"first-col-{first}:last-col-{last}{tail}"


def seqmap_items(c):
    mask = c["mask"]
    items = []
    for s, e, rev in c["spans"]:
        items.append(("make_seq_feature_map", [s, e, rev], "make_seq_feature_map:" + span_shape(mask, s, e), o_seq_span(mask, s, e)))
    items.append(("make_seq_feature_map.parent_length", None, "make_seq_feature_map:parent_length", mask.count("x")))
    return items


def matches(impl, oracle):
    """does the implementation's observation satisfy the oracle's expectation?"""
    if isinstance(oracle, str) and oracle == NA:
        return True
    if isinstance(oracle, tuple) and oracle[0] == "nonempty":
        return nonempty(impl) == nonempty(oracle[1])
    if isinstance(oracle, list):
        return isinstance(impl, list) and len(impl) == len(oracle) and all(matches(i, o) for i, o in zip(impl, oracle))
    return type(impl) == type(oracle) and impl == oracle


def oracle_json(o):
    if isinstance(o, tuple):
        return {"ignoring_empty_spans": jsonable(o[1])}
    return jsonable(o)


# ------------------------------------------------------------------ FeatureMap oracle (positions)

def fm_den(spec):
    """parent position read at each map position; None for lost"""
    out = []
    for s in spec:
        if isinstance(s, int):
            out += [None] * s
        else:
            a, b, r = s
            out += list(range(b - 1, a - 1, -1)) if r else list(range(a, b))
    return out


def fm_den_obs(obs):
    if not isinstance(obs, list):
        return obs
    return fm_den([s if isinstance(s, int) else tuple(s) for s in obs[0]])


def fm_posset(spec):
    return {p for p in fm_den(spec) if p is not None}


def fm_bounds_ok(obs):
    if not isinstance(obs, list):
        return True
    spans, plen, _ = obs
    return all(isinstance(s, int) or (0 <= s[0] <= s[1] <= plen) for s in spans)


def fm_items(c):
    """[(op, args, key, check)] where check(impl_obs) -> None if fine, else the expectation (JSON-able)"""
    spec = [s if isinstance(s, int) else tuple(s) for s in c["spans"]]
    plen = c["plen"]
    den = fm_den(spec)
    pos = fm_posset(spec)
    real = [s for s in spec if not isinstance(s, int)]
    any_rev = any(s[2] for s in real)
    n = len(den)
    sorted_disjoint = all(real[i][1] <= real[i + 1][0] for i in range(len(real) - 1))
    items = []

    def add(op, args, key, check):
        items.append((op, args, key, check))

    def expect_eq(exp):
        return lambda got: None if got == exp else exp

    add("spans", None, "fmap:init", lambda got: None if (isinstance(got, list) and fm_den_obs(got) == den and got[1] == plen
                                                         and got[2] == n) else [den, plen, n])
    useful = bool(real)
    add("flags", None, "fmap:flags", expect_eq([useful, all(not isinstance(s, int) for s in spec),
                                                min((s[0] for s in real), default=0), max((s[1] for s in real), default=0)]))
    add("get_coordinates", None, "fmap:get_coordinates", expect_eq([[s[0], s[1]] for s in real]))

    def chk_covered(got):
        exp = sorted(pos)
        if not isinstance(got, list):
            return {"positions": exp}
        spans = got[0]
        ok = (all(not isinstance(s, int) and not s[2] for s in spans)
              and all(spans[i][1] < spans[i + 1][0] for i in range(len(spans) - 1))
              and fm_den_obs(got) == exp and got[1] == plen)
        return None if ok else {"positions": exp, "sorted_disjoint_non_abutting": True}

    add("covered", None, "fmap:covered", chk_covered)

    def chk_nrev(got):
        # position i of the reversed map reads parent position plen-1-p where the original read p at n-1-i
        exp = [None if p is None else plen - 1 - p for p in reversed(den)]
        if not isinstance(got, list):
            return exp
        # strand flags are discarded by the method (documented); compare the position sets per map index block
        g = fm_den_obs(got)
        same_cells = len(g) == len(exp) and all((a is None) == (b is None) for a, b in zip(g, exp))
        # per span: same set of parent positions
        gs = [frozenset(fm_den([tuple(s)])) if not isinstance(s, int) else s for s in got[0]]
        es = [frozenset(plen - 1 - p for p in fm_den([s])) if not isinstance(s, int) else s for s in reversed(spec)]
        return None if (same_cells and gs == es and got[1] == plen) else exp

    add("nucleic_reversed", None, "fmap:nucleic_reversed", chk_nrev)

    def chk_inverse(got):
        if not sorted_by_start_disjoint(real):
            return None  # overlapping maps are documented as uninvertable (ValueError or unspecified)
        # inverse: a map on the parent (length plen) whose cell q reads the map position that reads q
        exp = [None] * plen
        for i, p in enumerate(den):
            if p is not None and 0 <= p < plen:
                exp[p] = i
        if not isinstance(got, list):
            return exp
        return None if (fm_den_obs(got) == exp and got[1] == n) else [exp, n]

    def sorted_by_start_disjoint(rs):
        rs = sorted(rs)
        return all(rs[i][1] <= rs[i + 1][0] for i in range(len(rs) - 1))

    add("inverse", None, "fmap:inverse", chk_inverse)

    def chk_shadow(got):
        if not sorted_by_start_disjoint(real):
            return None
        exp = [q for q in range(plen) if q not in pos]
        if not isinstance(got, list):
            return {"positions": exp}
        ok = fm_den_obs(got) == exp and got[1] == plen and all(not isinstance(s, int) for s in got[0])
        return None if ok else {"positions": exp, "parent_length": plen}

    add("shadow", None, "fmap:shadow", chk_shadow)

    def chk_gaps(got):
        exp = [i for i, p in enumerate(den) if p is None]
        if not isinstance(got, list):
            return {"positions": exp}
        return None if (fm_den_obs(got) == exp and got[1] == n) else {"positions": exp, "parent_length": n}

    add("gaps", None, "fmap:gaps", chk_gaps)
    add("without_gaps", None, "fmap:without_gaps",
        lambda got: None if (isinstance(got, list) and fm_den_obs(got) == [p for p in den if p is not None] and got[1] == plen)
        else [p for p in den if p is not None])

    def chk_nongap(got):
        exp = [i for i, p in enumerate(den) if p is not None]
        if not isinstance(got, list):
            return {"positions": exp}
        g = fm_den([s if isinstance(s, int) else tuple(s) for s in got])
        return None if [x for x in g if x is not None] == exp else {"positions": exp}

    add("nongap", None, "fmap:nongap", chk_nongap)

    def chk_gapcoords(got):
        exp = []
        off = 0
        prev_end = 0
        for i, s in enumerate(spec):
            if isinstance(s, int):
                exp.append([prev_end if i else 0, s])
            else:
                prev_end = s[1]
        # the method reads spans[i-1].end: only meaningful when a lost span follows a real span or starts the map
        for i, s in enumerate(spec):
            if isinstance(s, int) and i and isinstance(spec[i - 1], int):
                return None
        return None if got == exp else exp

    add("get_gap_coordinates", None, "fmap:get_gap_coordinates", chk_gapcoords)

    def chk_covering(got):
        if not real:
            return None
        a, b = min(s[0] for s in real), max(s[1] for s in real)
        if not isinstance(got, list):
            return [a, b]
        return None if (fm_den_obs(got) == list(range(a, b)) and got[1] == plen) else [a, b]

    add("get_covering_span", None, "fmap:get_covering_span", chk_covering)
    for k in c["scales"]:
        def chk_mul(got, k=k):
            exp = []
            for p in den:
                exp += [None] * k if p is None else [p * k + j for j in range(k)]
            if not isinstance(got, list):
                return exp
            g = fm_den_obs(got)
            # reversed spans read downwards: compare position sets per original cell block
            ok = len(g) == len(exp) and got[1] == plen * k
            for i in range(0, len(exp), k):
                ok = ok and set(g[i:i + k]) == set(exp[i:i + k])
            return None if ok else exp
        add("mul", k, "fmap:mul", chk_mul)
    for sub in c["subs"]:
        sub_t = [s if isinstance(s, int) else tuple(s) for s in sub]

        def chk_comp(got, sub_t=sub_t):
            # composition: cell j of fm[sub] reads den[den_sub[j]] (None when sub is lost there or outside the map)
            exp = []
            for q in fm_den(sub_t):
                exp.append(None if (q is None or not 0 <= q < n) else den[q])
            if not isinstance(got, list):
                return exp
            return None if (fm_den_obs(got) == exp and got[1] == plen) else exp
        real_sub = [s for s in sub_t if not isinstance(s, int)]
        outside = any(s[1] <= 0 or s[0] >= n for s in real_sub if not (s[0] == s[1] and 0 <= s[0] <= n)) and bool(spec)
        overhang = any(s[0] < 0 or s[1] > n for s in real_sub)
        # a span lying ENTIRELY outside the map is a separate stream (finding C08-6: remap_with pads it twice)
        add("getitem_map", sub, "fmap:getitem:map" + (":wholly-outside" if outside else
                                                      (":reversed" if any(s[2] for s in real_sub) else "") + (":overhang" if overhang else ""))
            + ("" if spec else ":empty-map"), chk_comp)
    for a, b in c["slices"]:
        def chk_slice(got, a=a, b=b):
            exp = den[slice(a, b)]
            if not isinstance(got, list):
                return exp
            return None if (fm_den_obs(got) == exp and got[1] == plen) else exp
        # a feature map without any span has nothing to be remapped onto: Span.remap_with reads offsets[-1] and
        # the class answers IndexError — an explicit rejection of a degenerate operand, outside the specification
        if spec:
            add("getitem_slice", [a, b], "fmap:getitem:slice", chk_slice)
        else:
            add("getitem_slice", [a, b], "fmap:getitem:slice:empty-map", lambda got: None)

    def chk_invinv(got):
        if got is None or not sorted_by_start_disjoint(real) or any_rev is None:
            return None
        # inverse is an involution on the cells that lie inside the parent, up to lost padding at the ends
        exp = [p for p in den if p is not None]
        if not isinstance(got, list):
            return exp
        if not sorted_disjoint:
            return None
        g = [p for p in fm_den_obs(got) if p is not None]
        return None if g == exp else exp

    add("inverse.inverse", None, "fmap:inverse-involution", chk_invinv)
    return items


def fm_flatten(c, obs):
    out = list(obs[:12])
    out += list(obs[12])
    out += list(obs[13])
    out += list(obs[14])
    out.append(obs[15])
    return out


# ------------------------------------------------------------------ generators

def all_masks(n):
    return ["".join(t) for k in range(n + 1) for t in itertools.product("x-", repeat=k)]


def unary_case(mask, slices=None, block="exhaustive"):
    n = len(mask)
    p = mask.count("x")
    return dict(kind="unary", mask=mask, slices=slices or {"all": [-(n + 2), n + 2]}, idx=list(range(-(n + 2), n + 3)),
                sidx=list(range(-(p + 2), p + 3)), scales=[1, 2, 3], block=block)


def exhaustive_unary(tier):
    nmax = 7 if tier == "quick" else 10
    out = []
    for m in all_masks(nmax):
        n = len(m)
        if n <= 8:
            out.append(unary_case(m))
        else:
            # in-range and a thin out-of-range margin only (the margins are fully covered for n <= 8)
            out.append(unary_case(m, {"all": [-1, n + 1]}))
    return out


def exhaustive_binary(tier):
    nmax = 4 if tier == "quick" else 5
    ms = all_masks(nmax)
    return [dict(kind="binary", mask=m, others=ms, block="exhaustive") for m in ms]


def seg_lists(n, kmax):
    """all lists of <= kmax sorted, non-empty, non-overlapping (possibly abutting) segments in [0, n]"""
    out = []

    def rec(start, acc):
        if acc:
            out.append(list(acc))
        if len(acc) == kmax:
            return
        for a in range(start, n):
            for b in range(a + 1, n + 1):
                acc.append([a, b])
                rec(b, acc)
                acc.pop()

    rec(0, [])
    return out


def exhaustive_join(tier):
    nmax, kmax = (5, 3) if tier == "quick" else (7, 3)
    out = []
    for m in all_masks(nmax):
        if not m:
            continue
        out.append(dict(kind="join", mask=m, coordss=seg_lists(len(m), kmax), block="exhaustive"))
    return out


def exhaustive_seqmap(tier):
    """every mask of length <= 6 (thorough 9) x every alignment span [s, e), forward and (flag only) reversed"""
    nmax = 6 if tier == "quick" else 9
    out = []
    for m in all_masks(nmax):
        n = len(m)
        spans = [[a, b, False] for a in range(n + 1) for b in range(a, n + 1)]
        spans += [[a, b, True] for a in range(n + 1) for b in range(a, n + 1) if (a + b) % 3 == 0]
        out.append(dict(kind="seqmap", mask=m, spans=spans, block="exhaustive"))
    return out


def random_seqmap(rng, tier):
    out = []
    for _ in range(30 if tier == "quick" else 300):
        n = rng.choice([12, 20, 40, 80, 150])
        mask = rand_mask(rng, n)
        pts = interesting_points(mask, rng, 16)
        spans = [[a, b, rng.random() < 0.2] for a in pts for b in pts if a <= b]
        out.append(dict(kind="seqmap", mask=mask, spans=spans, block="random"))
    return out


def rand_mask(rng, n):
    """long masks with long gap runs, leading/trailing/adjacent-to-single-residue gaps"""
    out = []
    gap = rng.random() < 0.4
    while len(out) < n:
        if gap:
            ln = rng.choice([1, 1, 2, 3, 5, 8, 13, 30, 60])
        else:
            ln = rng.choice([1, 1, 1, 2, 3, 4, 7, 12, 25])
        out += ["-" if gap else "x"] * ln
        gap = not gap
    return "".join(out[:n])


def interesting_points(mask, rng, k):
    n = len(mask)
    pts = {0, n, 1, n - 1}
    for s, e in runs(mask, "-"):
        pts |= {s - 1, s, s + 1, e - 1, e, e + 1}
    pts = sorted(p for p in pts if 0 <= p <= n)
    if len(pts) > k:
        pts = sorted(rng.sample(pts, k))
    return pts


def random_unary(rng, tier):
    ncases = 60 if tier == "quick" else 600
    out = []
    for _ in range(ncases):
        n = rng.choice([12, 20, 40, 80, 150, 300])
        mask = rand_mask(rng, n)
        pts = interesting_points(mask, rng, 14)
        sl = [[a, b] for a in pts for b in pts if a <= b]
        for _ in range(40):
            a, b = sorted((rng.randint(0, n), rng.randint(0, n)))
            sl.append([a, b])
        for _ in range(12):
            a, b = rng.randint(-n, n), rng.randint(-n, n)
            sl.append([a, b])
        sl += [[None, rng.randint(0, n)], [rng.randint(0, n), None], [None, None], [0, n + 3], [n + 1, n + 4], [-n - 1, 2]]
        c = unary_case(mask, {"list": sl}, block="random")
        idx = interesting_points(mask, rng, 30) + [rng.randint(-n, n) for _ in range(10)]
        c["idx"] = idx
        p = mask.count("x")
        spts = set()
        for s, e in runs(mask, "-"):
            q = mask[:s].count("x")
            spts |= {q - 1, q, q + 1}
        spts = sorted(x for x in spts if 0 <= x <= p)
        if len(spts) > 30:
            spts = sorted(rng.sample(spts, 30))
        c["sidx"] = spts + [rng.randint(-p, p) for _ in range(8)] + [0, p]
        out.append(c)
    return out


def random_binary(rng, tier):
    ncases = 25 if tier == "quick" else 250
    out = []
    for _ in range(ncases):
        n = rng.choice([6, 10, 20, 40])
        k1 = rand_mask(rng, n)
        others = []
        for _ in range(6):
            # same length (minus/shared), same residue count (merge) and free partners
            r = rng.random()
            if r < 0.4:
                k2 = list(rand_mask(rng, n))
                # share some of k1's gaps so that the intersection is non-trivial
                for i, ch in enumerate(k1):
                    if ch == "-" and rng.random() < 0.5:
                        k2[i] = "-"
                others.append("".join(k2))
            elif r < 0.7:
                p = profile(k1)
                q = [rng.choice([0, 0, 1, 2, 5]) for _ in p]
                others.append(from_profile(q))
            else:
                others.append(rand_mask(rng, rng.choice([1, 5, 17])))
        out.append(dict(kind="binary", mask=k1, others=others, block="random"))
    return out


def random_join(rng, tier):
    ncases = 40 if tier == "quick" else 400
    out = []
    for _ in range(ncases):
        n = rng.choice([10, 20, 40, 100])
        mask = rand_mask(rng, n)
        coordss = []
        for _ in range(12):
            k = rng.randint(1, 6)
            pts = interesting_points(mask, rng, 40)
            pool = pts + [rng.randint(0, n) for _ in range(4)]
            cut = sorted(rng.choice(pool) for _ in range(2 * k))
            cs = [[cut[2 * i], cut[2 * i + 1]] for i in range(k)]
            coordss.append(cs)
        out.append(dict(kind="join", mask=mask, coordss=coordss, block="random"))
    return out


def rand_fmap_spec(rng, plen, allow_overlap=True, allow_rev=True, allow_lost=True):
    k = rng.choice([0, 1, 1, 2, 2, 3, 4])
    spans = []
    if allow_overlap and rng.random() < 0.4:
        for _ in range(k):
            a = rng.randint(0, plen)
            b = rng.randint(a, min(plen, a + rng.choice([0, 1, 2, 3, 6])))
            spans.append([a, b, allow_rev and rng.random() < 0.25])
    else:
        cuts = sorted(rng.randint(0, plen) for _ in range(2 * k))
        for i in range(k):
            spans.append([cuts[2 * i], cuts[2 * i + 1], allow_rev and rng.random() < 0.2])
        if rng.random() < 0.15:
            rng.shuffle(spans)
    out = []
    for s in spans:
        if allow_lost and rng.random() < 0.25:
            out.append(rng.choice([1, 2, 3]))
        out.append(s)
    if allow_lost and rng.random() < 0.2:
        out.append(rng.choice([1, 2]))
    return out


def fmap_cases(rng, tier):
    ncases = 400 if tier == "quick" else 6000
    out = []
    # small exhaustive part: all maps of <= 2 forward spans on a parent of length 4
    segs = [[a, b, False] for a in range(5) for b in range(a, 5)]
    small = [[]] + [[s] for s in segs] + [[s, t] for s in segs for t in segs]
    for spec in small:
        out.append(dict(kind="fmap", spans=spec, plen=4, scales=[1, 3], subs=[], slices=[[0, 2], [1, None]], block="exhaustive"))
    # composition with an inner span that is reversed and / or overhangs the map (also lies wholly outside it): every map of
    # <= 2 spans (forward, reversed, lost) on a parent of length 3 x every single inner span [a, b), -2 <= a <= b <= len + 2,
    # in both directions
    segs3 = [[a, b, r] for a in range(4) for b in range(a, 4) for r in (False, True)] + [1]
    maps3 = [[s] for s in segs3] + [[s, t] for s in segs3 for t in segs3]
    if tier == "quick":
        maps3 = [m for k, m in enumerate(maps3) if len(m) == 1 or k % 3 == 0]
    for spec in maps3:
        n = sum(s if isinstance(s, int) else s[1] - s[0] for s in spec)
        subs = [[[a, b, r]] for a in range(-2, n + 3) for b in range(a, n + 3) for r in (False, True)]
        out.append(dict(kind="fmap", spans=spec, plen=3, scales=[], subs=subs, slices=[], block="exhaustive"))
    for _ in range(ncases):
        plen = rng.choice([0, 1, 4, 9, 15, 30])
        spec = rand_fmap_spec(rng, plen)
        n = sum(s if isinstance(s, int) else s[1] - s[0] for s in spec)
        subs = [rand_fmap_spec(rng, n, allow_overlap=True, allow_rev=True, allow_lost=True) for _ in range(3)] if n else []
        if n:
            # overhanging inner spans, half of them reversed; now and then wholly outside
            for _k in range(2):
                a = rng.randint(-4, n - 1)
                b = rng.randint(max(a, 1), n + 4)
                subs.append([[a, b, rng.random() < 0.5]] + ([rng.choice([1, 2])] if rng.random() < 0.3 else []))
            if rng.random() < 0.15:
                subs.append([rng.choice([[-5, -2, True], [-3, -1, False], [n + 1, n + 3, True], [n, n + 2, False]])])
        slices = []
        for _ in range(3):
            a, b = sorted((rng.randint(0, n), rng.randint(0, n)))
            slices.append([a, b])
        if n:
            slices += [[None, rng.randint(0, n)], [rng.randint(-n, -1), None]]
        out.append(dict(kind="fmap", spans=spec, plen=plen, scales=[1, 2, 3], subs=subs, slices=slices, block="random"))
    return out


# ------------------------------------------------------------------ rendering for Coq

def cmask(m):
    return "(mk [" + ";".join("1" if ch == "x" else "0" for ch in m) + "])"


def copt(v):
    return "None" if v is None else f"(Some {zlit(v)})"


def czlist(xs):
    return "[" + ";".join(zlit(x) for x in xs) + "]"


def coq_case(c):
    if c["kind"] == "unary":
        sl = c["slices"]
        if "all" in sl:
            s = f"(SAll {zlit(sl['all'][0])} {zlit(sl['all'][1])})"
        else:
            s = "(SList [" + ";".join(f"({copt(a)},{copt(b)})" for a, b in sl["list"]) + "])"
        return f"CUnary {cmask(c['mask'])} {s} {czlist(c['idx'])} {czlist(c['sidx'])} {czlist(c['scales'])}"
    if c["kind"] == "binary":
        return f"CBinary {cmask(c['mask'])} [" + ";".join(cmask(k) for k in c["others"]) + "]"
    if c["kind"] == "join":
        return f"CJoin {cmask(c['mask'])} [" + ";".join(
            "[" + ";".join(f"({zlit(a)},{zlit(b)})" for a, b in cs) + "]" for cs in c["coordss"]) + "]"
    if c["kind"] == "seqmap":
        return f"CSeqMap {cmask(c['mask'])} [" + ";".join(f"({zlit(a)},{zlit(b)})" for a, b, _ in c["spans"]) + "]"
    raise ValueError(c["kind"])


# ------------------------------------------------------------------ which transcription describes the code that is there

# The pinned code violates the property at four places of IndelMap (theorems *_refuted of Properties/C08.v);
# Model/IndelMapFixed.v transcribes the proposed corrections.  The variant is chosen from the BEHAVIOUR of the
# implementation on the witness inputs of the refuted theorems (never from its text), so that a harmless rewrite
# changes nothing and any other behaviour still shows up as a model/implementation disagreement.
PROBES = [
    ("slice", dict(kind="unary", mask="x-x", slices={"list": [[0, 9]]}, idx=[], sidx=[], scales=[], block="probe"),
     lambda o: o[10][0] == canon_state("x-x")),
    ("add", dict(kind="binary", mask="-", others=["-"], block="probe"), lambda o: o[0][0] == canon_state("--")),
    ("coords", dict(kind="unary", mask="-x-x", slices={"list": []}, idx=[], sidx=[], scales=[], block="probe"),
     lambda o: nonempty(o[5]) == [[0, 1], [1, 2]]),
    ("nongap", dict(kind="unary", mask="x", slices={"list": []}, idx=[], sidx=[], scales=[], block="probe"),
     lambda o: nonempty(o[4]) == [[0, 1]]),
]
REFUTED_THEOREM = {"slice": "slice_beyond_len_refuted", "add": "add_refuted", "coords": "get_coordinates_refuted",
                   "nongap": "nongap_refuted"}


def probe_variant():
    """{site: True if the implementation satisfies the specification on the witness of the refuted theorem}"""
    docs = core.run_impl_lines("c08_impl.py", [c for _, c, _ in PROBES])
    out = {}
    for (site, _, ok), doc in zip(PROBES, docs):
        try:
            out[site] = bool("obs" in doc and ok(from_jsonable(doc["obs"])))
        except Exception:
            out[site] = False
    return out


def cfspan(sp):
    if isinstance(sp, int):
        return f"FL {zlit(sp)}"
    return f"FS {zlit(sp[0])} {zlit(sp[1])} {'true' if sp[2] else 'false'}"


def coq_fcase(c):
    spans = "[" + ";".join(cfspan(sp) for sp in c["spans"]) + "]"
    subs = "[" + ";".join("[" + ";".join(cfspan(sp) for sp in sub) + "]" for sub in c["subs"]) + "]"
    slices = "[" + ";".join(f"({copt(a)},{copt(b)})" for a, b in c["slices"]) + "]"
    return f"CFmap {spans} {zlit(c['plen'])} {czlist(c['scales'])} {subs} {slices}"


REMAP_PROBE = dict(kind="fmap", spans=[[2, 5, False], 2, [7, 9, True]], plen=10, scales=[], subs=[[[-5, -2, False]]], slices=[],
                   block="probe")


def probe_remap():
    """True if the implementation maps a span lying wholly outside the map to as many lost positions as it has (repaired
    Span.remap_with, finding C08-6), False if it pads twice (the rule before the repair)"""
    doc = core.run_impl_lines("c08_impl.py", [REMAP_PROBE])[0]
    try:
        got = from_jsonable(doc["obs"])[13][0]
        return fm_den_obs(got) == [None, None, None]
    except Exception:
        return False


def run_fmodel(cases, fixed=False):
    runner = "run_fcase_v " + ("true" if fixed else "false")
    return core.coq_eval(PROP, ["Model.IndelMap", "Model.FeatureMap", "Model.FeatureMapRun"], runner,
                         [coq_fcase(c) for c in cases], "fcase", shard=150, tag="f")


def variant_term(v):
    b = lambda x: "true" if x else "false"
    return f"(mk_variant {b(v['slice'])} {b(v['add'])} {b(v['coords'])} {b(v['nongap'])})"


def run_model(cases, variant=None):
    runner = "run_case" if variant is None else f"run_case_v {variant_term(variant)}"
    return core.coq_eval(PROP, ["Model.IndelMap", "Model.IndelMapRun"], runner, [coq_case(c) for c in cases], "case", shard=60)


# ------------------------------------------------------------------ comparison

ITEMS = {"unary": (unary_items, flatten_unary), "binary": (binary_items, flatten_binary), "join": (join_items, lambda c, o: list(o)),
         "seqmap": (seqmap_items, lambda c, o: list(o))}


def small_case(c, op, args):
    """a one-observation version of the case, for the replay file"""
    c = {k: v for k, v in c.items()}
    if c["kind"] == "unary":
        c["slices"] = {"list": [args] if op == "getitem" else []}
        c["idx"] = [args] if op == "get_seq_index" else []
        c["sidx"] = [args] if op.startswith("get_align_index") else []
        c["scales"] = [args] if op == "mul" else []
    elif c["kind"] == "binary":
        c["others"] = [args]
    elif c["kind"] == "join":
        c["coordss"] = [args]
    elif c["kind"] == "seqmap":
        c["spans"] = [args] if args else []
    elif c["kind"] == "fmap":
        c["subs"] = [args] if op == "getitem_map" else []
        c["slices"] = [args] if op == "getitem_slice" else []
        c["scales"] = [args] if op == "mul" else []
    return c


class Tally:
    def __init__(self):
        self.evaluations = 0
        self.nontrivial = 0
        self.spec_checked = 0
        self.by_op = {}
        self.disagreements = []
        self.n_dis = 0
        self.n_vio = 0


def mixed(mask):
    return "x" in mask and "-" in mask


def compare_case(rep, tally, c, impl_doc, model_obs, seen_masks):
    """impl_doc: {"obs":…, "extra":…} or {"exc":…}; model_obs: parsed val or None"""
    if "exc" in impl_doc and "obs" not in impl_doc:
        tally.n_vio += 1
        rep.violation(f"raised:{c['kind']}", dict(case=c if len(json.dumps(c)) < 4000 else dict(c, note="large"),
                                                  observed_impl=impl_doc,
                                                  broken="building the map of a gapped string / running the queries raised or hung"))
        return
    obs = from_jsonable(impl_doc["obs"])
    if c["kind"] == "fmap":
        items = fm_items(c)
        flat = fm_flatten(c, obs)
        mflat = fm_flatten(c, model_obs) if model_obs is not None else [None] * len(flat)
        if len(items) != len(flat) or len(items) != len(mflat):
            raise core.CheckError(f"observation layout mismatch (fmap): {len(items)} items, {len(flat)} impl, {len(mflat)} model")
        for (op, args, key, check), got, m_v in zip(items, flat, mflat):
            tally.evaluations += 1
            tally.by_op["fmap." + op] = tally.by_op.get("fmap." + op, 0) + 1
            tally.spec_checked += 1
            exp = check(got)
            bounds = fm_bounds_ok(got) if op not in ("spans", "flags", "get_coordinates", "get_gap_coordinates", "nongap") else True
            if exp is not None or not bounds:
                tally.n_vio += 1
                rep.violation(key if bounds else key + ":out-of-parent",
                              dict(case=small_case(c, op, args), op=op, args=args, expected_by_spec=jsonable(exp),
                                   observed_impl=jsonable(got), model_output=jsonable(m_v),
                                   broken="FeatureMap operation differs from its set-of-positions meaning"
                                   if exp is not None else "coordinates outside the parent"))
            elif model_obs is not None and got != m_v:
                tally.n_dis += 1
                if len(tally.disagreements) < 5:
                    tally.disagreements.append(dict(key=key, case=small_case(c, op, args), op=op, args=args,
                                                    observed_impl=jsonable(got), model_output=jsonable(m_v)))
        if c["spans"] and any(not isinstance(s, int) for s in c["spans"]):
            tally.nontrivial += len(items)
        return
    mk_items, flatten = ITEMS[c["kind"]]
    items = mk_items(c)
    iflat = flatten(c, obs)
    mflat = flatten(c, model_obs) if model_obs is not None else [None] * len(iflat)
    if len(items) != len(iflat) or len(items) != len(mflat):
        raise core.CheckError(f"observation layout mismatch: {len(items)} items, {len(iflat)} impl, {len(mflat)} model ({c['kind']})")
    first_time = (c["kind"], c["mask"]) not in seen_masks
    seen_masks.add((c["kind"], c["mask"]))
    for (op, args, key, oracle), i_v, m_v in zip(items, iflat, mflat):
        tally.evaluations += 1
        tally.by_op[op] = tally.by_op.get(op, 0) + 1
        if first_time and mixed(c["mask"]):
            tally.nontrivial += 1
        applies = not (isinstance(oracle, str) and oracle == NA)
        if applies:
            tally.spec_checked += 1
        if applies and not matches(i_v, oracle):
            tally.n_vio += 1
            rep.violation(key, dict(case=small_case(c, op, args), op=op, args=args, expected_by_spec=oracle_json(oracle),
                                    observed_impl=jsonable(i_v), model_output=jsonable(m_v),
                                    broken=f"IndelMap.{op} differs from the same reading of the gapped string"))
        elif model_obs is not None and i_v != m_v:
            tally.n_dis += 1
            if len(tally.disagreements) < 5:
                tally.disagreements.append(dict(key=key, case=small_case(c, op, args), op=op, args=args,
                                                observed_impl=jsonable(i_v), model_output=jsonable(m_v)))
    extra = impl_doc.get("extra") or {}
    if "all_at_once" in extra:
        # all the spans in one alignment feature map, a lost span after each: lost spans are skipped, order is kept
        tally.evaluations += 1
        got = from_jsonable(extra["all_at_once"])
        exp = [[o_seq_span(c["mask"], s_, e_)[0] for s_, e_, _ in c["spans"]], False]
        if got != exp:
            tally.n_vio += 1
            rep.violation("make_seq_feature_map:whole-map",
                          dict(case=dict(c, spans=c["spans"][:6]), op="make_seq_feature_map", expected_by_spec=jsonable(exp)[:1],
                               observed_impl=jsonable(got), model_output=None,
                               broken="make_seq_feature_map of a map with several spans and lost spans differs from span by span"))
    if "new_type_state" in extra:
        tally.evaluations += 1
        got = from_jsonable(extra["new_type_state"])
        if got != canon_state(c["mask"]):
            tally.n_vio += 1
            rep.violation("from_mask:new_type:" + mask_shape(c["mask"]),
                          dict(case=small_case(c, "from_mask", None), op="new_sequence.parse_out_gaps",
                               expected_by_spec=canon_state(c["mask"]), observed_impl=jsonable(got), model_output=None,
                               broken="new-style Sequence.parse_out_gaps builds a different map"))


def build_cases(tier, rng, widen=1):
    # corpus first: the witness inputs of the *_refuted theorems (and of the merge_maps dtype defect), so that the
    # replay written for each of those kinds is the readable one
    cases = [dict(c, block="corpus") for _, c, _ in PROBES]
    cases.append(dict(kind="binary", mask="xx", others=["x-x"], block="corpus"))
    cases += exhaustive_unary(tier)
    cases += exhaustive_binary(tier)
    cases += exhaustive_join(tier)
    cases += exhaustive_seqmap(tier)
    for _ in range(widen):
        cases += random_seqmap(rng, tier)
        cases += random_unary(rng, tier)
        cases += random_binary(rng, tier)
        cases += random_join(rng, tier)
    fm = fmap_cases(rng, tier)
    return cases, fm


def run(tier: str, seed: int) -> int:
    rep = core.Report(PROP, tier, seed)
    rng = random.Random(seed * 7919 + 8)
    # gen/IndelMapGen.v is shared by every run: concurrent C08 runs against different source trees (seeded-change tests) must
    # not build against each other's translation, so regenerate + build + Print Assumptions happen under one lock
    core.GEN.mkdir(exist_ok=True)
    with core._Lock(core.GEN / ".c08_indelmapgen.lock"):
        terr, records = run_translator()
        if terr is None:
            pr = core.proof_stage(PROP, COQ_TARGETS)
        else:
            # the source left the translatable fragment: no proof obligation counts as discharged, the tie is reported broken
            # and the decision falls to the (widened) behavioural correspondence below
            pr = {"obligations": len(core.property_theorems(PROP)), "discharged": 0, "theorems": {},
                  "problems": ["translator tie broken: translator failed closed: " + terr]}
        if pr["problems"]:
            core.make(MODEL_TARGETS)      # the models do not depend on the generated file: keep them runnable
            pr["problems"] = [explain_tie_break(x) for x in pr["problems"]]
    core.proof_coverage(rep, pr, "indelmap.py > gen/IndelMapGen.v && make theories/Properties/C08.vo && coqc gen/assum_C08.v (Print Assumptions)", [
        "translator harness/translators/indelmap.py: trusted to emit Gallina that means what the Python text of the IndelMap kernel "
        "means, for the fragment it accepts (integer expressions, comparisons, and/or/not, if/elif/else with early return or merge, "
        "local assignments, a small set of numpy array primitives mapped to the list functions of the model, keyword construction, "
        "raise); anything else aborts the translation (coverage.translator_tie.reading lists the conventions)",
        "numpy int32/int64 arrays are modelled as unbounded integer lists (no overflow, no dtype); numpy.searchsorted is modelled "
        "as a linear 'first index with element >= v (> v)' scan, equal to the binary search on the sorted arrays of a well-formed map",
        "Model/IndelMapFixed.v transcribes the corrections proposed in notes/proposed_fixes/C08-*.diff; which of the two "
        "transcriptions is compared with the implementation is decided by the implementation's behaviour on the four witness "
        "inputs of the *_refuted theorems (coverage.model_variant)",
        "theorems named *_bounded_partial are decided by complete enumeration inside Coq (vm_compute) up to the length bound "
        "in their statement",
        "FeatureMap / Span.remap_with: modelled (Model/FeatureMap.v, tidy_start/tidy_end/value not modelled) and compared "
        "observation by observation; their set-theoretic meaning is checked by the plain-Python set-of-positions oracle",
    ])
    rep.assumptions += [
        "slice theorems: bounds inside [0, len(map)] after Python's negative-index conversion (slice_spec, slice_spec_python); an "
        "out-of-range negative bound is rejected by the class with IndexError (convention asserted by its own tests) and is "
        "outside the specification; a stop beyond the end must be clamped as for any Python sequence (slice_v2_spec; the pinned "
        "code does not: slice_beyond_len_refuted)",
        "binary operations minus_gaps/shared_gaps: both maps come from the same alignment (equal aligned length), "
        "merge_maps: both maps are over the same sequence (equal parent_length)",
        "a FeatureMap without any span cannot be indexed (IndexError from Span.remap_with): treated as an explicit rejection",
    ]
    proof_broken = bool(pr["problems"])
    cases, fm = build_cases(tier, rng, widen=3 if proof_broken else 1)
    impl = core.run_impl_sharded("c08_impl.py", cases + fm, timeout=3000)
    variant = probe_variant()
    rep.coverage["model_variant"] = {
        site: ("corrected code (Model/IndelMapFixed.v): theorem %s documents the behaviour before the fix" % REFUTED_THEOREM[site])
        if fixed else ("pinned code (Model/IndelMap.v): theorem %s applies to the live code" % REFUTED_THEOREM[site])
        for site, fixed in variant.items()}
    model = None
    try:
        model = run_model(cases, variant)
    except core.CheckError as e:
        if not proof_broken:
            raise
        rep.notes.append(f"model not runnable: {str(e)[:300]}")
    tally = Tally()
    seen = set()
    for k, c in enumerate(cases):
        compare_case(rep, tally, c, impl[k], model[k] if model is not None else None, seen)
    fmodel = None
    try:
        remap_fixed = probe_remap()
        rep.coverage["model_variant"]["remap_with"] = (
            "repaired code (Model/FeatureMapFixed.v remap_with_v2, finding C08-6 fixed)" if remap_fixed else
            "code before the repair of C08-6 (Model/FeatureMap.v remap_with: a span wholly outside the map is padded twice)")
        fmodel = run_fmodel(fm, remap_fixed)
    except core.CheckError as e:
        if not proof_broken:
            raise
        rep.notes.append(f"FeatureMap model not runnable: {str(e)[:300]}")
    for k, c in enumerate(fm):
        compare_case(rep, tally, c, impl[len(cases) + k], fmodel[k] if fmodel is not None else None, seen)

    dist = {}
    for c in cases + fm:
        key = f"{c['kind']}:{c['block']}"
        dist[key] = dist.get(key, 0) + 1
    lens = {}
    for c in cases:
        b = len(c["mask"])
        b = str(b) if b <= 10 else "11-40" if b <= 40 else "41-300"
        lens[b] = lens.get(b, 0) + 1
    rep.coverage.update(
        evaluations=tally.evaluations, distinct_nontrivial=tally.nontrivial,
        rule="one evaluation = one observation (full state gap_pos/cum_gap_lengths/parent_length of a result map, or one query "
             "result) of one operation with one argument tuple on one gap mask, compared with the Coq model and, where the "
             "specification applies, with the string oracle; non-trivial = the mask contains at least one gap and one residue "
             "(FeatureMap: the map has at least one real span); distinct = first occurrence of the (kind, mask) pair",
        samples=[dict(case=cases[k], impl=(impl[k]["obs"][slot] if "obs" in impl[k] else impl[k]), observed=what)
                 for k, slot, what in ((0, 10, "m[0:9] as [gap_pos, cum_gap_lengths, parent_length]"),
                                      (1, 0, "m1 + m2: state, spans as string, len, seq indices, align indices, merge, minus, shared"),
                                      (2, 5, "get_coordinates()"))],
        input_distribution=dict(cases=dist, mask_lengths=lens, observations_by_op=tally.by_op,
                                spec_checked=tally.spec_checked),
        model_impl_disagreements=tally.n_dis, spec_violations=tally.n_vio,
        partial=PARTIAL,
        exhaustive=True,
        translator_tie=tie_report(terr, records, pr),
        exhaustive_scope=("all masks of length <= %d x all (start, stop) in -(n+2)..n+2 and None x all indices; all pairs of masks "
                          "of length <= %d; all masks of length <= %d x all lists of <= 3 sorted disjoint segments") % (
            (7, 4, 5) if tier == "quick" else (10, 5, 7)),
    )
    core.conclude(rep, pr, f"{len(cases) + len(fm)} cases / {tally.evaluations} observations against the string oracle",
                  tally.disagreements, "Model.IndelMapRun.run_case vs cogent3.core.location.IndelMap", tier, PROP)
    return rep.finish("proof")


def replay(path: str) -> int:
    d = json.loads(open(path).read())
    if "case" not in d:
        print("replay names a broken obligation, not an input:", d.get("broken"))
        return 1
    c = d["case"]
    doc = core.run_impl_lines("c08_impl.py", [c])[0]
    print("case  :", json.dumps(c))
    if "obs" not in doc:
        print("impl  :", doc)
        print("REPRODUCED")
        return 1
    obs = from_jsonable(doc["obs"])
    bad = False
    if c["kind"] == "fmap":
        for (op, args, key, check), got in zip(fm_items(c), fm_flatten(c, obs)):
            exp = check(got)
            if exp is not None or not fm_bounds_ok(got):
                bad = True
                print(f"op={op} args={args}\n  impl  : {got}\n  oracle: {exp}")
    else:
        mk_items, flatten = ITEMS[c["kind"]]
        for (op, args, key, oracle), got in zip(mk_items(c), flatten(c, obs)):
            if not matches(got, oracle):
                bad = True
                print(f"op={op} args={args}\n  impl  : {got}\n  oracle: {oracle_json(oracle)}")
        extra = doc.get("extra") or {}
        if "new_type_state" in extra and from_jsonable(extra["new_type_state"]) != canon_state(c["mask"]):
            bad = True
            print("new-style parse_out_gaps:", extra["new_type_state"], "expected", canon_state(c["mask"]))
    print("REPRODUCED" if bad else "not reproduced")
    return 1 if bad else 0
