"""C10 - Every serialisable object round-trips, whatever state it is in.

Stage P: Properties/C10.v (rich-dict re-basing of views / sequences of both implementations lifted to
every operation chain, indel maps, aligned rows, alignments, the registry dispatch).
Stage C: (a) the Coq model of the encoders/decoders/registry (vm_compute) against the real
to_rich_dict / deserialise_object on the state the real object is in after its history;
(b) BREADTH on the real code: every class offering to_rich_dict/to_json (found by introspection),
objects put into many states by generators, every route (to_json, to_rich_dict, second round trip,
pickle, deepcopy).
Stage S: the plain oracle "observation before = observation after" (floats within 1e-9 relative)."""
from __future__ import annotations

import itertools
import json
import random
import re

from vcheck import core
from vcheck.val import Exc, cbool, from_jsonable, jsonable, zlist, zlit, zstr

PROP = "C10"
COQ_TARGETS = ["theories/Model/SerialRun.vo"]
IMPL = "c10_impl.py"

# ------------------------------------------------------------------ generators

DNA = "ACGT"
ALPHA = {"dna": "ACGTNRY", "rna": "ACGUNRY", "protein": "ACDEFGHIKLMNPQRSTVWY", "text": "abcxyzACGT", "bytes": "ab01", "protein_with_stop": "ACDEFGHIKL*"}
NAMES = ["s1", "seq-2", "A b", "x.y|z", "S1"]


def rstr(rng, alpha, n):
    return "".join(rng.choice(alpha) for _ in range(n))


def rbound(rng, n):
    r = rng.random()
    if r < 0.2:
        return None
    return rng.randint(-n - 2, n + 2)


def rslice(rng, n):
    c = rng.choice([None, None, 1, 1, 2, 3, -1, -1, -2, -3, 5])
    return ["slice", rbound(rng, n), rbound(rng, n), c]


def seq_ops(rng, n, moltype, new, depth=None):
    ops = []
    depth = rng.choice([0, 1, 1, 2, 2, 3, 4, 6]) if depth is None else depth
    for _ in range(depth):
        r = rng.random()
        if r < 0.45:
            ops.append(rslice(rng, n))
        elif r < 0.6 and moltype in ("dna", "rna"):
            ops.append(["rc"])
        elif r < 0.65:
            ops.append(["index", rng.randint(-n, n)])
        elif r < 0.72 and moltype in ("dna", "rna"):
            ops.append([rng.choice(["to_rna", "to_dna"])])
        elif r < 0.8:
            ops.append([rng.choice(["copy", "copy_unsliced", "deepcopy"])])
        elif r < 0.85:
            ops.append(["rename", rng.choice(NAMES)])
        elif r < 0.9:
            ops.append(["info", rng.choice(["k", "note"]), rng.choice([1, "v", [1, 2], {"a": 1.5}])])
        elif r < 0.95:
            ops.append(["json"])
        else:
            ops.append(["degap"])
    return ops


def rand_seq(rng, new=None):
    new = rng.random() < 0.5 if new is None else new
    mt = rng.choice(["dna", "dna", "dna", "rna", "protein", "text", "protein_with_stop", "bytes"])
    n = rng.choice([0, 1, 2, 5, 8, 12, 20])
    s = rstr(rng, ALPHA[mt], n)
    if n > 3 and rng.random() < 0.15:
        i = rng.randint(0, n - 2)
        s = s[:i] + "-" + s[i + 1:]
    p = dict(seq=s, name=rng.choice(NAMES + [None]), moltype=mt, offset=rng.choice([0, 0, 0, 3, 17, 1000]), new=new,
             ops=seq_ops(rng, max(n, 1), mt, new))
    if rng.random() < 0.3:
        p["info"] = rng.choice([{"x": 3}, {"note": "abc", "n": [1, 2]}])
    return dict(gen="seq", p=p, block="random")


BOUNDS = [None, -6, -3, -1, 0, 1, 2, 4, 5, 7]
STEPS = [None, 1, 2, 3, -1, -2, -3]


def exhaustive_seq_block(tier, rng):
    """one slice (every bound class x every step) of a 5-letter sequence with an offset, alone / after rc / before rc /
    then a second slice; both implementations"""
    cases = []
    base = "ACGTN"
    for new in (False, True):
        for a, b, c in itertools.product(BOUNDS, BOUNDS, STEPS):
            for shape in ("s", "rs", "sr", "ss"):
                ops = [["slice", a, b, c]]
                if shape == "rs":
                    ops = [["rc"]] + ops
                elif shape == "sr":
                    ops = ops + [["rc"]]
                elif shape == "ss":
                    ops = ops + [["slice", 1, None, -1]]
                cases.append(dict(gen="seq", p=dict(seq=base, name="s1", moltype="dna", offset=3, new=new, ops=ops), block="exhaustive"))
    if tier == "quick":
        cases = cases[:: 12]
    return cases


def rand_view(rng):
    n = rng.choice([0, 1, 3, 6, 10])
    ops = [rslice(rng, max(n, 1)) for _ in range(rng.choice([0, 1, 1, 2, 3]))]
    return dict(gen="view", p=dict(seq=rstr(rng, "ACGT", n), name=rng.choice(["v", None]), offset=rng.choice([0, 0, 4]), new=rng.random() < 0.5, ops=ops), block="random")


def rand_gapped(rng, n, alpha="ACGT", pgap=0.25):
    out = []
    i = 0
    while i < n:
        if rng.random() < pgap:
            k = min(n - i, rng.choice([1, 1, 2, 3]))
            out.append("-" * k)
            i += k
        else:
            out.append(rng.choice(alpha))
            i += 1
    s = "".join(out)
    if set(s) == {"-"}:
        s = rng.choice(alpha) + s[1:]
    return s


def rand_aln_seqs(rng, aligned=True, mt="dna"):
    nseq = rng.choice([1, 2, 3, 3, 4])
    n = rng.choice([1, 3, 6, 9, 12])
    alpha = ALPHA[mt][:4] if mt in ("dna", "rna") else ALPHA[mt]
    names = rng.sample(["a", "b", "c", "d", "seq-5", "x y"], nseq)
    if aligned:
        return {nm: rand_gapped(rng, n, alpha) for nm in names}
    return {nm: rstr(rng, alpha, rng.choice([1, 3, 6, 9])) for nm in names}


def aln_ops(rng, names, n, cls, mt):
    ops = []
    for _ in range(rng.choice([0, 1, 1, 2, 3, 4])):
        r = rng.random()
        if cls in ("aln", "array") and r < 0.3:
            a, b = sorted([rng.randint(0, n), rng.randint(0, n)])
            ops.append(["slice", rng.choice([a, None, -rng.randint(1, n)]), rng.choice([b, None]), rng.choice([None, None, 1, 2, 3]) if cls == "array" else None])
        elif r < 0.45 and mt in ("dna", "rna"):
            ops.append(["rc"])
        elif r < 0.55:
            k = rng.randint(1, len(names))
            ops.append(["take_seqs", rng.sample(names, k)])
        elif r < 0.6 and cls in ("aln", "array"):
            ops.append(["take_positions", sorted(rng.sample(range(n), min(n, rng.randint(1, 3))))])
        elif r < 0.65:
            ops.append(["degap"])
        elif r < 0.7 and cls in ("aln", "array"):
            ops.append(["omit_gap_pos", rng.choice([0.0, 0.5])])
        elif r < 0.75 and mt in ("dna", "rna"):
            ops.append([rng.choice(["to_rna", "to_dna"])])
        elif r < 0.8:
            ops.append(["rename", {names[0]: names[0] + "_r"}])
        elif r < 0.9 and cls in ("aln", "coll"):
            sid = rng.choice(names + [None]) if cls == "aln" else rng.choice(names)
            a = rng.randint(0, max(0, n - 2))
            ops.append(["feature", sid, rng.choice(["gene", "exon"]), rng.choice(["f1", "f2"]), [[a, a + rng.randint(1, 3)]]])
        elif r < 0.93:
            ops.append(["info", "k", rng.choice([1, "v"])])
        elif r < 0.96 and cls in ("aln", "array"):
            ops.append(["to_type", cls != "array"])
        else:
            ops.append([rng.choice(["copy", "deepcopy", "json"])])
    return ops


def rand_aln(rng, cls=None):
    cls = cls or rng.choice(["aln", "aln", "array", "coll", "ncoll"])
    mt = rng.choice(["dna", "dna", "rna", "protein", "text"]) if cls != "ncoll" else rng.choice(["dna", "rna", "protein", "text"])
    seqs = rand_aln_seqs(rng, aligned=cls in ("aln", "array"), mt=mt)
    n = len(next(iter(seqs.values())))
    p = dict(cls=cls, moltype=mt, seqs=seqs, ops=aln_ops(rng, list(seqs), n, cls, mt))
    if rng.random() < 0.3:
        p["info"] = {"k": 1, "note": "x"}
    return dict(gen="aln", p=p, block="random")


def rand_aligned(rng):
    mt = rng.choice(["dna", "dna", "rna", "text"])
    seqs = rand_aln_seqs(rng, True, mt)
    n = len(next(iter(seqs.values())))
    ops = []
    for _ in range(rng.choice([0, 1, 1, 2])):
        if rng.random() < 0.7:
            a, b = sorted([rng.randint(0, n), rng.randint(0, n)])
            ops.append(["slice", a, b, None])
        elif mt != "text":
            ops.append(["rc"])
    row_ops = []
    for _ in range(rng.choice([0, 0, 1, 2])):
        if rng.random() < 0.6:
            a, b = sorted([rng.randint(0, n), rng.randint(0, n)])
            row_ops.append(["slice", a, b])
        elif mt != "text":
            row_ops.append(["rc"])
    return dict(gen="aligned", p=dict(moltype=mt, seqs=seqs, ops=ops, row=rng.randint(0, 3), row_ops=row_ops), block="random")


def exhaustive_aligned_block(tier):
    """every gap layout of length 4 (with >= 1 residue) x every slice [a:b], optionally reverse complemented"""
    cases = []
    for mask in itertools.product("A-", repeat=4):
        s = "".join(mask)
        if "A" not in s:
            continue
        s2 = "".join("C" if ch == "A" and i % 2 else ch for i, ch in enumerate(s)).replace("A", "G", 1) if s.count("A") > 1 else s
        for a in range(0, 5):
            for b in range(a, 5):
                for rc in (False, True):
                    ops = [["slice", a, b, None]] + ([["rc"]] if rc else [])
                    cases.append(dict(gen="aligned", p=dict(moltype="dna", seqs={"x": s2, "y": "ACGT"}, ops=ops, row=0, row_ops=[]), block="exhaustive"))
    if tier == "quick":
        cases = cases[::4]
    return cases


def rand_imap(rng):
    if rng.random() < 0.65:
        plen = rng.choice([0, 1, 4, 8, 12])
        k = rng.randint(0, min(3, plen + 1))
        gp = sorted(rng.sample(range(0, plen + 1), k))
        gl = [rng.randint(1, 3) for _ in gp]
        alen = plen + sum(gl)
        ops = []
        for _ in range(rng.choice([0, 1, 1, 2, 3])):
            r = rng.random()
            if r < 0.5 and alen:
                a, b = sorted([rng.randint(0, alen), rng.randint(0, alen)])
                ops.append(["slice", a, b])
            elif r < 0.65:
                ops.append(["reversed"])
            elif r < 0.75:
                ops.append(["mul", rng.choice([2, 3])])
            elif r < 0.8:
                ops.append(["termini"])
            elif r < 0.85:
                ops.append(["to_fmap"])
            elif r < 0.9:
                ops.append(["json"])
            else:
                ops.append(["without_gaps"])
        return dict(gen="imap", p=dict(kind="imap", gap_pos=gp, gap_lengths=gl, plen=plen, termini_unknown=rng.random() < 0.15, ops=ops), block="random")
    plen = rng.choice([6, 10, 15])
    k = rng.randint(1, 3)
    pts = sorted(rng.sample(range(0, plen + 1), 2 * k))
    locs = [[pts[2 * i], pts[2 * i + 1]] for i in range(k)]
    ops = []
    for _ in range(rng.choice([0, 1, 1, 2])):
        ops.append([rng.choice(["reversed", "covered", "shadow", "without_gaps", "json", "mul"]), 3])
    return dict(gen="imap", p=dict(kind="fmap", locations=locs, plen=plen, ops=ops), block="random")


def span_cases():
    out = []
    # the module-level LostSpan cache: a feature map built AFTER an indel map with a gap of the same length was used
    out.append(dict(gen="imap", p=dict(kind="fmap", locations=[[997, 999]], plen=1000, ops=[["prime_lost", 997], ["shadow", 0]]), block="enum"))
    out.append(dict(gen="imap", p=dict(kind="fmap", locations=[[996, 999]], plen=1000, ops=[["prime_lost", 996], ["inverse", 0]]), block="enum"))
    out.append(dict(gen="imap", p=dict(kind="fmap", locations=[[995, 999]], plen=1000, ops=[["shadow", 0]]), block="enum"))
    # a feature map made from an indel map carries numpy integers
    out.append(dict(gen="imap", p=dict(kind="imap", gap_pos=[1], gap_lengths=[2], plen=4, ops=[["to_fmap"]]), block="enum"))
    out.append(dict(gen="imap", p=dict(kind="imap", gap_pos=[0, 3], gap_lengths=[1, 2], plen=6, ops=[["slice", 1, 7], ["to_fmap"]]), block="enum"))
    for (a, b, rev, val) in [(2, 7, False, None), (2, 7, True, None), (0, 0, False, None), (3, 9, True, "v"), (1, 4, False, 5)]:
        out.append(dict(gen="span", p=dict(kind="span", start=a, end=b, reverse=rev, value=val), block="enum"))
        out.append(dict(gen="span", p=dict(kind="span", start=a, end=b, reverse=rev, value=val, ops=[["mul", 3]]), block="enum"))
        out.append(dict(gen="span", p=dict(kind="span", start=a, end=b, reverse=rev, value=val, ops=[["reversed_relative_to", 20]]), block="enum"))
    for L in (0, 1, 5):
        out.append(dict(gen="span", p=dict(kind="lost", length=L), block="enum"))
        out.append(dict(gen="span", p=dict(kind="pad", length=L, value="x"), block="enum"))
    return out


def rand_newick(rng, tips, lengths=True, names=True):
    nodes = list(tips)
    k = 0
    def lab(x):
        return x
    while len(nodes) > 1:
        m = rng.choice([2, 2, 2, 3]) if len(nodes) > 2 else 2
        m = min(m, len(nodes))
        picked = [nodes.pop(rng.randrange(len(nodes))) for _ in range(m)]
        inner = "(" + ",".join(picked) + ")"
        if len(nodes) > 0:
            k += 1
            if names and rng.random() < 0.6:
                inner += f"n{k}"
            if lengths and rng.random() < 0.9:
                inner += f":{rng.choice([0.1, 0.25, 1.0, 2.5, 0.0, 1e-6, 3])}"
        nodes.append(inner)
    return nodes[0] + ";"


def rand_tree(rng):
    nt = rng.choice([2, 3, 4, 5, 7])
    tips = [f"t{i}" for i in range(nt)]
    lengths = rng.random() < 0.8
    tipstr = [t + (f":{rng.choice([0.1, 0.5, 1.0, 2.0, 0.0])}" if lengths and rng.random() < 0.9 else "") for t in tips]
    nw = rand_newick(rng, tipstr, lengths)
    ops = []
    for _ in range(rng.choice([0, 1, 1, 2, 3])):
        r = rng.random()
        if r < 0.25:
            ops.append(["param", rng.choice(tips), rng.choice(["kappa", "omega", "note"]), rng.choice([2.5, 1, "x", [1, 2]])])
        elif r < 0.35:
            ops.append(["rooted_with_tip", rng.choice(tips)])
        elif r < 0.45:
            ops.append([rng.choice(["unrooted", "unrooted_deepcopy", "bifurcating"])])
        elif r < 0.55:
            ops.append(["sorted"])
        elif r < 0.65 and nt > 3:
            ops.append(["get_sub_tree", rng.sample(tips, rng.randint(3, nt))])
        elif r < 0.7:
            ops.append(["midpoint"])
        elif r < 0.75:
            ops.append(["name_unnamed"])
        elif r < 0.8:
            ops.append(["set_length", rng.choice(tips), rng.choice([0.3, 7, None])])
        elif r < 0.85:
            ops.append(["scale"])
        elif r < 0.9:
            ops.append(["rename", {tips[0]: "renamed"}])
        else:
            ops.append([rng.choice(["copy", "deepcopy", "json", "prune"])])
    return dict(gen="tree", p=dict(newick=nw, ops=ops), block="random")


def rand_table(rng):
    ncol = rng.choice([1, 2, 3, 4])
    nrow = rng.choice([0, 1, 2, 5])
    header = rng.sample(["a", "b", "c", "d e", "x"], ncol)
    kinds = [rng.choice(["int", "float", "str", "mixed", "bool"]) for _ in header]
    def cell(k):
        if k == "int":
            return rng.randint(-5, 100)
        if k == "float":
            return rng.choice([0.5, 1.25, -3.75, 1e-9, 123456.789, 2.0])
        if k == "str":
            return rng.choice(["x", "yy", "a,b", "", "Z z", "1"])
        if k == "bool":
            return rng.random() < 0.5
        return rng.choice([1, 2.5, "s", None])
    rows = [[cell(k) for k in kinds] for _ in range(nrow)]
    p = dict(header=header, rows=rows)
    if rng.random() < 0.5:
        p["title"] = rng.choice(["T", "a title"])
    if rng.random() < 0.4:
        p["legend"] = "some legend"
    if rng.random() < 0.3:
        p["digits"] = rng.choice([1, 3, 6])
    if rng.random() < 0.2:
        p["space"] = rng.choice([2, 8])
    if rng.random() < 0.3 and nrow and kinds[0] in ("int", "str") and len({str(r[0]) for r in rows}) == nrow:
        p["index_name"] = header[0]
    if rng.random() < 0.15:
        p["missing_data"] = "NA"
    if rng.random() < 0.15:
        p["max_width"] = 40
    if rng.random() < 0.15:
        p["column_templates"] = {header[0]: "%s"}
    if rng.random() < 0.2:
        p["as_dict"] = True
    ops = []
    for _ in range(rng.choice([0, 0, 1, 1, 2, 3])):
        r = rng.random()
        c = rng.choice(header)
        if r < 0.2:
            ops.append(["sorted", [c], rng.choice([None, [c]])])
        elif r < 0.3:
            ops.append(["get_columns", rng.sample(header, rng.randint(1, ncol))])
        elif r < 0.4:
            ops.append(["slice_rows", 0, max(0, nrow - 1)])
        elif r < 0.5:
            ops.append(["with_new_column", "new", c])
        elif r < 0.58:
            ops.append(["with_new_header", c, c + "2"])
        elif r < 0.65:
            ops.append(["format_column", c, "%s"])
        elif r < 0.7:
            ops.append(["set_title", "new title"])
        elif r < 0.75:
            ops.append(["set_legend", "new legend"])
        elif r < 0.8:
            ops.append(["appended", "src"])
        elif r < 0.85:
            ops.append(["set_repr_policy", 2, 1])
        elif r < 0.9:
            ops.append(["joined", [c]])
        elif r < 0.95:
            ops.append(["json"])
        else:
            ops.append(["transposed", "h", c])
    p["ops"] = ops
    return dict(gen="table", p=p, block="random")


def table_route_cases(rng, n):
    """tables obtained from other objects (every route of the library that returns a Table), then table operations;
    boundary header / index values: "" and None"""
    out = []
    def add(**p):
        out.append(dict(gen="table", p=p, block="enum"))
    seqs = {"a": "ACGTTA", "b": "ACGGTA", "c": "ATGGTC"}
    lf = dict(model="HKY85", tree=TREE3, aln=ALN3, ops=[["rule", dict(par_name="kappa", init=2.5)]])
    lf4 = dict(model="GTR", tree=TREE4, aln=ALN4, ops=[["rule", dict(par_name="length", edges=["a", "b"], is_independent=False)]])
    add(route="darr", names=[["a", "b"], ["x", "y", "z"]], array=[[1, 2, 3], [4, 5, 6]], header=[], rows=[])
    add(route="darr", names=[["a", "b"], ["x", "y"]], array=[[1, 2], [4, 5]], dtype="int", header=[], rows=[], ops=[["sorted", ["x"], None]])
    add(route="darr", names=[["r"], ["x", "y"]], array=[[0.5, 0.25]], header=[], rows=[], ops=[["set_title", "t"]])
    add(route="darr", names=[[0, 1], [0, 1]], array=[[1, 2], [3, 4]], header=[], rows=[])
    add(route="dmat", dists=[[["a", "b"], 0.1], [["b", "a"], 0.1], [["a", "c"], 0.3], [["c", "a"], 0.3], [["b", "c"], 0.2], [["c", "b"], 0.2]], header=[], rows=[])
    for r in ("counts_per_seq", "counts_per_pos", "probs_per_pos", "pssm", "aln_dmat", "entropy"):
        add(route=r, seqs=seqs, header=[], rows=[])
        add(route=r, seqs=seqs, header=[], rows=[], ops=[["slice_rows", 0, 2], ["json"]])
    for w in range(3):
        add(route="lf_stats", lf=lf, which=w, header=[], rows=[])
        add(route="lf_stats", lf=lf4, which=w, header=[], rows=[])
    add(route="count_unique", header=["k", "v"], rows=[["x", 1], ["y", 2], ["x", 3]])
    add(route="db_counts", header=[], rows=[])
    # boundary values made directly
    add(header=["", "a"], rows=[["r1", 1], ["r2", 2]], index_name="")
    add(header=["", "a"], rows=[["r1", 1], ["r2", 2]])
    add(header=["a", ""], rows=[[1, "x"], [2, "y"]], index_name="a", title="")
    add(header=["a", "b"], rows=[[0, 0.0], [1, 0.0]], index_name="a", legend="", ops=[["set_title", ""]])
    add(header=["a", "b"], rows=[["", 0], ["x", 1]], index_name="a")
    add(header=["0", "1"], rows=[[0, False], [1, True]], index_name="0", digits=0, space=0) if False else None
    add(header=["a"], rows=[], index_name=None)
    add(header=[], rows=[])
    for _ in range(n):
        k = rng.choice([2, 3])
        rows_ = rng.sample(["a", "b", "c", "", "r 1"], k)
        cols_ = rng.sample(["x", "y", "z", "w"], rng.choice([1, 2, 3]))
        arr = [[rng.choice([0, 1, 2.5, -1]) for _ in cols_] for _ in rows_]
        ops = []
        for _ in range(rng.choice([0, 1, 2])):
            ops.append(rng.choice([["sorted", [cols_[0]], None], ["slice_rows", 0, k - 1], ["get_columns", ["", cols_[-1]]], ["json"], ["set_title", "T"],
                                   ["with_new_column", "n", cols_[0]], ["with_new_header", cols_[0], "q"]]))
        add(route="darr", names=[rows_, cols_], array=arr, header=[], rows=[], ops=ops)
    return [c for c in out if c is not None]


def boundary_cases():
    """falsy values that are not None, for every modelled decoder: empty name, zero offset, empty info, no spans, 0.0 lengths"""
    out = []
    for new in (False, True):
        for nm in ("", None, "0"):
            for off in (0, 1):
                out.append(dict(gen="seq", p=dict(seq="ACGTAC", name=nm, moltype="dna", offset=off, new=new, ops=[["slice", 0, None, None]]), block="enum"))
                out.append(dict(gen="seq", p=dict(seq="", name=nm, moltype="dna", offset=off, new=new, ops=[]), block="enum"))
        out.append(dict(gen="seq", p=dict(seq="ACGTAC", name="s", moltype="dna", offset=0, new=new, info={}, ops=[["info", "k", 0], ["info", "e", ""]]), block="enum"))
        out.append(dict(gen="seq", p=dict(seq="ACGTAC", name="s", moltype="dna", offset=0, new=new, ops=[["info", "z", None]]), block="enum"))
    out.append(dict(gen="imap", p=dict(kind="fmap", locations=[], plen=5, ops=[]), block="enum"))
    out.append(dict(gen="imap", p=dict(kind="fmap", locations=[], plen=0, ops=[]), block="enum"))
    out.append(dict(gen="imap", p=dict(kind="fmap", locations=[[0, 0]], plen=3, ops=[]), block="enum"))
    out.append(dict(gen="imap", p=dict(kind="imap", gap_pos=[], gap_lengths=[], plen=0, ops=[]), block="enum"))
    out.append(dict(gen="imap", p=dict(kind="imap", gap_pos=[0], gap_lengths=[1], plen=0, ops=[]), block="enum"))
    out.append(dict(gen="aligned", p=dict(moltype="dna", seqs={"x": "----", "y": "ACGT"}, ops=[], row=0, row_ops=[]), block="enum"))
    out.append(dict(gen="aligned", p=dict(moltype="dna", seqs={"x": "A---", "y": "ACGT"}, ops=[["slice", 1, 4, None]], row=0, row_ops=[]), block="enum"))
    out.append(dict(gen="aln", p=dict(cls="aln", moltype="dna", seqs={"a": "AC-T", "b": "ACGT"}, info={}, ops=[["slice", 0, 0, None]]), block="enum"))
    out.append(dict(gen="aln", p=dict(cls="aln", moltype="dna", seqs={"a": "AC-T", "b": "ACGT"}, ops=[["info", "k", 0]]), block="enum"))
    out.append(dict(gen="tree", p=dict(newick="((a:0.0,b:0):0.0,c:0.0);", ops=[]), block="enum"))
    out.append(dict(gen="tree", p=dict(newick="((a:1,b:2)ab:3,c:4);", ops=[["param", "a", "kappa", 0], ["param", "b", "flag", False], ["param", "c", "note", ""], ["set_length", "a", 0.0]]), block="enum"))
    out.append(dict(gen="tree", p=dict(newick="(a,b);", ops=[]), block="enum"))
    for (t, o, m, s_) in [("", "", "", ""), ("ERROR", "o", "m", ""), ("FALSE", "o", "", None), ("ERROR", "0", "0", "0")]:
        out.append(dict(gen="result", p=dict(kind="nc", type=t, origin=o, message=m, source=s_), block="enum"))
    out.append(dict(gen="darr", p=dict(kind="darr", names=[["", "b"], [0, 1]], array=[[0, 0], [0, 1]], dtype="int"), block="enum"))
    out.append(dict(gen="darr", p=dict(kind="darr", names=[[""]], array=[0.0]), block="enum"))
    out.append(dict(gen="darr", p=dict(kind="dmat", dists=[[["a", "b"], 0.0], [["b", "a"], 0.0]]), block="enum"))
    # NOT symmetric: built from an asymmetric dict of pairs / edited in place / calculator output edited; every cell both ways
    asym = [[["a", "b"], 1.0], [["b", "a"], 7.5], [["a", "c"], 2.0], [["c", "a"], 9.0], [["b", "c"], 3.0], [["c", "b"], "nan"]]
    sym = [[["a", "b"], 0.1], [["b", "a"], 0.1], [["a", "c"], 0.3], [["c", "a"], 0.3], [["b", "c"], 0.2], [["c", "b"], 0.2]]
    out.append(dict(gen="darr", p=dict(kind="dmat", dists=asym), block="enum"))
    out.append(dict(gen="darr", p=dict(kind="dmat", dists=asym, ops=[["json"], ["setitem", "a", "b", 4.0]]), block="enum"))
    out.append(dict(gen="darr", p=dict(kind="dmat", dists=sym, ops=[["setitem", "c", "a", 7.5]]), block="enum"))
    out.append(dict(gen="darr", p=dict(kind="dmat", dists=sym, ops=[["setitem", "c", "a", "nan"], ["take_dists", ["a", "c"], False]]), block="enum"))
    out.append(dict(gen="darr", p=dict(kind="dmat_aln", seqs={"a": "ACGTACGT", "b": "ACGAACGT", "c": "TCGAACGA"}, calc="pdist", ops=[["setitem", "c", "a", 7.5]]), block="enum"))
    out.append(dict(gen="darr", p=dict(kind="dmat_aln", seqs={"a": "ACGTACGT", "b": "ACGAACGT", "c": "TCGAACGA"}, calc="jc69", ops=[["setitem", "a", "b", 0.0]]), block="enum"))
    out.append(dict(gen="darr", p=dict(kind="dmat_array", names=["a", "b", "c"], array=[[0, 1, 2], [7.5, 0, 3], [9, 8, 0]]), block="enum"))
    out.append(dict(gen="darr", p=dict(kind="darr", names=[["a", "b", "c"], ["a", "b", "c"]], array=[[0, 1, 2], [7.5, 0, 3], [9, 8, 0]]), block="enum"))
    out.append(dict(gen="darr", p=dict(kind="darr", names=[["a", "b"], ["a", "b"]], array=[[1, 2], [3, 4]], dtype="int", ops=[["T"]]), block="enum"))
    held = {"$": dict(gen="dmat", p=dict(dists=asym))}
    held2 = {"$": dict(gen="dmat", p=dict(dists=sym, set=[["c", "a", 7.5]]))}
    out.append(dict(gen="result", p=dict(kind="generic", source="x.fa", items=[["dm", held], ["dm2", held2]]), block="enum"))
    out.append(dict(gen="result", p=dict(kind="tabular", source="x.fa", items=[["dm", held], ["dm2", held2]]), block="enum"))
    out.append(dict(gen="darr", p=dict(kind="dmat_array", names=["c", "a", "b"], array=[[0, 1, 2], [1, 0, 3], [2, 3, 0]]), block="enum"))
    out.append(dict(gen="darr", p=dict(kind="dmat_array", names=["a", "b"], array=[[5, 1], [1, 0]]), block="enum"))
    out.append(dict(gen="darr", p=dict(kind="dmat_array", names=["a", "b", "c"], array=[[0, 1, 2.5], [1.5, 0, 3], [2, 3, 0]]), block="enum"))
    out.append(dict(gen="darr", p=dict(kind="dmat_array", names=["b", "B", "a b", ""], array=[[0, 1, 2, 3], [1, 0, 4, 5], [2, 4, 0, 6], [3, 5, 6, 0]]), block="enum"))
    out.append(dict(gen="lf", p=dict(model="HKY85", tree=TREE3, aln=ALN3, name="", ops=[["rule", dict(par_name="kappa", is_constant=True, value=1.0)]]), block="enum"))
    out.append(dict(gen="lf", p=dict(model="HKY85", tree=TREE3, aln=ALN3, ops=[["lengths", {"a": 0.0}], ["rule", dict(par_name="kappa", init=1e-6, lower=0.0)]]), block="enum"))
    out.append(dict(gen="db", p=dict(kind="basic", ops=[]), block="enum"))
    out.append(dict(gen="db", p=dict(kind="basic", ops=[["add", dict(seqid="", biotype="", name="", spans=[[0, 0]], strand=None)]]), block="enum"))
    out.append(dict(gen="seq_db", p=dict(seq="ACGTACGT", name="s", moltype="dna", offset=0, features=[dict(biotype="gene", name="", spans=[[0, 1]], strand=None)], ops=[]), block="enum"))
    return out


def rand_darr(rng):
    r = rng.random()
    if r < 0.35:
        nd = rng.choice([1, 2, 2, 3])
        dims = [rng.sample(["a", "b", "c", "d"], rng.randint(1, 3)) for _ in range(nd)]
        def build(d):
            if d == nd:
                return rng.choice([0.5, 1, 2.25, -1.5, 1e-12, 3])
            return [build(d + 1) for _ in dims[d]]
        ops = []
        if rng.random() < 0.4:
            ops.append(["getitem", rng.choice(dims[0])])
        if nd == 2 and rng.random() < 0.3:
            ops.append(rng.choice([["to_normalized", True], ["T"], ["row_sum"], ["col_sum"]]))
        if rng.random() < 0.15:
            ops.append(["json"])
        return dict(gen="darr", p=dict(kind="darr", names=dims, array=build(0), dtype=rng.choice(["float", "int"]), ops=ops), block="random")
    if r < 0.7:
        names = rng.sample(["a", "b", "c", "d", "e"], rng.choice([2, 3, 4]))
        dists = []
        vals = [0.1, 0.25, 0.0, 1.5, 0.3333333333333333, 7.5, 2.0]
        shape = rng.choice(["sym", "sym", "asym", "asym", "upper", "lower"])
        for i, x in enumerate(names):
            for y in names[i + 1:]:
                v = rng.choice(vals)
                w = v if shape == "sym" else rng.choice(vals + ["nan"])
                if shape in ("sym", "asym"):
                    dists += [[[x, y], v], [[y, x], w]]        # asym: the two triangles are independent
                elif shape == "upper":
                    dists += [[[x, y], v]]                       # one triangle only: the constructor mirrors it
                else:
                    dists += [[[y, x], v]]
        ops = []
        if rng.random() < 0.4:
            # a matrix edited in place afterwards: one cell, not its mirror
            a, b = rng.sample(names, 2)
            ops.append(["setitem", a, b, rng.choice(vals + ["nan"])])
        if rng.random() < 0.4:
            ops.append(["take_dists", rng.sample(names, rng.randint(2, len(names))), rng.random() < 0.3])
        if rng.random() < 0.2:
            ops.append(["json"])
        return dict(gen="darr", p=dict(kind="dmat", dists=dists, ops=ops), block="random")
    if r < 0.85:
        seqs = {nm: rstr(rng, "ACGT", 8) for nm in ["a", "b", "c"]}
        if rng.random() < 0.4:
            seqs["c"] = "-" * 8 if rng.random() < 0.5 else "NNNNNNNN"
        ops = [["drop_invalid"]] if rng.random() < 0.3 else []
        if rng.random() < 0.5:
            ops.append(["setitem", rng.choice(["a", "b"]), rng.choice(["b", "a"]), rng.choice([7.5, 0.125, "nan"])])   # calculator output, then edited
            if rng.random() < 0.3:
                ops.append(["json"])
        return dict(gen="darr", p=dict(kind="dmat_aln", seqs=seqs, calc=rng.choice(["pdist", "jc69", "tn93", "paralinear", "logdet"]), ops=ops), block="random")
    seqs = {nm: rstr(rng, "ACGT", 6) for nm in ["a", "b", "c"]}
    return dict(gen="darr", p=dict(kind="profile", what=rng.choice(["counts", "probs", "counts_seq", "pssm"]), seqs=seqs), block="random")


def alpha_cases(tier):
    out = []
    for lab in ["dna", "rna", "protein", "protein_with_stop", "text", "bytes"]:
        out.append(dict(gen="alpha", p=dict(kind="old_moltype", label=lab), block="enum"))
        for how in [None, "degen", "gapped", "degen_gapped", "with_gap"] if lab not in ("text", "bytes") else [None]:
            out.append(dict(gen="alpha", p=dict(kind="old_alpha", label=lab, how=how), block="enum"))
    for lab in ["dna", "rna", "protein"]:
        for k in (2, 3):
            if lab == "protein" and k == 3:
                continue
            out.append(dict(gen="alpha", p=dict(kind="old_alpha", label=lab, how="word", k=k), block="enum"))
            out.append(dict(gen="alpha", p=dict(kind="old_alpha", label=lab, how="gapped_word", k=k), block="enum"))
    out.append(dict(gen="alpha", p=dict(kind="old_alpha", label="dna", how="subset", motifs=["A", "C"]), block="enum"))
    out.append(dict(gen="alpha", p=dict(kind="old_alpha", label="dna", how="subset", motifs=["A"], excluded=True), block="enum"))
    out.append(dict(gen="alpha", p=dict(kind="old_alpha", label="dna", how="word_subset", motifs=["AA", "CG"]), block="enum"))
    gcs = [1, 2, 4, 11] if tier == "quick" else list(range(1, 7)) + [9, 10, 11, 12, 13, 14, 15, 16, 21, 22, 23, 24, 25, 26]
    for gc in gcs:
        out.append(dict(gen="alpha", p=dict(kind="gc", gc=gc), block="enum"))
        out.append(dict(gen="alpha", p=dict(kind="ngc", gc=gc), block="enum"))
        for st in (False, True):
            out.append(dict(gen="alpha", p=dict(kind="old_alpha", label="dna", how="codon", gc=gc, include_stop=st), block="enum"))
            out.append(dict(gen="alpha", p=dict(kind="new_alpha", label="dna", how="codon", gc=gc, include_gap=st), block="enum"))
    for lab in ["dna", "rna", "protein", "protein_with_stop", "text", "bytes"]:
        out.append(dict(gen="alpha", p=dict(kind="new_moltype", label=lab), block="enum"))
        for how in [None, "degen", "gapped", "degen_gapped", "most_degen"] if lab not in ("text", "bytes") else [None, "most_degen"]:
            out.append(dict(gen="alpha", p=dict(kind="new_alpha", label=lab, how=how), block="enum"))
    for lab in ["dna", "rna", "protein"]:
        for k in (1, 2, 3):
            if lab == "protein" and k == 3:
                continue
            for g in (False, True):
                out.append(dict(gen="alpha", p=dict(kind="new_alpha", label=lab, how="kmer", k=k, include_gap=g), block="enum"))
                out.append(dict(gen="alpha", p=dict(kind="new_alpha", label=lab, how="gapped_kmer", k=k, include_gap=g), block="enum"))
    out.append(dict(gen="alpha", p=dict(kind="new_alpha", label="dna", how="custom", chars="ab-?", gap="-", missing="?"), block="enum"))
    out.append(dict(gen="alpha", p=dict(kind="new_alpha", label="dna", how="custom", chars="xyz"), block="enum"))
    return out


MODELS = ['BH', 'DT', 'GN', 'ssGN', 'K80', 'JC69', 'GTR', 'TN93', 'HKY85', 'F81', 'CNFGTR', 'CNFHKY', 'MG94HKY', 'MG94GTR', 'GY94',
          'Y98', 'H04G', 'H04GK', 'H04GGK', 'GNC', 'DSO78', 'JTT92', 'AH96', 'AH96_mtmammals', 'WG01']
NUC_TR = ['K80', 'JC69', 'GTR', 'TN93', 'HKY85', 'F81']


def sm_cases(tier):
    out = [dict(gen="sm", p=dict(name=m, kw={}), block="enum") for m in MODELS]
    kws = [dict(optimise_motif_probs=True), dict(with_rate=True, distribution="gamma"), dict(ordered_param="rate", with_rate=True, distribution="gamma"),
           dict(recode_gaps=False), dict(model_gaps=True), dict(equal_motif_probs=True), dict(motif_probs={"A": 0.1, "C": 0.2, "G": 0.3, "T": 0.4}),
           dict(mprob_model="monomer"), dict(partitioned_params=["kappa"], with_rate=True, ordered_param="rate", distribution="free")]
    for m in ["HKY85", "GTR", "GN", "F81"] + (["CNFGTR", "MG94HKY", "JTT92", "BH", "ssGN"] if tier != "quick" else []):
        for kw in kws:
            if "kappa" in str(kw) and m != "HKY85":
                continue
            if kw.get("motif_probs") and m in ("CNFGTR", "MG94HKY", "JTT92"):
                continue
            out.append(dict(gen="sm", p=dict(name=m, kw=kw), block="enum"))
    for m in ["CNFGTR", "MG94HKY", "GY94"]:
        out.append(dict(gen="sm", p=dict(name=m, kw=dict(gc=2)), block="enum"))
        for mp in ("tuple", "conditional", "monomer", "monomers"):
            out.append(dict(gen="sm", p=dict(name=m, kw=dict(mprob_model=mp)), block="enum"))
    out.append(dict(gen="sm", p=dict(name=None, custom=dict(cls="TimeReversibleNucleotide", kw=dict(name="mine"), predicates={"kappa": ["A", "G"]})), block="enum"))
    out.append(dict(gen="sm", p=dict(name=None, custom=dict(cls="TimeReversibleNucleotide", kw=dict(), predicates={"ag": ["A", "G"], "ct": ["C", "T"]})), block="enum"))
    out.append(dict(gen="sm", p=dict(name=None, custom=dict(cls="TimeReversibleDinucleotide", kw=dict(name="dinuc", mprob_model="tuple"), predicates=None)), block="enum"))
    out.append(dict(gen="sm", p=dict(name=None, custom=dict(cls="TimeReversibleTrinucleotide", kw=dict(name="trinuc"), predicates=None)), block="enum"))
    out.append(dict(gen="sm", p=dict(name=None, custom=dict(cls="TimeReversibleProtein", kw=dict(name="prot"), predicates=None)), block="enum"))
    for cls in ("General", "GeneralStationary"):
        out.append(dict(gen="sm", p=dict(name=None, custom=dict(mod="ns", cls=cls, alphabet="dna", kw=dict(name=cls.lower()), predicates=None)), block="enum"))
    for cls in ("NonReversibleDinucleotide", "NonReversibleTrinucleotide", "NonReversibleProtein", "DiscreteSubstitutionModel"):
        out.append(dict(gen="sm", p=dict(name=None, custom=dict(mod="ns", cls=cls, kw=dict(name=cls.lower()), predicates=None, **({"alphabet": "dna"} if cls == "DiscreteSubstitutionModel" else {}))), block="enum"))
    return out


ALN3 = {'a': 'ACGTTAGGCAATGCCA', 'b': 'ACGGTAGGTAATGCTA', 'c': 'ATGGTCGGTAACGCCA'}
ALN4 = {'a': 'ACGTTAGGCAATGCCAGT', 'b': 'ACGGTAGGTAATGCTAGT', 'c': 'ATGGTCGGTAACGCCAGA', 'd': 'ATGATCGGTTACGCCTGA'}
TREE3 = "(a:0.1,b:0.2,c:0.3);"
TREE4 = "((a:0.1,b:0.2)ab:0.05,c:0.3,d:0.15);"


def lf_cases(tier, rng):
    out = []
    def add(**p):
        out.append(dict(gen="lf", p=p, block="enum"))
    add(model="HKY85", tree=TREE3, aln=ALN3)
    add(model="HKY85", tree=TREE3, aln=ALN3, name="named-lf", ops=[["rule", dict(par_name="kappa", init=2.5)]])
    add(model="HKY85", tree=TREE4, aln=ALN4, ops=[["rule", dict(par_name="kappa", is_independent=True)], ["rule", dict(par_name="length", edges=["a", "b"], is_independent=False)]])
    add(model="HKY85", tree=TREE4, aln=ALN4, ops=[["rule", dict(par_name="kappa", edges=["a", "b"], init=3.0)], ["rule", dict(par_name="kappa", edge="c", is_constant=True, value=1.5)]])
    add(model="GTR", tree=TREE4, aln=ALN4, ops=[["optimise", 15]])
    add(model="HKY85", tree=TREE4, aln=ALN4, ops=[["rule", dict(par_name="length", is_independent=False)], ["optimise", 10]])
    add(model="HKY85", tree=TREE3, aln=ALN3, ops=[["mprobs", {"A": 0.1, "C": 0.2, "G": 0.3, "T": 0.4}]])
    add(model="HKY85", tree=TREE3, aln=ALN3, model_kw=dict(optimise_motif_probs=True), ops=[["optimise", 10]])
    add(model="GN", tree=TREE3, aln=ALN3, ops=[["optimise", 8]])
    add(model="F81", tree=TREE4, aln=ALN4, aln_ops=[["slice", 3, 15], ["rc"]], array_align=False)
    add(model="HKY85", tree=TREE4, aln=ALN4, aln_ops=[["take_seqs", ["a", "b", "c"]]], array_align=False, ops=[["rule", dict(par_name="kappa", init=4.0)]]) if False else None
    add(model="HKY85", tree=TREE4, aln=ALN4, model_kw=dict(with_rate=True, distribution="gamma", ordered_param="rate"), lf_kw=dict(bins=2),
        ops=[["rule", dict(par_name="rate_shape", init=0.7)]])
    add(model="HKY85", tree=TREE4, aln=ALN4, lf_kw=dict(bins=["lo", "hi"]), model_kw=dict(with_rate=True, distribution="free", ordered_param="rate"))
    add(model="HKY85", tree=TREE3, lf_kw=dict(loci=["l1", "l2"]), alns=[ALN3, {k: v[::-1] for k, v in ALN3.items()}],
        ops=[["rule", dict(par_name="kappa", is_independent=True, loci=["l1", "l2"])] if False else ["lnL"]])
    add(model="MG94HKY", tree=TREE3, aln={k: v[:15] for k, v in ALN3.items()}, ops=[["rule", dict(par_name="omega", init=0.5)]])
    add(model="CNFGTR", tree=TREE3, aln={k: v[:15] for k, v in ALN3.items()})
    add(model="JTT92", tree=TREE3, aln={'a': 'ACDEFGHIKL', 'b': 'ACDEYGHIKL', 'c': 'ACDEFGHLKL'}, moltype="protein")
    add(model="BH", tree=TREE3, aln=ALN3)
    add(model="HKY85", tree=TREE4, aln=ALN4, ops=[["time_het", dict(edge_sets=[dict(edges=["a", "b"], is_independent=False)])]]) if tier != "quick" else None
    add(model="HKY85", tree=TREE4, aln=ALN4, ops=[["rule", dict(par_name="kappa", init=2.0, upper=20.0, lower=0.5)], ["json"], ["rule", dict(par_name="length", edge="a", init=0.7)]])
    add(model="HKY85", tree=TREE4, aln=ALN4, ops=[["lengths", {"a": 0.33, "c": 1e-6}]])
    if tier != "quick":
        for m in ["K80", "JC69", "TN93", "ssGN", "GTR"]:
            add(model=m, tree=TREE4, aln=ALN4, ops=[["optimise", 12]])
        add(model="GNC", tree=TREE3, aln={k: v[:15] for k, v in ALN3.items()})
    add(model="H04GK", tree=TREE3, aln={k: v[:15] for k, v in ALN3.items()})
    return [c for c in out if c is not None]


def result_cases(tier):
    out = []
    def add(**p):
        out.append(dict(gen="result", p=p, block="enum"))
    for (t, o, m, s) in [("ERROR", "me", "bad", "x.fa"), ("FALSE", "app", "msg with \"quotes\"", None), ("ERROR", "o", "multi\nline", "a/b/c.fasta")]:
        add(kind="nc", type=t, origin=o, message=m, source=s)
    tbl = {"$": dict(gen="table", p=dict(header=["a", "b"], rows=[[1, 2.5], [3, 4.5]], title="t"))}
    aln = {"$": dict(gen="aln", p=dict(cls="aln", moltype="dna", seqs={'a': 'AC--GTTA', 'b': 'ACGGGT-A'}, ops=[["slice", 1, 7, None], ["rc"]]))}
    arr = {"$": dict(gen="aln", p=dict(cls="array", moltype="dna", seqs={'a': 'AC--GTTA', 'b': 'ACGGGT-A'}, ops=[["slice", 1, 7, 2]]))}
    seq = {"$": dict(gen="seq", p=dict(seq="ACGGTTAACC", name="s", moltype="dna", offset=2, ops=[["slice", 2, 9, None], ["rc"]]))}
    tree = {"$": dict(gen="tree", p=dict(newick="((a:1,b:2)ab:3,c:4);"))}
    darr = {"$": dict(gen="darr", p=dict(names=[["a", "b"], ["x", "y"]], array=[[1, 2], [3, 4]]))}
    dmat = {"$": dict(gen="dmat", p=dict(dists=[[["a", "b"], 0.1], [["b", "a"], 0.1]]))}
    add(kind="generic", source="x.fa", items=[["a", {"x": 1}], ["n", 3], ["s", "str"], ["l", [1, 2.5, "z"]]])
    add(kind="generic", source="x.fa", items=[["t", tbl], ["aln", aln], ["arr", arr], ["seq", seq], ["tree", tree], ["darr", darr], ["dmat", dmat]])
    add(kind="tabular", source="y.fa", items=[["t1", tbl], ["d", darr], ["m", dmat]])
    add(kind="tabular", source="y.fa", items=[[["k", 1], tbl]])
    lf1 = dict(model="HKY85", tree=TREE3, aln=ALN3)
    lf2 = dict(model="HKY85", tree=TREE3, aln=ALN3, ops=[["rule", dict(par_name="kappa", init=3.0)]])
    lf3 = dict(model="GTR", tree=TREE3, aln=ALN3)
    add(kind="model", source="z.fa", lf=lf2, name="m1")
    add(kind="model", source="z.fa", lf=dict(lf2, name="named"), name="m2", elapsed=1.5, stat="max")
    add(kind="model_split", source="z.fa", lfs=[lf1, lf2, lf3], name="split")
    add(kind="hypothesis", source="z.fa", null="HKY85", models=[["HKY85", lf1], ["GTR", lf3]])
    add(kind="model_collection", source="z.fa", models=[["HKY85", lf1], ["GTR", lf3]])
    add(kind="bootstrap", source="z.fa", null="HKY85", observed=[["HKY85", lf1], ["GTR", lf3]], reps=[[["HKY85", lf2], ["GTR", lf3]]])
    return out


def rand_db(rng):
    kind = rng.choice(["basic", "basic", "gff", "genbank"])
    p = dict(kind=kind, ops=[])
    if kind == "gff":
        p["gff"] = [dict(seqid=rng.choice(["s1", "s2"]), biotype=rng.choice(["gene", "CDS"]), name=f"g{i}", start=rng.randint(1, 20), end=rng.randint(21, 40),
                         strand=rng.choice(["+", "-", "."])) for i in range(rng.randint(1, 4))]
    for i in range(rng.randint(0, 4)):
        r = rng.random()
        a = rng.randint(0, 20)
        rec = dict(seqid=rng.choice(["s1", "s2"]), biotype=rng.choice(["gene", "exon"]), name=f"u{i}", spans=[[a, a + rng.randint(1, 5)]] + ([[a + 8, a + 11]] if rng.random() < 0.3 else []),
                   strand=rng.choice(["+", "-", None]))
        if r < 0.7:
            p["ops"].append(["add", rec])
        elif r < 0.8:
            p["ops"].append(["subset", dict(seqid="s1")])
        elif r < 0.9:
            p["ops"].append(["union", [rec]])
        else:
            p["ops"].append(["json"])
    return dict(gen="db", p=p, block="random")


def rand_seq_db(rng):
    n = rng.choice([10, 15, 24])
    feats = []
    for i in range(rng.randint(1, 3)):
        a = rng.randint(0, n - 4)
        spans = [[a, a + rng.randint(1, 3)]]
        if rng.random() < 0.4 and a + 6 < n:
            spans.append([a + 4, a + 6])
        feats.append(dict(biotype=rng.choice(["gene", "exon"]), name=f"f{i}", spans=spans, strand=rng.choice(["+", "-", None])))
    return dict(gen="seq_db", p=dict(seq=rstr(rng, "ACGT", n), name="s1", moltype="dna", offset=rng.choice([0, 0, 5]), features=feats,
                                     ops=seq_ops(rng, n, "dna", False, depth=rng.choice([0, 1, 2, 3]))), block="random")


def misc_cases(rng, n):
    out = []
    for _ in range(n):
        mt = rng.choice(["dna", "rna", "protein", "text", "protein_with_stop"])
        L = rng.choice([0, 1, 5, 9])
        out.append(dict(gen="misc", p=dict(kind="aseq", moltype=mt, seq=rstr(rng, ALPHA[mt].upper(), L), name=rng.choice(["s", None]),
                                           ops=[rslice(rng, max(L, 1)) for _ in range(rng.choice([0, 1, 2]))] + ([["rc"]] if mt in ("dna", "rna") and rng.random() < 0.3 else [])), block="random"))
    # (a bare TreeNode - the base class of PhyloNode - is not generated: make_tree, the parsers' default and the
    #  deserialiser all produce PhyloNode; it is listed among the uncovered types in the evidence)
    for mt in ("dna", "protein", "text"):
        seqs = {nm: rstr(rng, ALPHA[mt][:4].upper(), rng.choice([1, 4, 7])) for nm in ("a", "b", "c")}
        out.append(dict(gen="misc", p=dict(kind="seqsdata", moltype=mt, seqs=seqs, ops=[]), block="enum"))
        out.append(dict(gen="misc", p=dict(kind="seqsdata", moltype=mt, seqs=seqs, ops=([["rc"]] if mt == "dna" else []) + [["take_seqs", ["c", "a"]]]), block="enum"))
    return out


def build_cases(tier, rng, widen=1):
    q = tier == "quick"
    n = (lambda a, b: (a if q else b) * widen)
    cases = [dict(gen="inventory", p={}, block="enum")]
    cases += exhaustive_seq_block(tier, rng)
    cases += exhaustive_aligned_block(tier)
    cases += [rand_seq(rng) for _ in range(n(350, 8000))]
    cases += [rand_view(rng) for _ in range(n(150, 2000))]
    cases += [rand_aln(rng) for _ in range(n(220, 5000))]
    cases += [rand_aligned(rng) for _ in range(n(150, 3000))]
    cases += [rand_imap(rng) for _ in range(n(150, 3000))]
    cases += span_cases()
    # nodes created by an operation have no name: their edge attributes share the key None in the rich dict
    cases += [dict(gen="tree", p=dict(newick="((a:1,b:1,c:1)n1:2,d:2);", ops=[["bifurcating"]]), block="enum")]
    cases += [rand_tree(rng) for _ in range(n(120, 2400))]
    cases += [rand_table(rng) for _ in range(n(150, 3600))]
    cases += table_route_cases(rng, n(25, 400))
    cases += boundary_cases()
    cases += [rand_darr(rng) for _ in range(n(150, 2400))]
    cases += alpha_cases(tier)
    cases += sm_cases(tier)
    cases += lf_cases(tier, rng)
    cases += result_cases(tier)
    cases += [rand_db(rng) for _ in range(n(60, 1200))]
    cases += [rand_seq_db(rng) for _ in range(n(100, 2400))]
    cases += misc_cases(rng, n(60, 800))
    return cases


# ------------------------------------------------------------------ oracle: observation before = observation after

TOL = 1e-9


def same(a, b, path=""):
    """None if equal (floats within TOL relative/absolute), else the path of the first difference"""
    if isinstance(a, bool) or isinstance(b, bool):
        return None if a is b or (a == b and type(a) is type(b)) else path or "."
    if isinstance(a, (int, float)) and isinstance(b, (int, float)):
        if isinstance(a, float) or isinstance(b, float):
            return None if abs(a - b) <= TOL * max(1.0, abs(a), abs(b)) else path or "."
        return None if a == b else path or "."
    if type(a) is not type(b):
        return path or "."
    if isinstance(a, dict):
        if set(a) != set(b):
            k = sorted(set(a) ^ set(b))[0]
            return f"{path}/{k}"
        for k in a:
            d = same(a[k], b[k], f"{path}/{k}")
            if d:
                return d
        return None
    if isinstance(a, list):
        if len(a) != len(b):
            return path or "."
        for i, (x, y) in enumerate(zip(a, b)):
            d = same(x, y, f"{path}/{i}")
            if d:
                return d
        return None
    return None if a == b else path or "."


def field_of(path):
    parts = [p for p in path.split("/") if p]
    return parts[0] if parts and not parts[0].isdigit() else "value"


def short_cls(cls):
    c = cls.rsplit(".", 1)[-1]
    if cls.startswith("cogent3.core.profile."):
        return "MotifNumberArray"
    return ("new_" if ".new_" in cls else "") + c


ROUTE_CLASS = {"json": "json", "rich": "json", "json2": "json2", "pickle": "pickle", "deepcopy": "deepcopy", "jsonvalid": "jsonvalid", "copy_sliced": "copy_sliced"}

# properties of an observation that the property text does not promise to keep, per kind
def neutralise(obs):
    """observation fields that are not part of "observationally equal" (documented non-persistence)"""
    if not isinstance(obs, dict):
        return obs
    o = dict(obs)
    k = o.get("kind")
    if k == "seq":
        # strand of an EMPTY sequence is not an observation (no residue lies on a strand); Spec/SerialSpec.v obs_strand
        if o.get("len") == 0 and isinstance(o.get("pc"), list):
            o["pc"] = [None] + o["pc"][1:3] + [None]
        elif isinstance(o.get("pc"), list):
            o["pc"] = [None] + o["pc"][1:]   # the seqid of the view is book-keeping; the name is observed separately
    if k in ("coll", "ncoll"):
        if isinstance(o.get("pc"), dict):
            o["pc"] = {n: ([None] + v[1:3] + [None] if len(o["seqs"].get(n, "x").replace("-", "")) == 0 else [None] + v[1:]) for n, v in o["pc"].items()}
    if k == "aligned" and isinstance(o.get("pc"), list):
        o["pc"] = [None] + o["pc"][1:3] + [None if o.get("seqlen") == 0 else o["pc"][3]]
    if k == "view" and o.get("len") == 0:
        o["reversed"] = None
        o["step"] = None
        o["seqid"] = None
    if k == "table":
        # display formatting set by format_column()/column_templates is not persisted by __getstate__ (deliberately: templates may
        # be callables); the table is observed through its cells, header, title, legend, index and persistent display attributes
        o.pop("str", None)
        o.pop("fmt", None)
    if k == "result":
        o["items"] = {kk: neutralise(v) for kk, v in o.get("items", {}).items()}
    return o


def compare_case(rep, c, r, stats):
    """oracle on one case: every route's observation must equal the original's"""
    nvio = 0
    if isinstance(r, dict) and "exc" in r and "obs" not in r:
        if r.get("hang") or r.get("timeout"):
            rep.violation(f"{c['gen']}:hang", dict(case=c, observed_impl=r, broken="building/serialising the object hung"))
            return 1
        # the generator itself failed: machinery problem in the harness, not a verdict
        stats["gen_errors"].append(dict(case=c, tb=r.get("tb", "")[-400:]))
        return 0
    obs = neutralise(r["obs"])
    cls = short_cls(r["cls"])
    project = None
    if obs.get("kind") == "aseq":
        # an ArraySequence reads back as the (richer) Sequence of the same moltype: compared on what both offer
        project = ("str", "name", "moltype", "info")
        obs = {k: obs.get(k) for k in project}
    reported = set()          # (route class, what) already reported for this case: a failure of to_json is one finding, not three
    order = ["json", "rich", "json2", "jsonvalid", "pickle", "deepcopy"]
    for route in sorted(r["routes"], key=lambda x: order.index(x) if x in order else 99):
        ro = r["routes"][route]
        if ro is None:
            continue
        stats["evals"] += 1
        stats["routes"][route] = stats["routes"].get(route, 0) + 1
        rc = ROUTE_CLASS.get(route, route)
        family = "json" if rc in ("json", "json2", "jsonvalid") else "copy"   # pickle and deepcopy share __reduce__/__getstate__
        if isinstance(ro, dict) and "exc" in ro and "kind" not in ro:
            excn = ro.get("msg", "").split(":")[0]
            if (family, "raised", excn) in reported:
                continue
            reported.add((family, "raised", excn))
            key = f"{c['gen']}:{cls}:{rc}:raised:{excn}"
            nvio += 1
            rep.violation(key, dict(case=c, route=route, expected_by_spec="an object observed equal to the original", observed_impl=ro,
                                    original=obs, broken="serialisation route raised"))
            continue
        if route == "jsonvalid":
            if not ro.get("same", True):
                nvio += 1
                rep.violation(f"{c['gen']}:{cls}:jsonvalid", dict(case=c, route=route, observed_impl=ro, broken="to_json differs from json.dumps(to_rich_dict())"))
            continue
        ro_n = neutralise(ro)
        if project and isinstance(ro_n, dict):
            ro_n = {k: ro_n.get(k) for k in project}
        if obs.get("kind") == "tree" and isinstance(ro_n, dict):
            ro_n = dict(ro_n, cls=obs.get("cls"))   # a TreeNode reads back as a PhyloNode (a superset of its interface)
        d = same(obs, ro_n)
        if d:
            if obs.get("kind") == "tree" and obs.get("names_ok") is False:
                # nodes created by operations (bifurcating, copy ...) are unnamed or get a name that is already taken;
                # the rich dict keys edge attributes by node name
                key = "tree:PhyloNode:json:node-names" if family == "json" else f"tree:PhyloNode:{rc}:node-names"
                if key in reported:
                    continue
                reported.add(key)
            elif (obs.get("kind") == "dmat" and family == "json" and field_of(d) in ("names", "arr")
                  and (obs["names"] != sorted(obs["names"]) or any(row[i] not in (0, 0.0) for i, row in enumerate(obs["arr"])))):
                # the decoder rebuilds the matrix from the pair keys: names come back sorted, the diagonal as 0.0
                # (Properties/C10.v dmat_name_order_refuted / dmat_diagonal_refuted): one finding
                key = "darr:DistanceMatrix:json:names"
            elif c["gen"] == "view" and field_of(d) in ("pstart", "pstop"):
                # the bare view's position: Properties/C10.v seqview_position_refuted
                key = "view:SeqView:json:position"
            else:
                if (family, field_of(d)) in reported:
                    continue
                reported.add((family, field_of(d)))
                key = f"{c['gen']}:{cls}:{'json' if family == 'json' else rc}:{field_of(d)}"
            nvio += 1
            rep.violation(key, dict(case=c, route=route, first_difference=d, expected_by_spec=obs, observed_impl=ro,
                                    broken="observation after the round trip differs from the observation before"))
    return nvio


# ------------------------------------------------------------------ Coq correspondence

KIND = {"dna": "KDna", "rna": "KRna"}


def cview(v):
    return f"(mkV {zlit(v[0])} {zlit(v[1])} {zlit(v[2])} {zlit(v[3])} {zlit(v[4])})"


def ascii_ok(*ss):
    return all(all(ord(ch) < 128 for ch in s) for s in ss)


def coq_cases(cases, impl):
    """(index, kind, coq term, expected-from-impl) for every case whose encoder is modelled"""
    out = []
    for i, (c, r) in enumerate(zip(cases, impl)):
        if not isinstance(r, dict) or "obs" not in r:
            continue
        e = r.get("enc")
        if not e or "exc" in e:
            continue
        g = c["gen"]
        if g == "seq":
            mt = r["obs"]["moltype"]
            st = "SNew" if "new_sequence" in r["cls"] else "SOld"
            k = KIND.get(mt, "KOther")
            if not ascii_ok(e["parent"]):
                continue
            canonical = {"dna": "DnaSequence", "rna": "RnaSequence", "text": "Sequence"}.get(mt)
            exp = [e["dict_seq"], e["dict_step"], e["dict_offset"], r["cls"] if r["cls"].endswith("." + str(canonical)) else None,
                   [e["view_after"], e["parent_after"], e["str_after"], e["pc_after"][1:]]]
            out.append((i, "seq", f"CSeq {st} {k} {cview(e['view'])} {zstr(e['parent'])}", exp))
        elif g == "view":
            st = "SNew" if "new_sequence" in r["cls"] else "SOld"
            # new-style views have no decoder (copy(sliced=True) is not a serialisation route): encoder only
            exp = [e["dict_seq"], e["dict_step"], [e["view_after"], e["parent_after"], e["str_after"]] if st == "SOld" else None]
            out.append((i, "view", f"CView {st} {cview(e['view'])} {zstr(e['parent'])}", exp))
        elif g == "aligned":
            mt = r["obs"]["moltype"]
            k = KIND.get(mt, "KOther")
            m = e["map"]
            exp = [e["dict_map"], e["dict_seq"], e["dict_step"], e["dict_offset"],
                   [e["map_after"], [e["view_after"], e["parent_after"], None, e["pc_after"][1:]], e["str_after"] if wf_map(m) else None]]
            out.append((i, "aligned", f"CAligned {zlist(m[0])} {zlist(m[1])} {zlit(m[2])} {k} {cview(e['view'])} {zstr(e['parent'])}", exp))
        elif g == "tree":
            if not ascii_ok(e["newick"]):
                continue
            out.append((i, "tree", f"CTree {coq_tree(e['tree'])}", [e["newick"], e["attrs"], e["after"]]))
        elif g == "table" and "rd" in e:
            rd = e["rd"]
            it = rd.get("init_table", {})
            if not it or next(iter(it)) != "index_name" or not (it["index_name"] is None or isinstance(it["index_name"], str)):
                continue
            attrs = {k: v for k, v in it.items() if k != "index_name"}
            data = rd["data"]
            if set(data["order"]) != set(data["columns"]) or len(set(data["order"])) != len(data["order"]):
                continue
            cols = "[" + ";".join(f"({zstr(c)},{zstr(data['columns'][c]['dtype'])},[" + ";".join(coq_json(v) for v in data["columns"][c]["values"]) + "])"
                                  for c in data["order"]) + "]"
            ix = "None" if it["index_name"] is None else f"(Some {zstr(it['index_name'])})"
            out.append((i, "table", f"CTable {ix} {coq_dict(attrs)} {cols}", [valform(rd), after_form(e["after"])]))
        elif g == "darr" and "rd" in e and "names" in e["rd"]:
            rd = e["rd"]
            names = "[" + ";".join("[" + ";".join(coq_json(v) for v in dim) + "]" for dim in rd["names"]) + "]"
            out.append((i, "darr", f"CDarr {names} {coq_json(rd['array'])}", [valform(rd), after_form(e["after"])]))
        elif g == "result" and "rd" in e:
            con = e["rd"]["not_completed_construction"]
            out.append((i, "nc", f"CNC [{';'.join(coq_json(v) for v in con['args'])}] {coq_dict(con['kwargs'])}", [valform(e["rd"]), after_form(e["after"])]))
        elif g == "darr" and "names" in e and e.get("array") is not None:
            if not all(isinstance(v, float) for row in e["array"] for v in row):
                continue
            rows = "[" + ";".join("[" + ";".join(coq_json(v) for v in row) + "]" for row in e["array"]) + "]"
            out.append((i, "dmat", f"CDmat {'[' + ';'.join(zstr(n) for n in e['names']) + ']'} {rows} {coq_json(e['invalid'])}", dict(rd=e["rd"], after=e["after"])))
        elif g == "imap" and "rd" in e:
            sp = e["rd"]["spans"]
            if not all(x.get("value") is None and not x.get("tidy_start") and not x.get("tidy_end")
                       and x["type"].rsplit(".", 1)[-1] in ("Span", "_LostSpan") for x in sp):
                continue   # TerminalPadding (termini_unknown) and span values are outside the C08 span model
            spans = "[" + ";".join(f"FeatureMap.FS {zlit(x['start'])} {zlit(x['end'])} {cbool(x['reverse'])}" if "start" in x else f"FeatureMap.FL {zlit(x['length'])}" for x in sp) + "]"
            out.append((i, "fmap", f"CFmap {spans} {zlit(e['rd']['parent_length'])}", dict(rd=e["rd"], after=e["after"])))
        elif g == "db" and "rd" in e:
            recs = e["rd"].get("tables", {}).get("user", [])
            if set(e["rd"].get("tables", {})) != {"user"} or not rows_modelable(recs):
                continue
            out.append((i, "db", "CDb [" + ";".join(coq_row(1, r) for r in recs) + "]", dict(rd=e["rd"], after=e["after"])))
        elif g == "seq_db" and "rd" in e:
            adb = e["rd"].get("annotation_db")
            if not adb or set(adb.get("tables", {})) != {"user"} or not rows_modelable(adb["tables"]["user"]) or not adb["tables"]["user"]:
                continue
            if isinstance(e["after"], dict) and "annotation_db" not in e["after"] and "exc" not in e["after"]:
                pass
            out.append((i, "seqdb", f"CSeqDb {KIND.get(r['obs']['moltype'], 'KOther')} {cview(e['view'])} {zstr(e['parent'])} [" + ";".join(coq_row(1, r) for r in adb["tables"]["user"]) + "]",
                        dict(rd=e["rd"], after=e["after"])))
        elif g == "alpha" and "rd" in e and "motifset" in e["rd"]:
            rd = e["rd"]
            if "genetic_code" in rd or not all(isinstance(m, str) for m in rd["motifset"]) or not (rd["gap"] is None or isinstance(rd["gap"], str)):
                continue
            out.append((i, "alphabet", f"CAlphabet [{';'.join(zstr(m) for m in rd['motifset'])}] {coq_opt_str(rd['gap'])} {zstr(rd['moltype'])}",
                        dict(rd=rd, after=e["after"])))
        elif g == "alpha" and "rd" in e and set(e["rd"]) <= {"type", "moltype", "version"}:
            out.append((i, "moltype", f"CMolType {zstr(e['rd']['moltype'])}", dict(rd=e["rd"], after=e["after"])))
        elif g == "imap":
            m = e["map"]
            exp = [e["dict_map"], e["dict_map"]]
            out.append((i, "imap", f"CImap {zlist(m[0])} {zlist(m[1])} {zlit(m[2])}", exp))
    return out


def valform(x):
    """the [val] image of a JSON value, as Model/SerialRun.v vjson prints it (objects and floats tagged)"""
    if x is None or isinstance(x, (bool, str)):
        return x
    if isinstance(x, int):
        return x
    if isinstance(x, float):
        return [{"exc": 1}, repr(x)]
    if isinstance(x, list):
        return [valform(v) for v in x]
    if isinstance(x, dict):
        return [{"exc": 0}, [[k, None if k == "version" else valform(v)] for k, v in x.items()]]
    raise TypeError(type(x))


def blank_versions(v):
    """model output: the value of every "version" field is not compared"""
    if isinstance(v, list):
        if len(v) == 2 and v[0] == "version" and not isinstance(v[1], list):
            return ["version", None]
        return [blank_versions(x) for x in v]
    return v


def coq_json(x):
    if x is None:
        return "JNull"
    if isinstance(x, bool):
        return f"(JBool {cbool(x)})"
    if isinstance(x, int):
        return f"(JInt {zlit(x)})"
    if isinstance(x, float):
        return f"(JFloat {zstr(repr(x))})"
    if isinstance(x, str):
        return f"(JStr {zstr(x)})"
    if isinstance(x, list):
        return "(JArr [" + ";".join(coq_json(v) for v in x) + "])"
    if isinstance(x, dict):
        return "(JObj " + coq_dict(x) + ")"
    raise TypeError(type(x))


def coq_dict(d):
    return "[" + ";".join(f"({zstr(k)},{coq_json(v)})" for k, v in d.items()) + "]"


def coq_tree(t):
    n, l, cs = t
    return f"(Rose.Node {zstr(n)} {'None' if l is None else '(Some ' + zlit(l) + ')'} [" + ";".join(coq_tree(c) for c in cs) + "])"


def after_form(after):
    if isinstance(after, dict) and set(after) >= {"exc", "msg"} and "type" not in after:
        return {"exc": after["exc"]}
    return valform(after)


def unval(v):
    """inverse of valform on what the model prints: tagged objects -> dict, tagged floats -> float"""
    if isinstance(v, list):
        if len(v) == 2 and isinstance(v[0], dict) and v[0] == {"exc": 0}:
            return {k: unval(x) for k, x in v[1]}
        if len(v) == 2 and isinstance(v[0], dict) and v[0] == {"exc": 1}:
            return float(v[1])
        return [unval(x) for x in v]
    return v


def noversion(x):
    if isinstance(x, dict):
        return {k: (None if k == "version" else noversion(v)) for k, v in x.items()}
    if isinstance(x, list):
        return [noversion(v) for v in x]
    if isinstance(x, float) and x != x:
        return "nan"
    return x


def project_kind(kind, d):
    """the part of a rich dict the model is compared on"""
    if isinstance(d, dict) and set(d) >= {"exc"} and "type" not in d:
        return {"exc": d["exc"]}
    if kind == "db":
        return {"user": d.get("tables", {}).get("user", [])}
    if kind == "seqdb":
        return {"seq": d["seq"]["init_args"]["seq"], "step": d["seq"]["init_args"]["step"], "offset": d.get("annotation_offset"),
                "user": (d.get("annotation_db") or {}).get("tables", {}).get("user", [])}
    if kind == "fmap":
        return {"spans": d["spans"], "parent_length": d["parent_length"], "type": d["type"]}
    if kind == "alphabet":
        return {"motifset": list(d.get("motifset", [])), "gap": d.get("gap"), "moltype": d.get("moltype")}   # Alphabet / CharAlphabet: same fields
    return d


def coq_opt_str(x):
    return "None" if x is None else f"(Some {zstr(x)})"


def coq_row(table, r):
    oa = r.get("on_alignment")
    return (f"(AnnotDb.Build_row {table} {coq_opt_str(r.get('seqid'))} {coq_opt_str(r.get('biotype'))} {coq_opt_str(r.get('name'))} "
            f"{coq_opt_str(r.get('strand'))} {coq_opt_str(r.get('attributes'))} {'None' if oa is None else '(Some ' + cbool(bool(oa)) + ')'} "
            f"[{';'.join(f'({zlit(a)},{zlit(b)})' for a, b in r['spans'])}] {zlit(r['start'])} {zlit(r['stop'])})")


ROW_KEYS = {"seqid", "biotype", "name", "strand", "attributes", "on_alignment", "spans", "start", "stop"}


def rows_modelable(recs):
    return all(set(r) <= ROW_KEYS and "spans" in r and "start" in r and "stop" in r and r.get("on_alignment") in (None, 0, 1) for r in recs)


def wf_map(m):
    gp, cum, plen = m
    if len(gp) != len(cum) or plen < 0:
        return False
    pp, pc = -1, 0
    for p, c in zip(gp, cum):
        if not (pp < p and pc < c):
            return False
        pp, pc = p, c
    return pp <= plen


def match_model(kind, exp, got):
    """compare the model's output with what the real encoder/decoder did; None entries of exp are not compared"""
    def eq(x, y):
        if x is None:
            return True
        if isinstance(x, list) and isinstance(y, list):
            return len(x) == len(y) and all(eq(a, b) for a, b in zip(x, y))
        return x == y
    if kind in ("dmat", "fmap", "db", "seqdb", "moltype", "alphabet"):
        # JSON-level, key order of dicts not compared, only the modelled part of the dict (project_kind)
        if not (isinstance(got, list) and len(got) == 2):
            return False
        m_rd, m_after = (noversion(unval(x)) if not (isinstance(x, dict) and "exc" in x) else x for x in got)
        return (project_kind(kind, noversion(exp["rd"])) == project_kind(kind, m_rd)
                and project_kind(kind, noversion(exp["after"])) == project_kind(kind, m_after))
    if kind in ("tree", "table", "darr", "nc"):
        return exp == got          # strict: a JSON null is a value here, not a wildcard
    return eq(exp, got)


def run_model(items):
    terms = [t for (_, _, t, _) in items]
    return core.coq_eval(PROP, ["Model.View", "Model.Serial", "Model.SerialRun", "From CG3 Require Lib.Rose Model.FeatureMap Model.AnnotDb."], "run_case", terms, "case", shard=300)


def registry_checks(rep, inv, stats):
    """static registry/dispatch tables of the model vs the live registry; model dispatch on live type strings"""
    dis = []
    reg = inv["registry"]
    classes = sorted(inv["classes"])
    live = core.run_impl_lines(IMPL, [dict(gen="dispatch", p=dict(types=classes))])[0]["obs"]["chosen"]
    if not ascii_ok(*classes):
        return dis
    regterm = "[" + ";".join(f"({zstr(k)},{zstr(f)})" for k, f in reg) + "]"
    typeterm = "[" + ";".join(zstr(t) for t in classes) + "]"
    got = core.coq_eval(PROP, ["Model.View", "Model.Serial", "Model.SerialRun"], "run_case", [f"CDispatch {regterm} {typeterm}", "CRegistry", "CExpected"], "case", tag="reg")
    model_disp, model_reg, model_exp = got
    stats["dispatch_types"] = len(classes)
    for t, a, b in zip(classes, live, model_disp):
        stats["evals"] += 1
        if a != b:
            dis.append(dict(key="dispatch", type=t, observed_impl=a, model_output=b))
    # the static snapshot proved about in Properties/C10.v
    live_reg = [[k, f] for k, f in reg]
    snap = [list(x) for x in model_reg]
    if [x for x in snap if x not in live_reg] or [x for x in live_reg if x not in snap] or [x[0] for x in snap] != [x[0] for x in live_reg if x in snap]:
        dis.append(dict(key="registry-snapshot", observed_impl=live_reg, model_output=snap,
                        broken="Model/Serial.v registry differs from the live _deserialise_func_map (entries or order)"))
    live_map = dict(zip(classes, live))
    for t, f in model_exp:
        if t in live_map and live_map[t] != f:
            dis.append(dict(key="expected-dispatch", type=t, observed_impl=live_map[t], model_output=f))
    unresolved = [t for t in classes if live_map[t] is None]
    stats["types_without_decoder"] = unresolved
    return dis


# ------------------------------------------------------------------ the check

def nontrivial(c, r):
    """the object was put into a non-fresh state before serialisation (>= 1 successful state-changing operation
    or a non-default construction argument) and at least one route was exercised"""
    if not isinstance(r, dict) or "obs" not in r or not any(v is not None for v in r["routes"].values()):
        return False
    if any(x is True for x in r.get("oplog", [])):
        return True
    p = c["p"]
    return bool(p.get("offset") or p.get("info") or p.get("kw") or p.get("model_kw") or p.get("lf_kw") or p.get("title") or p.get("how")
                or c["gen"] in ("result", "lf") or p.get("row_ops"))


def run(tier: str, seed: int) -> int:
    rep = core.Report(PROP, tier, seed)
    rng = random.Random(seed * 7919 + 10)
    pr = core.proof_stage(PROP, COQ_TARGETS)
    core.proof_coverage(rep, pr, "make theories/Properties/C10.vo theories/Model/SerialRun.vo && coqc gen/assum_C10.v (Print Assumptions)", [
        "Model/Serial.v imports the view kernel Model/View.v (C01) and the IndelMap record/post_init of Model/IndelMap.v (C08); their ties to the code are the C01/C08 correspondences plus the encode/decode comparison of this check",
        "python's json / pickle / copy modules, numpy array <-> list conversion",
        "the observation functions of harness/props/c10_impl.py (what is read off an object before and after)",
    ])
    rep.assumptions += [
        "theorems cover the re-basing serialisers (views, sequences of both implementations, indel maps, aligned rows, alignments) and the registry dispatch; "
        "all other registered types are decided by the oracle 'observation before = observation after' on the real code",
        "strand of an EMPTY sequence/view is not an observation (both implementations normalise an empty reversed view on reconstruction)",
        "new-style Sequence/SequenceCollection document that the annotation db is not serialised; features are compared for old-style objects only",
    ]
    proof_broken = bool(pr["problems"])
    cases = build_cases(tier, rng, widen=3 if proof_broken else 1)
    impl = core.run_impl_sharded(IMPL, cases, timeout=3000)
    stats = dict(evals=0, routes={}, gen_errors=[])
    nvio = 0
    for c, r in zip(cases, impl):
        nvio += compare_case(rep, c, r, stats)

    # model vs implementation on the modelled encoders
    disagreements = []
    items = coq_cases(cases, impl)
    model_ok = True
    try:
        got = run_model(items)
    except core.CheckError as e:
        if not proof_broken:
            raise
        rep.notes.append(f"model not runnable: {str(e)[:300]}")
        got, model_ok = [], False
    nmodel = {}
    for (i, kind, term, exp), g in zip(items, got):
        g = blank_versions(jsonable(g))
        stats["evals"] += 1
        nmodel[kind] = nmodel.get(kind, 0) + 1
        if not match_model(kind, exp, g):
            disagreements.append(dict(key=f"model:{kind}", case=cases[i], coq_case=term, observed_impl=exp, model_output=g))
    inv = impl[0]["obs"] if isinstance(impl[0], dict) and "obs" in impl[0] else None
    if inv and model_ok:
        disagreements += registry_checks(rep, inv, stats)

    # coverage of the introspected inventory
    seen = {}
    for c, r in zip(cases, impl):
        if isinstance(r, dict) and "cls" in r:
            seen[r["cls"]] = seen.get(r["cls"], 0) + 1
    concrete = sorted(inv["classes"]) if inv else []
    uncovered = [t for t in concrete if t not in seen]
    nt = set()
    for c, r in zip(cases, impl):
        if nontrivial(c, r):
            nt.add(json.dumps([c["gen"], c["p"]], sort_keys=True))
    by_gen = {}
    for c in cases:
        by_gen[c["gen"]] = by_gen.get(c["gen"], 0) + 1
    sample_i = next((i for i, c in enumerate(cases) if c["gen"] == "seq" and c.get("block") == "random" and len(c["p"]["ops"]) >= 2), 1)
    rep.coverage.update(
        evaluations=stats["evals"], distinct_nontrivial=len(nt),
        rule="one evaluation = one (object state, serialisation route) comparison of observations, or one model-vs-implementation comparison of an "
             "encoder/decoder/dispatch; non-trivial = the object was put into a non-fresh state (>= 1 successful operation of its history, or "
             "non-default construction arguments) and at least one route was exercised. Exhaustive blocks: every bound class x step of one slice of a "
             "5-letter sequence with annotation offset, alone/after rc/before rc/followed by a reversing slice, both implementations; every gap layout "
             "of length 4 x every slice [a:b] x rc for aligned rows (quick tier: every 12th / 4th). Random blocks: operation chains of depth 0-6.",
        samples=[dict(case=cases[sample_i], impl=dict(cls=impl[sample_i].get("cls"), obs=impl[sample_i].get("obs"), enc=impl[sample_i].get("enc")))],
        input_distribution=dict(cases=len(cases), by_generator=by_gen, routes=stats["routes"], classes_exercised=seen, model_cases=nmodel,
                                dispatch_types=stats.get("dispatch_types", 0)),
        partial=["registered types without a theorem (decided by the real-code oracle only): old/new alphabets, genetic codes, substitution models, "
                 "likelihood functions, app results other than NotCompleted, Gff/Genbank annotation dbs, new-style SequenceCollection/SeqsData, "
                 "ArrayAlignment/SequenceCollection rows, JointEnumeration and codon alphabets; the pickle and deepcopy routes of every type; data-store members "
                 "offer no to_rich_dict/to_json (their payload is one of the above)",
                 "DistanceMatrix: the general statement (stmt_dmat_roundtrip) is not proved; proved for sorted names a<b<c(<d) with arbitrary cells "
                 "(dmat_roundtrip_small_2/3/4); unsorted names / non-zero diagonal are refuted by witnesses and compared as {(a,b): d} only by the oracle",
                 "profile arrays (MotifCountsArray/MotifFreqsArray/PSSM): class preservation refuted for every instance (profile_class_refuted, finding C10-K10)",
                 "trees: the theorem holds under C09's name guard (root called 'root', other names distinct/parseable); only the 'length' edge attribute is "
                 "modelled, other edge params are compared on the real code",
                 "tables: the numpy cast of Columns.__setstate__ is modelled as the identity on what __getstate__ writes",
                 "annotation dbs: BasicAnnotationDb records (C17 row model, tables 'user' + the class' own); a sequence with its db is modelled for the "
                 "old-style Sequence only (new-style documents that the db is not serialised); span 'value'/'tidy' flags of a FeatureMap are not modelled",
                 "moltypes and old-style alphabets by label (get_moltype(label)); new-style alphabets and genetic codes not modelled"],
        types_with_theorem=["cogent3.core.sequence.{Sequence,DnaSequence,RnaSequence,...} (also with an attached BasicAnnotationDb)",
                            "cogent3.core.new_sequence.{Sequence,DnaSequence,RnaSequence}",
                            "cogent3.core.sequence.SeqView", "cogent3.core.location.IndelMap", "cogent3.core.location.FeatureMap (Span, _LostSpan)",
                            "cogent3.core.alignment.Aligned", "cogent3.core.alignment.Alignment", "cogent3.core.tree.PhyloNode", "cogent3.util.table.Table",
                            "cogent3.util.dict_array.DictArray", "cogent3.app.composable.NotCompleted", "cogent3.core.annotation_db.BasicAnnotationDb",
                            "cogent3.core.moltype.MolType", "cogent3.core.alphabet.{Alphabet,CharAlphabet} (no genetic code attached)",
                            "cogent3.core.alignment.Alignment with an attached BasicAnnotationDb (theorem only; rows and db are tied to the code separately)",
                            "cogent3.evolve.fast_distance.DistanceMatrix (small sizes only)"],
        types_refuted=["cogent3.core.profile.{MotifCountsArray,MotifFreqsArray,PSSM} (class not preserved)", "bare cogent3.core.sequence.SeqView position"],
        types_in_inventory=len(concrete), types_uncovered=uncovered, types_without_decoder=stats.get("types_without_decoder", []),
        generator_errors=len(stats["gen_errors"]), generator_error_samples=stats["gen_errors"][:3],
        model_impl_disagreements=len(disagreements), spec_violations=nvio, exhaustive=False,
    )
    if stats["gen_errors"]:
        rep.notes.append(f"{len(stats['gen_errors'])} generated cases could not be built (harness generator errors, not counted)")
    core.conclude(rep, pr, f"{len(cases)} object states / {stats['evals']} evaluations against the observation oracle", disagreements[:5],
                  "Model.SerialRun.run_case vs to_rich_dict/deserialise_object", tier, PROP)
    return rep.finish("proof")


def replay(path: str) -> int:
    d = json.loads(open(path).read())
    if "case" not in d:
        print("replay names a broken obligation, not an input:", d.get("broken"))
        return 1
    c = d["case"]
    r = core.run_impl_lines(IMPL, [c])[0]
    class _Collect:
        def __init__(self):
            self.violations = []

        def violation(self, key, replay, no_input=False):
            self.violations.append({"key": key})

    rep = _Collect()
    stats = dict(evals=0, routes={}, gen_errors=[])
    n = compare_case(rep, c, r, stats)
    if "obs" in r:
        print("original :", json.dumps(neutralise(r["obs"]))[:1500])
        route = d.get("route")
        for k, v in r["routes"].items():
            if route is None or k == route:
                print(f"after {k:9s}:", json.dumps(v)[:1500])
    else:
        print("impl:", r)
    keys = [v["key"] for v in rep.violations]
    bad = d.get("key") in keys or (n > 0 and d.get("key") is None)
    print("violations now:", keys)
    print("REPRODUCED" if bad else "not reproduced")
    return 1 if bad else 0
