"""C04 implementation runner: features through sequence views and alignments (real cogent3)."""
from vcheck.val import exc_code


def _exc(e, at):
    return {"exc": exc_code(e), "at": at, "msg": f"{type(e).__name__}: {e}"[:160]}


def make(case):
    from cogent3 import make_seq

    kw = dict(new_type=True) if case["impl"] == "new" else {}
    seq = make_seq(case["parent"], name="s1", moltype="dna", annotation_offset=case["off"], **kw)
    for k, (spans, minus) in enumerate(case["feats"]):
        seq.annotation_db.add_feature(seqid="s1", biotype="gene", name=f"f{k}", spans=[tuple(s) for s in spans],
                                      strand="-" if minus else "+")
    return seq


def apply_ops(seq, ops):
    v = seq
    for op in ops:
        if op[0] == "rc":
            v = v.rc()
        elif op[0] == "copy":
            v = v.copy()
        elif op[0] == "copyU":
            v = v.copy(sliced=False)
        elif op[0] == "deepcopy":
            import copy as _copy

            v = _copy.deepcopy(v)
        else:
            _, a, b, c = op
            v = v[a:b:c]
    return v


def obs_feature(v, k, f):
    minus = bool(f.reversed)
    coords = [[int(a), int(b)] for a, b in f.map.get_coordinates()]
    single = f.map.num_spans == 1
    try:
        sl = f.get_slice()
        s = str(sl)
        s2 = str(v[f])
        if s2 != s:
            s = {"differs": [s, s2]}
        pc = None
        if single and sl.annotation_db is not None and sl.annotation_db is v.annotation_db:
            _, a, b, st = sl.parent_coordinates()
            pc = [int(a), int(b), int(st)]
    except Exception as e:  # noqa: BLE001
        s = _exc(e, "get_slice")
        pc = {"exc": s["exc"]} if single else None
    return [k, minus, coords, s, pc]


def run_query(v, nfeats, q):
    ws, we, partial = q
    out = []
    for k in range(nfeats):
        try:
            got = list(v.get_features(name=f"f{k}", start=ws, stop=we, allow_partial=partial))
        except Exception as e:  # noqa: BLE001
            out.append(_exc(e, "get_features"))
            continue
        if not got:
            out.append(None)
        elif len(got) > 1:
            out.append({"exc": 9, "at": "get_features", "msg": f"{len(got)} features named f{k}"})
        else:
            out.append(obs_feature(v, k, got[0]))
    return out


def run_seq_case(case):
    seq = make(case)
    v = apply_ops(seq, case["ops"])
    n = len(case["feats"])
    add = case.get("add")
    if add is None:
        return [None, [run_query(v, n, q) for q in case["queries"]], None]
    spans, minus = add[0], add[1]
    named = add[2] if len(add) > 2 else True      # False: strand left to its default (None)
    kw = dict(strand="-" if minus else "+") if (named or minus) else {}
    try:
        f = v.add_feature(biotype="gene", name=f"f{n}", spans=[tuple(s) for s in spans], **kw)
    except Exception as e:  # noqa: BLE001
        return [_exc(e, "add_feature"), [], None]
    direct = obs_feature(v, n, f)
    return [direct, [run_query(v, n + 1, q) for q in case["queries"]], run_query(seq, n + 1, [None, None, True])]


# ------------------------------------------------------------------ alignments


def run_aln_case(case):
    """rows: {name: gapped string}; features in ungapped coordinates of one row, stored in the
    alignment's db; observed per feature on the (sliced / reverse complemented) alignment:
    strand, alignment coordinates, the columns of feature.get_slice() per row, and the slice of
    the feature projected onto every other row"""
    from cogent3 import make_aligned_seqs

    aln = make_aligned_seqs(case["rows"], moltype="dna", array_align=False)
    for k, (seqid, spans, minus) in enumerate(case["feats"]):
        aln.add_feature(seqid=seqid, biotype="gene", name=f"f{k}", spans=[tuple(s) for s in spans],
                        strand="-" if minus else "+", on_alignment=False)
    a = aln
    for op in case["ops"]:
        if op[0] == "rc":
            a = a.rc()
        elif op[0] == "deepcopy":
            a = a.deepcopy(sliced=bool(op[1]))
        elif op[0] == "copy":
            a = a.copy()
        else:
            _, s, e = op
            a = a[s:e]
    out = []
    names = list(case["rows"])
    for k, (seqid, spans, minus) in enumerate(case["feats"]):
        # the row on its own: Aligned.deepcopy(sliced) keeps what the row's sequence features denote
        rowcopy = None
        row = a.named_seqs[seqid]
        if len(row.data):
            rowcopy = []
            for sliced in (True, False):
                try:
                    d = row.deepcopy(sliced=sliced).data
                    rowcopy.append(None if d.annotation_db is None else
                                   [str(x.get_slice()) for x in d.get_features(name=f"f{k}", allow_partial=True)])
                except Exception as e:  # noqa: BLE001
                    rowcopy.append(_exc(e, "Aligned.deepcopy"))
        try:
            got = list(a.get_features(seqid=seqid, name=f"f{k}", allow_partial=True))
        except Exception as e:  # noqa: BLE001
            out.append(_exc(e, "aln.get_features"))
            continue
        if not got:
            out.append(None if rowcopy in (None, [[], []]) else {"rowcopy_only": rowcopy})
            continue
        f = got[0]
        rec = {"minus": bool(f.reversed), "coords": [[int(x), int(y)] for x, y in f.map.get_coordinates()],
               "rowcopy": rowcopy}
        try:
            sl = f.get_slice()
            rec["slice"] = {nm: str(sl.get_gapped_seq(nm)) for nm in names}
        except Exception as e:  # noqa: BLE001
            rec["slice"] = _exc(e, "aln feature get_slice")
        proj = {}
        for nm in names:
            if nm == seqid:
                continue
            try:
                pf = a.get_projected_feature(seqid=nm, feature=f)
                proj[nm] = str(pf.get_slice())
            except Exception as e:  # noqa: BLE001
                proj[nm] = _exc(e, "get_projected_feature")
        rec["proj"] = proj
        out.append(rec)
    return out


def run_coll_case(case):
    """old-style SequenceCollection: features of member sequences through rc / deepcopy / copy"""
    from cogent3 import make_unaligned_seqs

    c = make_unaligned_seqs(case["rows"], moltype="dna")
    for k, (seqid, spans, minus) in enumerate(case["feats"]):
        c.add_feature(seqid=seqid, biotype="gene", name=f"f{k}", spans=[tuple(s) for s in spans],
                      strand="-" if minus else "+")
    for op in case["ops"]:
        if op[0] == "rc":
            c = c.rc()
        elif op[0] == "deepcopy":
            c = c.deepcopy(sliced=bool(op[1]))
        else:
            c = c.copy()
    out = []
    for k, (seqid, spans, minus) in enumerate(case["feats"]):
        try:
            got = list(c.get_features(seqid=seqid, name=f"f{k}", allow_partial=True))
        except Exception as e:  # noqa: BLE001
            out.append(_exc(e, "coll.get_features"))
            continue
        if len(got) != 1:
            out.append(None if not got else {"exc": 9, "at": "coll.get_features", "msg": f"{len(got)} features"})
            continue
        f = got[0]
        try:
            sl = str(f.get_slice())
        except Exception as e:  # noqa: BLE001
            sl = _exc(e, "coll feature get_slice")
        out.append([bool(f.reversed), [[int(a), int(b)] for a, b in f.map.get_coordinates()], sl])
    return out


def run_case(case):
    if case.get("kind") == "aln":
        return run_aln_case(case)
    if case.get("kind") == "coll":
        return run_coll_case(case)
    return run_seq_case(case)


if __name__ == "__main__":
    from vcheck.implutil import serve

    serve(run_case, limit=120)
