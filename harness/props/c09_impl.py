"""C09 implementation runner: drives the real cogent3 PhyloNode methods.

A case is {"tree": [name, len|None, [children]], "scale": k, "op": {...}}.
Lengths reach the implementation as int (scale 1) or as the float len/scale
(scale a power of two, so every sum is exact); they are observed back as
integers (len*scale)."""
import copy
import json

from vcheck.implutil import serve
from vcheck.val import exc_code


def build(spec, scale, is_root=True):
    from cogent3.core.tree import PhyloNode

    name, ln, kids = spec
    children = [build(k, scale, False) for k in kids]
    if ln is not None:
        ln = ln if scale == 1 else ln / scale
    return PhyloNode(name=name, children=children, length=ln)


def canon_len(l, scale):
    if l is None:
        return None
    x = l * scale
    r = round(x)
    if abs(x - r) < 1e-9:
        return int(r)
    return round(float(x), 9)


def dump(node, scale):
    return [node.name, canon_len(getattr(node, "length", None), scale), [dump(c, scale) for c in node.children]]


def dists(tree, scale):
    """upper triangle of get_distances() in tip order, or None when tip names repeat"""
    names = tree.get_tip_names()
    if len(set(names)) != len(names) or any(n is None for n in names):
        return None
    d = tree.get_distances()
    out = []
    for i, a in enumerate(names):
        for b in names[i + 1:]:
            v = d.get((a, b))
            out.append(None if v is None else canon_len(float(v), scale))
    return out


def source_variants():
    """which variant of unrooted() the model has to follow, decided by behaviour on one witness; the correspondence
    check on all cases then tests that choice (a wrong or unknown variant shows up as disagreements)"""
    spec = ["root", None, [["x", 3, [["a", 1, []], ["b", 2, []]]], ["y", 6, [["c", 4, []], ["d", 5, []]]]]]
    try:
        r = dump(build(spec, 1).unrooted(), 1)
    except Exception as e:  # noqa: BLE001
        return {"unrooted": "unknown", "why": f"{type(e).__name__}: {e}"}
    v0 = ["root", None, [["a", 4, []], ["b", 5, []], ["y", 6, [["c", 4, []], ["d", 5, []]]]]]
    fixed = ["root", None, [["a", 1, []], ["b", 2, []], ["y", 9, [["c", 4, []], ["d", 5, []]]]]]
    out = {"unrooted": "v0" if r == v0 else "fixed" if r == fixed else "unknown", "witness_result": r}
    # root_at_midpoint: does it edit its receiver when the midpoint is inside an edge?
    try:
        t = build(spec, 1)
        before = dump(t, 1)
        t.root_at_midpoint()
        out["midpoint"] = "v0" if dump(t, 1) != before else "fixed"
    except Exception as e:  # noqa: BLE001
        out["midpoint"] = "unknown"
        out["why_midpoint"] = f"{type(e).__name__}: {e}"
    # JSON writer: are names written escaped?  newick parser: are labels told apart from punctuation?
    try:
        from cogent3.util.deserialise import deserialise_object
        import cogent3

        t = build(["root", None, [["a,b", 1, []], ["c d", 2, []], ["e", 3, []]]], 1)
        r = dump(deserialise_object(t.to_json()), 1)
        out["json"] = "fixed" if r == ["root", None, [["a,b", 1, []], ["c d", 2, []], ["e", 3, []]]] else "v0"
    except Exception:  # noqa: BLE001
        out["json"] = "v0"
    try:
        out["edge_name"] = "fixed" if cogent3.make_tree("(edge,b);").get_tip_names() == ["edge", "b"] else "v0"
    except Exception:  # noqa: BLE001
        out["edge_name"] = "v0"
    try:
        r = cogent3.make_tree("(',',b);")
        out["labels"] = "fixed" if r.get_tip_names() == [",", "b"] else "v0"
    except Exception:  # noqa: BLE001
        out["labels"] = "v0"
    return out


CUR = {}


def apply_op(tree, op, scale):
    """returns (kind, value): kind 'tree' | 'text' | 'val'"""
    import cogent3

    o = op["op"]
    if o == "rooted_at":
        return "tree", tree.rooted_at(op["name"])
    if o == "rooted_with_tip":
        return "tree", tree.rooted_with_tip(op["name"])
    if o == "unrooted":
        return "tree", tree.unrooted()
    if o == "unrooted_deepcopy":
        return "tree", tree.unrooted_deepcopy()
    if o == "sub_tree":
        return "tree", tree.get_sub_tree(op["names"], ignore_missing=op["im"], keep_root=op["kr"], tipsonly=op["tipsonly"])
    if o == "sorted":
        return "tree", tree.sorted(op.get("order") or None)
    if o == "prune":
        tree.prune()
        return "tree", tree
    if o == "remove_deleted":
        names = set(op["names"])
        tree.remove_deleted(lambda n: n.name in names)
        return "tree", tree
    if o == "copy":
        return "tree", tree.copy()
    if o == "deepcopy":
        return "tree", copy.deepcopy(tree)
    if o == "midpoint":
        return "tree", tree.root_at_midpoint()
    if o == "bifurcating":
        return "tree", tree.bifurcating()
    if o == "newick":
        return "text", tree.get_newick(with_distances=op["with_len"], semicolon=op["semicolon"], escape_name=op["esc"],
                                       with_node_names=True)
    if o == "newick_rt":
        text = tree.get_newick(with_distances=True, with_node_names=True)
        return "tree", cogent3.make_tree(text, underscore_unmunge=op["unmunge"])
    if o == "parse":
        return "tree", cogent3.make_tree(op["text"], underscore_unmunge=op["unmunge"])
    if o == "json_rt":
        from cogent3.util.deserialise import deserialise_object

        return "tree", deserialise_object(tree.to_json())
    if o == "dist":
        return "tree", tree
    if o == "warm":
        # leave whatever the distance machinery caches on the nodes
        tree.subsets()
        for m in ("rf", "matching"):
            try:
                tree.tree_distance(tree.copy(), method=m)
            except Exception:  # noqa: BLE001
                pass
        try:
            tree.lin_rajan_moret(tree.copy())
        except Exception:  # noqa: BLE001
            pass
        tree.get_distances()
        return "tree", tree
    if o == "multifurcating":
        return "tree", tree.multifurcating(op["k"])
    if o == "tree_distance":
        if op["other"] == "orig":
            other = build(CUR["case"]["tree"], scale)
        elif op["other"] == "self_fresh":
            other = build(dump(tree, scale), scale)
        else:
            other = build(op["other"], 1)
        out = []
        for m in op["methods"]:
            try:
                out.append([int(tree.tree_distance(other, method=m)), int(other.tree_distance(tree, method=m)),
                            int(tree.tree_distance(tree.copy(), method=m))])
            except Exception as e:  # noqa: BLE001
                out.append({"exc": exc_code(e)})
        return "val", out
    raise ValueError("unknown op " + o)


def run_case(case):
    if case.get("probe"):
        return source_variants()
    scale = case.get("scale", 1)
    CUR["case"] = case
    tree = build(case["tree"], scale)
    # every distinct tree object seen so far: [object, dump, index of the step that produced it (-1 = the input)]
    seen = [[tree, dump(tree, scale), -1]]
    cur = tree
    steps = []
    for k, op in enumerate(case["ops"]):
        st = {"op": op["op"]}
        recv = cur
        nwk_before = recv.get_newick(with_distances=True, with_node_names=True)
        try:
            kind, r = apply_op(cur, op, scale)
        except Exception as e:  # noqa: BLE001
            kind, r = "exc", None
            st["res"] = {"exc": exc_code(e)}
            st["msg"] = f"{type(e).__name__}: {str(e)[:120]}"
        # who changed during this step
        changed = []
        for ent in seen:
            now = dump(ent[0], scale)
            if now != ent[1] or (ent[0] is recv and nwk_before != recv.get_newick(with_distances=True, with_node_names=True)):
                if ent[0] is recv:
                    st["mut_recv"] = True
                else:
                    changed.append(ent[2])
                ent[1] = now
        st.setdefault("mut_recv", False)
        if st["mut_recv"]:
            st["recv_after"] = dump(recv, scale)
        st["others_changed"] = changed
        if kind == "text":
            st["text"] = r
        elif kind == "val":
            st["val"] = r
        elif kind == "tree":
            st["res"] = dump(r, scale)
            try:
                st["dists"] = dists(r, scale)
            except Exception as e:  # noqa: BLE001
                st["dists"] = {"exc": exc_code(e)}
            st["tips"] = r.get_tip_names()
            if not any(ent[0] is r for ent in seen):
                seen.append([r, st["res"], k])
            cur = r
        steps.append(st)
        if kind == "exc":
            break
    return {"steps": steps}


if __name__ == "__main__":
    serve(run_case, limit=60)
