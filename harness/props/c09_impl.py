"""C09 implementation runner: drives the real cogent3 PhyloNode methods.

A case is {"tree": [name, len|None, [children]], "scale": k, "op": {...}}.
Lengths reach the implementation as int (scale 1) or as the float len/scale
(scale a power of two, so every sum is exact); they are observed back as
integers (len*scale)."""
import copy
import inspect
import json

from vcheck.implutil import serve
from vcheck.val import exc_code


def build(spec, scale, is_root=True):
    from cogent3.core.tree import PhyloNode

    name, ln, kids = spec
    children = [build(k, scale, False) for k in kids]
    if ln is not None:
        ln = ln if scale == 1 else ln / scale
    return PhyloNode(name=name, children=children, length=ln)


def canon_len(l, scale):
    if l is None:
        return None
    x = l * scale
    r = round(x)
    if abs(x - r) < 1e-9:
        return int(r)
    return ["f", repr(float(x))]


def dump(node, scale):
    return [node.name, canon_len(getattr(node, "length", None), scale), [dump(c, scale) for c in node.children]]


def dists(tree, scale):
    """upper triangle of get_distances() in tip order, or None when tip names repeat"""
    names = tree.get_tip_names()
    if len(set(names)) != len(names) or any(n is None for n in names):
        return None
    d = tree.get_distances()
    out = []
    for i, a in enumerate(names):
        for b in names[i + 1:]:
            v = d.get((a, b))
            out.append(None if v is None else canon_len(float(v), scale))
    return out


def source_variants():
    """which variant of the code the model has to follow (fail-closed text probes)"""
    from cogent3.core.tree import PhyloNode, TreeNode

    src = inspect.getsource(TreeNode.unrooted)
    norm = "".join(src.split())
    if "sib.length+=oldnode.length" in norm:
        unrooted = "v0"
    elif "C09-fix:collapsed-edge-to-sibling" in norm:
        unrooted = "fixed"
    else:
        unrooted = "unknown"
    msrc = "".join(inspect.getsource(PhyloNode.root_at_midpoint).split())
    return {"unrooted": unrooted, "midpoint_copies": "self.deepcopy()" in msrc or "self.copy()" in msrc}


def apply_op(tree, op, scale):
    """returns (kind, value): kind 'tree' | 'text' | 'val'"""
    import cogent3

    o = op["op"]
    if o == "rooted_at":
        return "tree", tree.rooted_at(op["name"])
    if o == "rooted_with_tip":
        return "tree", tree.rooted_with_tip(op["name"])
    if o == "unrooted":
        return "tree", tree.unrooted()
    if o == "unrooted_deepcopy":
        return "tree", tree.unrooted_deepcopy()
    if o == "sub_tree":
        return "tree", tree.get_sub_tree(op["names"], ignore_missing=op["im"], keep_root=op["kr"], tipsonly=op["tipsonly"])
    if o == "sorted":
        return "tree", tree.sorted(op.get("order") or None)
    if o == "prune":
        tree.prune()
        return "tree", tree
    if o == "copy":
        return "tree", tree.copy()
    if o == "deepcopy":
        return "tree", copy.deepcopy(tree)
    if o == "midpoint":
        return "tree", tree.root_at_midpoint()
    if o == "bifurcating":
        return "tree", tree.bifurcating()
    if o == "newick":
        return "text", tree.get_newick(with_distances=op["with_len"], semicolon=op["semicolon"], escape_name=op["esc"],
                                       with_node_names=True)
    if o == "newick_rt":
        text = tree.get_newick(with_distances=True, with_node_names=True)
        return "tree", cogent3.make_tree(text, underscore_unmunge=op["unmunge"])
    if o == "parse":
        return "tree", cogent3.make_tree(op["text"], underscore_unmunge=op["unmunge"])
    if o == "json_rt":
        from cogent3.util.deserialise import deserialise_object

        return "tree", deserialise_object(tree.to_json())
    if o == "dist":
        return "tree", tree
    if o == "tree_distance":
        other = build(op["other"], 1)
        out = []
        for m in op["methods"]:
            try:
                out.append([int(tree.tree_distance(other, method=m)), int(other.tree_distance(tree, method=m)),
                            int(tree.tree_distance(tree.copy(), method=m))])
            except Exception as e:  # noqa: BLE001
                out.append({"exc": exc_code(e)})
        return "val", out
    raise ValueError("unknown op " + o)


def run_case(case):
    if case.get("probe"):
        return source_variants()
    scale = case.get("scale", 1)
    tree = build(case["tree"], scale)
    before = dump(tree, scale)
    nwk_before = tree.get_newick(with_distances=True, with_node_names=True)
    cur = tree
    inplace_on_orig = False
    kind, r = "tree", tree
    out = {}
    for k, op in enumerate(case["ops"]):
        if op["op"] == "prune" and cur is tree:
            inplace_on_orig = True
        try:
            kind, r = apply_op(cur, op, scale)
        except Exception as e:  # noqa: BLE001
            after = dump(tree, scale)
            return {"res": {"exc": exc_code(e)}, "msg": f"{type(e).__name__}: {str(e)[:120]}", "at": k,
                    "mut": before != after, "inplace_on_orig": inplace_on_orig}
        if kind == "tree":
            cur = r
    after = dump(tree, scale)
    mut = before != after or nwk_before != tree.get_newick(with_distances=True, with_node_names=True)
    out = {"mut": mut, "inplace_on_orig": inplace_on_orig}
    if kind == "text":
        out["text"] = r
        return out
    if kind == "val":
        out["val"] = r
        return out
    out["res"] = dump(r, scale)
    try:
        out["dists"] = dists(r, scale)
    except Exception as e:  # noqa: BLE001
        out["dists"] = {"exc": exc_code(e)}
    out["tips"] = r.get_tip_names()
    return out


if __name__ == "__main__":
    serve(run_case, limit=60)
