"""C06 — Sequence file formats round-trip and all parsers of a format agree.

Stage P: Properties/C06.v (round-trip / agreement / chunk-invariance theorems about Model/Formats.v).
Stage C: the real writers, parsers and loaders of cogent3 vs the Coq model (vm_compute).
Stage S: the plain-Python oracle "records in = records out", "all parsers of a format agree on
well-formed text", "every chunk size gives text.splitlines()"."""
from __future__ import annotations

import itertools
import json
import os
import random

from vcheck import core
from vcheck.val import Exc, zlit, zstr

PROP = "C06"
COQ_TARGETS = ["theories/Model/FormatsRun.vo"]

# clauses of the property not covered by a theorem (see DESIGN / final report)
PARTIAL = [
    "JSON format, gzip/bz2 compression, the PARSERS / FORMATTERS registries and the load_* / write plumbing: library code, "
    "correspondence only (get_format_suffixes itself is modelled and proved for every dotted stem; pathlib's "
    "name/suffix/suffixes are re-modelled in Lib/Chars.v; .zip is only exercised through get_format_suffixes)",
    "textwrap.wrap is abstracted as an arbitrary cutting of the sequence into non-empty lines (checked on every case); "
    "the FASTA theorems hold for every such cutting",
    "parser agreement is proved on every text the writer can produce from representable records (any line cutting); "
    "agreement on other well-formed texts (blank lines, comments, CRLF, missing final newline) is correspondence only",
    "writer output independent of the container type: trivial in the model (the writer is a function of the record "
    "list), checked by correspondence (dict of str / dict of Sequence / tuple order / to_fasta / to_phylip)",
    "GenBank: MinimalGenbankParser and iter_genbank_records/minimal_parser are modelled for LOCUS / one-line and generic "
    "fields / ORIGIN / '//'; the SOURCE, REFERENCE and FEATURES handlers and rich_parser's Sequence construction and "
    "annotation db are correspondence only",
    "Clustal, nexus, msf, xmfa, tinyseq/gbseq XML parsers: not modelled, not exercised (see registered_formats)",
    "construction of collections (moltype validation, upper-casing, duplicate-name check) is outside the model; the "
    "records the collection holds are the reference",
]

FMTS = ["fasta", "phylip", "paml", "gde"]
FMT_ID = {"fasta": 0, "phylip": 1, "paml": 2, "gde": 3}
ALPHA = {"dna": "ACGT", "rna": "ACGU", "protein": "ACDEFGHIKLMNPQRSTVWY"}

# ------------------------------------------------------------------ source variant (fail-closed mini translator)

def bytes_split_variant():
    """which record-splitting expression the bytes FASTA parser of the current source uses:
    0 = `data.split(b">")` (pinned tree), 1 = `re.split(rb"(?<![^\\n])>", data)` (proposed fix C06-1);
    None = unrecognised (the correspondence will then be run against variant 0 and must show the difference)"""
    src = (core.REPO / "src" / "cogent3" / "parse" / "fasta.py").read_text()
    lines = [l.strip() for l in src.split("\n") if l.strip().startswith("records =")]
    if lines == ['records = data.split(b">")']:
        return 0
    if lines == ['records = re.split(rb"(?<![^\\n])>", data)']:
        return 1
    return None


def fasta_cr_variant():
    """True when the bytes FASTA parser converts CR-only line ends (fix C06-8b): fail-closed text match"""
    src = (core.REPO / "src" / "cogent3" / "parse" / "fasta.py").read_text()
    return 'data = data.replace(b"\\r", b"\\n")' in src


def gb_strip_variant():
    """iter_genbank_records: 0 = `if record.isspace():` (pinned), 1 = `record = record.lstrip()` + `if not record:`
    (proposed fix C06-7); None = unrecognised (variant 0 used, the correspondence must show the difference)"""
    src = (core.REPO / "src" / "cogent3" / "parse" / "genbank.py").read_text()
    body = src[src.index('for record in data.split(b"\\n//"):'):][:400] if 'for record in data.split(b"\\n//"):' in src else ""
    if "record = record.lstrip()" in body and "if not record:" in body:
        return 1
    if "if record.isspace():" in body:
        return 0
    return None


# ------------------------------------------------------------------ generators

NAME_CH = "abcXYZ019_|.;:()'\"#%>- "
TRICKY_NAMES = ["a", "a b", "a>b", " a", "b ", "abcdefghi", "abcdefghij", "abcdefghijk", "#a", "%a", ">a", "a|b",
                "a;b:(c)'d\"", "seq_1", "1234567890", "abcdefghiX", "abcdefghiY", "x  y", "a#b", "a%b", "-", "a>"]


def rand_name(rng, problem=None):
    if problem == "gt":
        base = rng.choice(["a>b", "x>", "s>1 t", "ab>cd>e"])
        return base
    if problem == "outer":
        return rng.choice([" a", "b ", " c d ", "  e"])
    r = rng.random()
    if r < 0.35:
        n = rng.choice([t for t in TRICKY_NAMES if ">" not in t and t == t.strip()])
    else:
        L = rng.choice([1, 2, 3, 5, 8, 9, 9, 10, 10, 11, 12])
        n = "".join(rng.choice(NAME_CH.replace(">", "")) for _ in range(L)).strip() or "n"
    return n


def rand_seq(rng, moltype, L, gaps=True):
    al = ALPHA[moltype]
    s = [rng.choice(al) for _ in range(L)]
    if gaps and L and rng.random() < 0.5:
        for _ in range(rng.choice([1, 1, 2, 3])):
            i = rng.randrange(L)
            k = rng.choice([1, 1, 2, 3, 7])
            for j in range(i, min(L, i + k)):
                s[j] = "-"
        if rng.random() < 0.2:
            s[rng.randrange(L)] = "?"
    return "".join(s)


LENS_SMALL = [1, 2, 3, 4, 5, 6, 7, 8, 9, 10, 11, 12]
LENS_BIG = [59, 60, 61, 119, 120, 121]
WIDTHS = [1, 2, 3, 4, 5, 7, 10, 60, None, None]


DOTTED_STEMS = ["ENSG00000012048.23", "a.b.c", "x.1", "v1.0.2", "my.gz", "seq.2024-07.final_v2"]
SUFFIX_FORMATS = ["fasta", "fa", "phylip", "paml", "gde", "json", "gb", "nex", "tsv", "txt", "FASTA", "Phylip"]
SUFFIX_COMPRESSIONS = ["", "gz", "bz2", "zip", "GZ"]


def oracle_suffixes(name):
    """(format, compression) of a legal file name, written from the documentation: the format is the last suffix when the
    name is not compressed and the second-to-last when the last one is gz / bz2 / zip; the compression is that last one or
    None; suffixes are reported lower-case.  None = the oracle does not speak about this name (hidden file, empty
    component, no stem)"""
    base = name.rsplit("/", 1)[-1]
    comps = base.split(".")
    if len(comps) < 2 or not all(comps):
        return None
    last = comps[-1].lower()
    if last in ("gz", "bz2", "zip"):
        return [comps[-2].lower() if len(comps) >= 3 else None, last]
    return [last, None]


def suffix_cases(tier):
    """deterministic grid: stems (plain and with periods, with directories containing periods) x formats x compressions,
    plus edge names (model vs implementation only)"""
    out = []
    stems = ["x", "seqs"] + DOTTED_STEMS + ["dir.v2/x", "dir.v2/a.b.c", "/tmp/t.d/ENSG0001.5"]
    for st in stems:
        for f in SUFFIX_FORMATS:
            for cp in SUFFIX_COMPRESSIONS:
                out.append(dict(kind="suffixes", name=st + "." + f + ("." + cp if cp else ""), block="suffix-grid"))
    for st in stems:
        for cp in SUFFIX_COMPRESSIONS[1:]:
            out.append(dict(kind="suffixes", name=st + "." + cp, block="suffix-grid"))
    for nm in ["noext", ".fasta", ".hidden.fasta", "x.", "x..gde", "a..b.fasta.gz", "x.fasta.", ".gz", "x.tar.gz", "a.b/c",
               "a.b/.c", "x.fasta.gz.bz2", "x.gz.fasta", "x.gz.gz"]:
        out.append(dict(kind="suffixes", name=nm, block="suffix-edge"))
    if tier == "quick":
        out = out[::3] + [c for c in out if c["block"] == "suffix-edge"]
    return out


def dotted_round_cases(rng, tier):
    """every writable format incl. json x {plain, .gz, .bz2} x file stems with and without periods, on a plainly
    representable alignment: an exception on write / load of such a legal name is a violation"""
    out = []
    stems = DOTTED_STEMS if tier != "quick" else DOTTED_STEMS[:4]
    for fmt in FMTS + ["json"]:
        for suffix in ("", ".gz", ".bz2"):
            for st in stems + ["plain"]:
                L = rng.choice([4, 7, 12])
                recs = [["s1", rand_seq(rng, "dna", L, gaps=False)], ["s2", rand_seq(rng, "dna", L, gaps=False)]]
                out.append(dict(kind="round", fmt=fmt, w=rng.choice([None, 5]), recs=recs, moltype="dna", aligned=True,
                                suffix=suffix, new_type=False, stem=st, block="dotted-stem"))
    return out


def rand_round(rng, problem_rate=0.12):
    fmt = rng.choice(FMTS + FMTS + ["json"])      # json: library serialisation, oracle only (no model)
    moltype = rng.choice(["dna", "dna", "rna", "protein"])
    aligned = rng.random() < 0.7
    problem = None
    if rng.random() < problem_rate:
        # names with a blank at either end are emitted once per format by the corpus block (known findings
        # round:<fmt>:name-outer-blank); the random block steers away from them so that other failures are searched
        problem = rng.choice(["gt", "unequal", "empty"])
    if problem == "unequal":
        aligned = False
    nrec = rng.choice([1, 2, 2, 3, 4])
    w = rng.choice(WIDTHS)
    if rng.random() < 0.2:
        L0 = rng.choice(LENS_BIG + [rng.randint(13, 130)])
    else:
        L0 = rng.choice(LENS_SMALL)
        if w and rng.random() < 0.5:
            L0 = max(1, w * rng.choice([1, 2, 3]) + rng.choice([-1, 0, 0, 1]))
            L0 = min(L0, 181)
    names, recs = set(), []
    for i in range(nrec):
        n = rand_name(rng, problem if (problem in ("gt", "outer") and i == 0) else None)
        if rng.random() < 0.15 and recs and len(recs[0][0]) >= 9:
            n = recs[0][0][:9] + rng.choice("XYZ")       # shared 9-prefix
        while n in names:
            n += "x"
        names.add(n)
        L = L0 if (aligned or (problem != "unequal" and rng.random() < 0.5)) else max(1, L0 + rng.choice([-3, -1, 1, 2, 5]))
        if problem == "empty":
            L = 0 if (aligned or i == 0) else L
        if not aligned and problem is None and fmt in ("phylip", "paml"):
            L = L0
        s = rand_seq(rng, moltype, L, gaps=aligned)
        if rng.random() < 0.08:
            s = s.lower()
        recs.append([n, s])
    suffix = rng.choice(["", "", "", ".gz", ".bz2"])
    stem = rng.choice(DOTTED_STEMS) if rng.random() < 0.3 else "x"
    return dict(kind="round", fmt=fmt, w=w, recs=recs, moltype=moltype, aligned=aligned, suffix=suffix,
                new_type=(not aligned and rng.random() < 0.25), stem=stem, block="random")


def corpus_cases():
    cs = []
    for fmt in FMTS + ["json"]:
        cs.append(dict(kind="round", fmt=fmt, w=None, recs=[["a>b", "ACGT"], ["c", "ACGT"]], moltype="dna", aligned=True,
                       suffix="", new_type=False, block="corpus"))
        cs.append(dict(kind="round", fmt=fmt, w=None, recs=[[" a", "ACGT"], ["b ", "ACGT"]], moltype="dna", aligned=True,
                       suffix="", new_type=False, block="corpus"))
        cs.append(dict(kind="round", fmt=fmt, w=None, recs=[["a", "AC"], ["b", "ACGT"]], moltype="dna", aligned=False,
                       suffix="", new_type=False, block="corpus"))
        cs.append(dict(kind="round", fmt=fmt, w=3, recs=[["abcdefghij", "ACGTAC"], ["a b", "AC--AC"]], moltype="dna",
                       aligned=True, suffix=".gz", new_type=False, block="corpus"))
        cs.append(dict(kind="round", fmt=fmt, w=None, recs=[["s1", "ACGT" * 30], ["s2", "A-GT" * 30]], moltype="dna",
                       aligned=True, suffix=".bz2", new_type=False, block="corpus"))
    # 10+ character name whose 9-character truncation ends in a blank (same known finding as ' a')
    cs.append(dict(kind="round", fmt="phylip", w=None, recs=[["abcdefgh ij", "ACGT"], ["b", "ACGT"]], moltype="dna",
                   aligned=True, suffix="", new_type=False, block="corpus"))
    # names that collide after the 9-character truncation, old and new collection types
    for nt in (False, True):
        cs.append(dict(kind="round", fmt="phylip", w=None, recs=[["abcdefghiX", "ACGT"], ["abcdefghiY", "ACGA"]],
                       moltype="dna", aligned=False, suffix="", new_type=nt, block="corpus"))
    # non-ASCII names: outside the property (printable-ASCII names), run and counted, never judged
    for fmt in FMTS:
        cs.append(dict(kind="round", fmt=fmt, w=None, recs=[["caf\u00e9", "ACGT"], ["\u4e2d", "ACGA"]], moltype="dna",
                       aligned=True, suffix="", new_type=False, block="corpus"))
    # JSON of a new-type collection through load_unaligned_seqs; unaligned collection in PAML
    cs.append(dict(kind="round", fmt="json", w=None, recs=[["a", "ACGT"], ["b", "AC"]], moltype="dna", aligned=False,
                   suffix="", new_type=True, block="corpus"))
    cs.append(dict(kind="round", fmt="paml", w=1, recs=[["a", "GG"], ["b", "GTCTGC"], ["ccc", "C"]], moltype="dna",
                   aligned=False, suffix="", new_type=False, block="corpus"))
    cs.append(dict(kind="parse", which=2, text=">a>b\nACGT\n", block="corpus", wf="fasta"))
    cs.append(dict(kind="parse", which=1, text=">a>b\nACGT\n", block="corpus", wf="fasta"))
    cs.append(dict(kind="parse", which=0, text=">a>b\nACGT\n", block="corpus", wf="fasta"))
    return cs


def exhaustive_block(tier):
    names = ["a", "a b", "abcdefghi", "abcdefghij", "#a", "%a", "a|b;c", "abcdefghiZ"]
    seqs = ["A", "AC-", "ACGT", "ACGTA"]
    widths = [1, 2, 4, 60]
    out = []
    k = 0
    for fmt in FMTS:
        for w in widths:
            for n1, s1 in itertools.product(names, seqs):
                out.append(dict(kind="round", fmt=fmt, w=w, recs=[[n1, s1]], moltype="dna", aligned=True, suffix="",
                                new_type=False, block="exhaustive"))
            for (n1, n2) in itertools.permutations(names, 2):
                for s1, s2 in itertools.product(seqs, seqs):
                    if len(s1) != len(s2) and fmt in ("phylip", "paml"):
                        continue
                    k += 1
                    out.append(dict(kind="round", fmt=fmt, w=w, recs=[[n1, s1], [n2, s2]], moltype="dna",
                                    aligned=len(s1) == len(s2), suffix="", new_type=False, block="exhaustive"))
    if tier == "quick":
        out = out[::41]
    else:
        out = out[::3]
    return out


def py_fasta_text(recs, w, lch=">"):
    """inputs for parse cases only (not an oracle): a plainly formatted text"""
    out = []
    for n, s in recs:
        out.append(lch + n)
        out += [s[i:i + w] for i in range(0, len(s), w)]
    return "\n".join(out) + "\n"


def mutate_text(rng, t):
    lines = t.split("\n")
    for _ in range(rng.choice([1, 1, 2, 3])):
        r = rng.random()
        i = rng.randrange(len(lines))
        if r < 0.15:
            lines.insert(i, "")
        elif r < 0.3:
            lines.insert(i, "#" + rng.choice(["c", " comment", ""]))
        elif r < 0.45:
            lines[i] = rng.choice([" ", "  ", "\t"]) + lines[i] + rng.choice(["", " "])
        elif r < 0.55:
            lines[i] = lines[i].lower()
        elif r < 0.65:
            lines[i] = lines[i] + rng.choice([">x", " >", ">"])
        elif r < 0.75 and len(lines) > 1:
            del lines[i]
        elif r < 0.85:
            lines.insert(i, rng.choice([">", "%", ">e", "%e", "   "]))
        else:
            lines[i] = lines[i][: len(lines[i]) // 2] + " " + lines[i][len(lines[i]) // 2:]
    t2 = "\n".join(lines)
    r = rng.random()
    if r < 0.15:
        t2 = t2.replace("\n", "\r\n")
    elif r < 0.2:
        t2 = t2.replace("\n", "\r")
    elif r < 0.3:
        t2 = t2.rstrip("\n")
    return t2


def wf_recs(rng, lch=">"):
    """well-formed records for texts: names may contain '>' (legal inside a FASTA label)"""
    nrec = rng.choice([1, 2, 3])
    recs, names = [], set()
    for _ in range(nrec):
        n = rand_name(rng, "gt" if rng.random() < 0.1 else None)
        while n in names:
            n += "x"
        names.add(n)
        recs.append([n, rand_seq(rng, "dna", rng.choice([1, 2, 3, 4, 5, 8, 9]))])
    return recs


def rand_parse_cases(rng, n):
    out = []
    for _ in range(n):
        r = rng.random()
        if r < 0.24:
            recs = wf_recs(rng)
            t = py_fasta_text(recs, rng.choice([1, 2, 3, 4, 60]))
            for which in (0, 1, 2):
                out.append(dict(kind="parse", which=which, text=t, wf="fasta", block="random"))
        elif r < 0.36:
            recs = wf_recs(rng)
            t = decorate_text(rng, recs, rng.choice([1, 2, 3, 4, 60]))
            for which in (0, 1, 2):
                out.append(dict(kind="parse", which=which, text=t, wf="fasta", block="random"))
        elif r < 0.4:
            recs = wf_recs(rng)
            t = py_fasta_text(recs, rng.choice([1, 2, 3, 60]), "%")
            for which in (3, 4):
                out.append(dict(kind="parse", which=which, text=t, wf="gde", block="random"))
        elif r < 0.6:
            recs = wf_recs(rng)
            t = mutate_text(rng, py_fasta_text(recs, rng.choice([2, 3, 60]), rng.choice(">>%")))
            for which in rng.sample([0, 1, 2, 3, 4], 3):
                out.append(dict(kind="parse", which=which, text=t, wf=None, block="random"))
        elif r < 0.8:
            L = rng.randint(0, 12)
            t = "".join(rng.choice(">#% \n\n\rAaC-b1") for _ in range(L))
            which = rng.choice([0, 1, 2, 2, 3, 4, 5, 6])
            if which in (5, 6) and rng.random() < 0.85:
                t = f"{rng.choice([0, 1, 2, 3])}{rng.choice(['  ', ' ', chr(9)])}{rng.choice([0, 1, 2, 4])}\n" + t
            out.append(dict(kind="parse", which=which, text=t, wf=None, block="random"))
        else:
            # phylip / paml shaped text with mutations
            nrec = rng.choice([1, 2, 3])
            L = rng.choice([1, 2, 4, 5])
            w = rng.choice([2, 3, 60])
            names = [rng.choice(["a", "bb", "a b", "abcdefghi", "x>y"]) + str(i) for i in range(nrec)]
            seqs = [rand_seq(rng, "dna", L) for _ in range(nrec)]
            if rng.random() < 0.5:
                lines = [f"{nrec}  {L}"]
                ten = rng.random() < 0.35      # strict PHYLIP: the id occupies all 10 columns
                for nm, s in zip(names, seqs):
                    for k, b in enumerate(range(0, L, w)):
                        first = ((nm + "_" * 10)[:10]) if ten else ("%-10s" % nm[:9])
                        lines.append((first if k == 0 else " " * 10) + s[b:b + w])
                which = 5
            else:
                lines = [f"{nrec}  {L}"]
                ind = rng.choice(["", "", " ", "\t"])   # indented lines
                for nm, s in zip(names, seqs):
                    lines.append(ind + nm)
                    lines += [ind + s[b:b + w] for b in range(0, L, w)]
                which = 6
            t = "\n".join(lines) + "\n"
            if rng.random() < 0.6:
                body = t.split("\n", 1)
                t = body[0] + "\n" + mutate_text(rng, body[1]) if len(body) > 1 else t
            out.append(dict(kind="parse", which=which, text=t, wf=None, block="random"))
    return out


def phylip_texts(recs, w, indent=10, blank=True, header="{n}  {m} I"):
    """(interleaved text, sequential text) of an alignment, rendered here from the format description"""
    n, m = len(recs), len(recs[0][1])
    nb = (m + w - 1) // w
    il = [header.format(n=n, m=m)]
    for k in range(nb):
        if k and blank:
            il.append("")
        for name, s in recs:
            il.append((("%-10s" % name[:9]) if k == 0 else " " * indent) + s[k * w:(k + 1) * w])
    sq = [f"{n}  {m}"]
    for name, s in recs:
        for k in range(nb):
            sq.append((("%-10s" % name[:9]) if k == 0 else " " * 10) + s[k * w:(k + 1) * w])
    return "\n".join(il) + "\n", "\n".join(sq) + "\n"


def interleaved_cases(rng, ncases):
    """generated interleaved PHYLIP texts (the writer never emits them) for the interleaved branch of the parser,
    together with the sequential rendering of the same alignment"""
    out = []
    for i in range(ncases):
        nrec = rng.choice([1, 2, 3, 4])
        L = rng.choice([1, 2, 5, 9, 10, 11, 23])
        w = rng.choice([1, 2, 3, 5, 10, 60])
        names, recs = set(), []
        for j in range(nrec):
            n = rand_name(rng)
            while (n[:9] in {x[:9] for x in names}) or n[:9] != n[:9].strip() or not n[:9]:
                n = "s%d%s" % (j, rng.choice(["", "_long_name_x", " y"]))
            names.add(n)
            recs.append([n, rand_seq(rng, "dna", L)])
        std = i % 2 == 0
        if std:
            indent, blank, header = 10, True, "{n}  {m} I"
        else:
            indent = rng.choice([0, 3, 10])
            blank = rng.random() < 0.5
            header = rng.choice(["{n}  {m} I", "{n} {m} I", " {n} {m}  I", "{n}  {m} interleaved"])
        il, sq = phylip_texts(recs, w, indent, blank, header)
        exp = [[n[:9], q] for n, q in recs]
        out.append(dict(kind="parse", which=5, text=il, wf="phylip", expected=exp, block="interleaved",
                        il_std=dict(w=w, recs=recs) if std else None,
                        variant=f"indent{indent}:{'blank' if blank else 'noblank'}"))
        out.append(dict(kind="parse", which=5, text=sq, wf="phylip", expected=exp, block="interleaved", il_std=None,
                        variant="sequential"))
    return out


GB_EXTRA = ["DEFINITION  Homo sapiens test record.", "ACCESSION   AB000001", "VERSION     AB000001.1  GI:12345",
            "KEYWORDS    .", "COMMENT     a comment\n            continued on a second line.", "DBLINK      BioProject: PRJ1"]


def gb_text(recs, locus_style=0):
    """a GenBank flat file rendered here from the format description: recs = [(name, [extra lines], seq)]"""
    out = []
    for name, extra, seq in recs:
        if locus_style == 0:
            out.append("LOCUS       %s %d bp    DNA" % (name, len(seq)))
        else:
            out.append("LOCUS       %-16s %7d bp    DNA     linear   UNA 01-JAN-2000" % (name, len(seq)))
        out += extra
        out.append("ORIGIN" + ("      " if locus_style else ""))
        for i in range(0, len(seq), 60):
            row = seq[i:i + 60]
            out.append("%9d" % (i + 1) + "".join(" " + row[j:j + 10] for j in range(0, len(row), 10)))
        out.append("//")
    return "\n".join(out) + "\n"


def wf_gb_records(t):
    """oracle's own reading of a well-formed GenBank text (LOCUS name, residues of the ORIGIN block), or None"""
    if not t.endswith("//\n"):
        return None
    recs = []
    for block in t[:-3].split("//\n"):
        lines = block.split("\n")
        if lines[-1] == "":
            lines = lines[:-1]
        if not lines or not lines[0].startswith("LOCUS "):
            return None
        tok = lines[0].split()
        if len(tok) < 3 or not tok[2].isdigit():
            return None
        try:
            k = [ln.rstrip() for ln in lines].index("ORIGIN")
        except ValueError:
            return None
        for ln in lines[1:k]:
            if not ln or ln.split()[0] in ("SOURCE", "REFERENCE", "FEATURES", "LOCUS", "ORIGIN", "//"):
                return None
        seq = ""
        for ln in lines[k + 1:]:
            f = ln.split()
            if not f or not f[0].isdigit() or not all(x.isalpha() and x.islower() for x in f[1:]):
                return None
            seq += "".join(f[1:])
        if not seq:
            return None
        recs.append([tok[1], seq])
    return recs


def rand_gb_recs(rng, nrec):
    recs = []
    for i in range(nrec):
        name = rng.choice(["AB123", "X2", "NC_000913", "seq%d" % i, "a|b", "Z9.1"]) + (str(i) if i else "")
        L = rng.choice([1, 5, 9, 10, 11, 59, 60, 61, 75, 120, 121])
        seq = "".join(rng.choice("acgtn") for _ in range(L))
        extra = []
        for e in rng.sample(GB_EXTRA, rng.choice([0, 0, 1, 2, 3])):
            extra += e.split("\n")
        recs.append((name, extra, seq))
    return recs


def gb_cases(rng, ncases):
    out = []
    for k in range(ncases):
        nrec = rng.choice([1, 1, 2, 3])
        recs = rand_gb_recs(rng, nrec)
        t = gb_text(recs, rng.choice([0, 1]))
        wf = True
        if k % 3 == 2:       # ill-formed variants: model vs implementation only
            wf = False
            lines = t.split("\n")
            r = rng.random()
            i = rng.randrange(len(lines))
            if r < 0.2:
                lines.insert(i, "")
            elif r < 0.35:
                lines = [ln for ln in lines if ln != "//"] if rng.random() < 0.5 else lines[:-2]
            elif r < 0.5:
                lines.insert(0, rng.choice(["", " ", "junk"]))
            elif r < 0.6:
                lines = [ln.upper() if not ln.startswith(("LOCUS", "ORIGIN")) else ln for ln in lines]
            elif r < 0.7:
                lines = [ln for ln in lines if not ln.startswith("ORIGIN")]
            elif r < 0.8:
                lines[0] = rng.choice(["LOCUS", "LOCUS       nm", "LOCUS       nm xx bp", "locus       nm 5 bp"])
            elif r < 0.9:
                lines.insert(1, rng.choice(["Sequence    overriding", "Locus       other", "?           q", "WGS         AB01-AB09"]))
            else:
                lines[i] = lines[i] + "  "
            t = "\n".join(lines)
            if rng.random() < 0.2:
                t = t.rstrip("\n")
        base = dict(text=t, wf_gb=wf, nrec=nrec, block="genbank")
        for which in (0, 1) + ((3, 4) if wf else ()):
            out.append(dict(base, kind="gb", which=which))
        if wf:
            for suffix in rng.sample(["", ".gz", ".bz2"], 2):
                for n in (rng.choice([1, 2, 3, 7, 61]), ["disk", rng.choice([-1, 0, 1])], ["len", rng.choice([-1, 1])],
                          ["mid"]):
                    out.append(dict(base, kind="gbstream", n=n, suffix=suffix))
    return out


def rand_iter_cases(rng, n):
    out = []
    for _ in range(n):
        r = rng.random()
        if r < 0.6:
            L = rng.randint(0, 14)
            t = "".join(rng.choice("ab\n\n") for _ in range(L))
        elif r < 0.75:
            L = rng.randint(1, 14)
            t = "".join(rng.choice("ab\n\x0c\x0b\x1c\x1d") for _ in range(L))
        else:
            t = py_fasta_text(wf_recs(rng), rng.choice([2, 3, 60]))
            if rng.random() < 0.3:
                t = t.rstrip("\n")
        for cs in rng.sample([1, 2, 3, 4, 7, 61, 1000000], 3):
            out.append(dict(kind="iter", n=cs, text=t, block="random"))
        if rng.random() < 0.3:
            out.append(dict(kind="split", text=t.replace("\n", rng.choice(["\r\n", "\r", "\n"])), block="random"))
    return out


def csize_of(text, suffix):
    """size on disk of the file c06_impl writes for `text` (same deterministic compression calls)"""
    import bz2
    import gzip

    raw = text.encode("utf8")
    if suffix == ".gz":
        return len(gzip.compress(raw, mtime=0))
    if suffix == ".bz2":
        return len(bz2.compress(raw))
    return len(raw)


def chunk_sizes_for(rng, text, suffix, k):
    """chunk sizes around every boundary that matters: 1,2,3,7, the size on disk +-1, the text length +-1, beyond"""
    L, cs = len(text), csize_of(text, suffix)
    cand = {1, 2, 3, 7, 61, cs - 1, cs, cs + 1, L - 1, L, L + 1, 2 * L + 5, 1000000}
    cand = sorted(x for x in cand if x >= 1)
    must = [x for x in (cs - 1, cs, cs + 1, L - 1, L) if x >= 1]
    pick = set(rng.sample(must, min(len(must), max(1, k // 2))))
    while len(pick) < min(k, len(cand)):
        pick.add(rng.choice(cand))
    return sorted(pick)


def long_text(rng):
    """texts whose compressed size is smaller (repetitive) or larger (short / random) than the text"""
    r = rng.random()
    if r < 0.4:      # highly repetitive
        unit = rng.choice(["ACGT", "AC-T", "a", "ab"]) * rng.choice([1, 3, 15])
        t = "\n".join([unit] * rng.randint(3, 40))[: rng.choice([150, 300, 600])] + rng.choice(["\n", "", "\n\n"])
    elif r < 0.7:    # random residues, medium length
        L = rng.choice([120, 200, 400, 600])
        t = "".join(rng.choice("ACGT" * 6 + "\n") for _ in range(L)) + rng.choice(["\n", ""])
    elif r < 0.85:   # writer-like text
        t = py_fasta_text(wf_recs(rng), rng.choice([2, 3, 60]), rng.choice(">%"))
    else:            # short: compression grows it
        t = "".join(rng.choice("ab\n") for _ in range(rng.randint(0, 30)))
    return t


def all_chunk_sizes(text, suffix):
    L, cs = len(text), csize_of(text, suffix)
    return sorted(x for x in {1, 3, 7, cs - 1, cs, cs + 1, (cs + L) // 2, L - 1, L, L + 1, 1000000} if x >= 1)


def grid_iter_cases(rng):
    """deterministic grid: {plain, .gz, .bz2} x {compression shrinks the text, grows it} x every boundary chunk size"""
    out = []
    texts = [
        "\n".join(["ACGT" * 15] * 8) + "\n",                                  # repetitive, 488 chars
        ("%s\n" % ("ab" * 3)) * 40,                                            # repetitive short lines, 280 chars
        "".join(rng.choice("ACGT" * 6 + "\n") for _ in range(420)),            # random residues: still shrinks
        "".join(rng.choice("ACGT" * 6 + "\n") for _ in range(200)) + "\n",
        "".join(rng.choice("ab\n") for _ in range(25)),                        # short: grows
        "ab\ncd\n",
    ]
    for t in texts:
        for suffix in ("", ".gz", ".bz2"):
            for n in all_chunk_sizes(t, suffix):
                out.append(dict(kind="iter", n=n, text=t, suffix=suffix, block="file-grid"))
    return out


def compressed_iter_cases(rng, ntexts, per_text=4):
    out = []
    for _ in range(ntexts):
        t = long_text(rng)
        for suffix in rng.sample(["", ".gz", ".bz2"], rng.choice([2, 3])):
            for n in chunk_sizes_for(rng, t, suffix, per_text):
                out.append(dict(kind="iter", n=n, text=t, suffix=suffix, block="random-file"))
    return out


def stream_recs(rng, fmt, moltype, shrink):
    nrec = 4 if shrink else rng.choice([1, 2])
    L = rng.choice([120, 200]) if shrink else rng.choice([3, 6])
    names, recs = set(), []
    for i in range(nrec):
        n = (rand_name(rng)[:7].strip() or "n").replace(" ", "_")
        while n in names:
            n = n[:6] + str(i)
        names.add(n)
        sq = (rng.choice(ALPHA[moltype]) * L) if shrink else rand_seq(rng, moltype, L)
        recs.append([n, sq])
    return recs


def grid_stream_cases(rng):
    """deterministic grid: {gde, phylip, paml} x {plain, .gz, .bz2} x {shrinks, grows} x chunk sizes placed relative to
    the real size on disk and the decoded length (resolved by the runner after the real writer wrote the file)"""
    out = []
    for fmt in ("gde", "phylip", "paml"):
        for suffix in ("", ".gz", ".bz2"):
            for shrink in (True, False):
                if suffix == "" and shrink:
                    continue
                recs = stream_recs(rng, fmt, "dna", shrink)
                if shrink:
                    specs = [3, ["disk", -1], ["disk", 0], ["disk", 1], ["mid"], ["len", -1], ["len", 1]]
                else:
                    specs = [2, ["len", -1], ["len", 0], ["len", 1]]
                for n in specs:
                    out.append(dict(kind="stream", fmt=fmt, suffix=suffix, n=n, recs=recs, w=rng.choice([10, 60, None]),
                                    moltype="dna", block="file-grid"))
    return out


def stream_cases(rng, ncases):
    """random: phylip / paml / gde written by the real writer into plain / .gz / .bz2 files and parsed through
    parser(iter_splitlines(path, chunk_size=n)) with small explicit chunk sizes"""
    out = []
    for _ in range(ncases):
        fmt = rng.choice(["gde", "phylip", "paml"])
        moltype = rng.choice(["dna", "dna", "protein"])
        recs = stream_recs(rng, fmt, moltype, rng.random() < 0.6)
        w = rng.choice([7, 10, 60, None])
        suffix = rng.choice(["", ".gz", ".gz", ".bz2", ".bz2"])
        for n in [rng.choice([1, 2, 3, 7]), rng.choice([20, 45, 61, 90, 130]), rng.choice([["disk", 0], ["mid"], ["len", -1]])]:
            out.append(dict(kind="stream", fmt=fmt, suffix=suffix, n=n, recs=recs, w=w, moltype=moltype,
                            block="random-file"))
    return out


def big_cases(tier):
    cs = [dict(kind="big", fmt="gde", suffix=".gz", nchar=2600000, seed=11, block="big")]
    if tier != "quick":
        k = 12
        for fmt in ("gde", "phylip", "paml"):
            for suffix in (".gz", ".bz2"):
                if (fmt, suffix) != ("gde", ".gz"):
                    cs.append(dict(kind="big", fmt=fmt, suffix=suffix, nchar=2600000, seed=k, block="big"))
                    k += 1
    return cs


def exhaustive_iter(tier):
    """every text over {a, \\n} up to length 5 (6 in thorough) x every chunk size 1..len"""
    out = []
    maxL = 5 if tier == "quick" else 7
    for L in range(0, maxL + 1):
        for t in itertools.product("a\n", repeat=L):
            t = "".join(t)
            for cs in range(1, max(2, L + 1)):
                out.append(dict(kind="iter", n=cs, text=t, block="exhaustive"))
    return out


# ------------------------------------------------------------------ oracle (the specification)

def printable_ascii(s):
    return len(s) > 0 and all(0x20 <= ord(ch) <= 0x7E for ch in s)


def in_spec(c):
    """the property speaks about printable-ASCII names and dna/rna/protein sequences"""
    return all(printable_ascii(n) for n, _ in c["recs"]) and c["moltype"] in ALPHA


def representable(c, made):
    """what the format can carry, written from the format descriptions (independent of model and code)"""
    fmt = c["fmt"]
    names = [n for n, _ in made]
    seqs = [s for _, s in made]
    if fmt == "json":
        return all(printable_ascii(n) for n in names)
    if not all(printable_ascii(n) and n == n.strip() for n in names):
        return False
    if fmt != "fasta" and any(len(s) == 0 for s in seqs):
        return False          # (json returned above; FASTA carries a zero-length sequence as a label without residues)
    if fmt in ("phylip", "paml") and len({len(s) for s in seqs}) != 1:
        return False
    if fmt == "phylip" and (len({n[:9] for n in names}) != len(names) or any(n[:9] != n[:9].strip() for n in names)):
        return False
    return True


def expected_round(c, made):
    """records in = records out; sequences are compared modulo ASCII case (the FASTA and PAML parsers are
    documented to coerce to upper case, and dna/rna/protein collections of the old type do so at construction)"""
    if c["fmt"] == "phylip":
        return [[n[:9], s.upper()] for n, s in made]
    return [[n, s.upper()] for n, s in made]


def upper_recs(recs):
    return [[n, s.upper()] for n, s in recs]


def shape_of(c, made):
    """coarse classifier of a round-trip case, the FIRST applicable shape (format-aware order: the shapes a format
    cannot carry come first)"""
    fmt = c["fmt"]
    names = [n for n, _ in made]
    seqs = [s for _, s in made]
    unequal = len({len(s) for s in seqs}) > 1
    if fmt == "json":
        return "new-type" if c.get("new_type") else "old-type"
    if fmt == "phylip" and len({n[:9] for n in names}) != len(names):
        return "name-collision"
    if fmt in ("phylip", "paml") and unequal:
        return "unequal-lengths"
    if fmt == "fasta" and any(">" in n for n in names):
        return "name-has-gt"
    if any(n != n.strip(" ") for n in names) or (fmt == "phylip" and any(n[:9] != n[:9].strip(" ") for n in names)):
        return "name-outer-blank"
    if any(len(s) == 0 for s in seqs):
        return "seq-empty"
    if unequal:
        return "unequal-lengths"
    if any(" " in n for n in names):
        return "name-inner-blank"
    if fmt == "phylip" and any(len(n) > 9 for n in names):
        return "name-10plus"
    if "." in c.get("stem", "x"):
        return "dotted-stem"
    if c.get("suffix"):
        return "compressed"
    return "plain"


def wf_fasta_text(t, lch=">"):
    """oracle's own definition of a well-formed FASTA (GDE) text, written from the format description: returns the
    records a reader must produce (label without surrounding blanks, residues without white space) or None.
    Lines end with \\n, \\r\\n or \\r (the three text-file conventions; no \\r may survive in a label or a sequence).
    Label lines start with the label character, the label is any printable ASCII / TAB text (blanks at either end
    and '>' inside allowed); below a label come lines of upper-case residues (letters - ? * .) with blanks / tabs
    anywhere, possibly empty; a FASTA label WITHOUT residues is returned as (label, "") so that the caller can recognise
    the text as malformed (label-only record: outside the parser-agreement clause); no line starts with '#' and only
    label lines with '>' / '%'."""
    if not t:
        return None
    t = t.replace("\r\n", "\n").replace("\r", "\n")
    if any(ord(ch) > 126 or (ord(ch) < 32 and ch not in "\n\t") for ch in t):
        return None
    lines = t.split("\n")
    if lines[-1] == "":
        lines = lines[:-1]
    else:
        return None          # the theorems speak about terminated text
    recs = []
    for ln in lines:
        if ln.startswith(lch):
            if recs and not any(recs[-1][1]) and lch != ">":
                return None
            recs.append([ln[1:].strip(), []])
        else:
            if not recs:
                return None
            if ln[:1] in (">", "#", "%"):
                return None
            if not all(ch.isupper() or ch in "-?*. \t" for ch in ln):
                return None
            recs[-1][1].append(ln)
    if not recs or (not any(recs[-1][1]) and lch != ">"):
        return None
    return [[n, "".join("".join(p).split())] for n, p in recs]


def text_shape(text, exp):
    """coarse class of a well-formed text for the violation key (first applicable)"""
    if "\r" in text and "\n" not in text:
        return "cr-only-line-ends"
    if "\r" in text:
        return "crlf"
    if any(">" in n for n, _ in exp):
        return "label-has-gt"
    return "plain"


def eol_variant(rng, t, how):
    if how == "crlf":
        return t.replace("\n", "\r\n")
    if how == "cr":
        return t.replace("\n", "\r")
    if how == "mixed":
        return "".join((rng.choice(["\n", "\r\n"]) if ch == "\n" else ch) for ch in t)
    if how == "last-cr":           # the last line ends with a lone \r
        return t[:-1] + "\r" if t.endswith("\n") else t
    return t


def eol_empty_parse_cases(rng, n):
    """FASTA texts with an empty record in first / middle / last position and with CRLF / CR / mixed line ends, for
    the bytes parser (what load_*_seqs uses) and the strict / non-strict line parsers"""
    out = []
    fixed = [">a\n>b\nAC\n>c\nGT\n", ">a\nAC\n>b\n>c\nGT\n", ">a\nAC\n>b\nGT\n>c\n", ">a\nAC\n>b\n\n>c\nGT\n", ">a\n",
             ">a\r\nAC\r\nGT\r\n>b\r\nTT\r\n", ">a \r\nAC\r\n\r\n>b\r\nT T\r\n", ">a\nAC\r\n>b\nTT\r", ">a\rAC\r>b\rTT\r",
             ">a\r\n>b\r\nAC\r\n"]
    texts = list(fixed)
    for _ in range(n):
        recs = wf_recs(rng)
        r = rng.random()
        if r < 0.2:
            k = rng.randrange(len(recs) + 1)
            recs = recs[:k] + [[("e%d" % k), ""]] + recs[k:]
        t = py_fasta_text(recs, rng.choice([1, 2, 3, 60])) if rng.random() < 0.6 else decorate_text(rng, [x for x in recs if x[1]] or [["z", "A"]], 3)
        texts.append(eol_variant(rng, t, rng.choice(["lf", "crlf", "crlf", "mixed", "last-cr", "cr"])))
    for t in texts:
        for which in (0, 1, 2):
            out.append(dict(kind="parse", which=which, text=t, wf="fasta", block="eol-empty"))
    return out


def empty_seq_round_cases(rng):
    """collections holding a ZERO-LENGTH sequence (first / middle / last / two of them), built directly (old and new
    type) and by degap() of an alignment with an all-gap row, written as .fasta / .fa.gz / .fasta.bz2 / .json /
    .json.gz and loaded with load_unaligned_seqs: names, order and the empty sequences must survive"""
    out = []
    layouts = {"first": ["", "ACT", "AT"], "middle": ["ACT", "", "AT"], "last": ["ACT", "AT", ""], "two": ["", "ACGT", ""]}
    for fmt, ext, suffix in (("fasta", "fasta", ""), ("fasta", "fa", ".gz"), ("fasta", "fasta", ".bz2"), ("json", "json", ""),
                             ("json", "json", ".gz")):
        for pos, seqs in layouts.items():
            recs = [[n, q] for n, q in zip(["s1", "s2", "s3"], seqs)]
            for route in ("old", "new", "degap"):
                c = dict(kind="round", fmt=fmt, ext=ext, w=rng.choice([None, 2]), recs=recs, moltype="dna", aligned=False,
                         suffix=suffix, new_type=(route == "new"), stem=rng.choice(["x", "a.b"]), block="empty-seq")
                if route == "degap":
                    L = max(len(q) for q in seqs)
                    c["recs"] = [[n, q + "-" * (L - len(q))] for n, q in recs]
                    c["degap"] = True
                out.append(c)
    return out


def decorate_text(rng, recs, w, lch=">"):
    """a well-formed text in general: blanks around labels, blank / empty lines, blanks inside sequence lines"""
    out = []
    for n, s in recs:
        lab = rng.choice(["", " ", "\t", "  "]) + n + rng.choice(["", "", " ", " \t"])
        out.append(lch + lab)
        chunks = [s[i:i + w] for i in range(0, len(s), w)] or [""]
        body = []
        for ch in chunks:
            r = rng.random()
            if r < 0.2:
                ch = rng.choice([" ", "\t"]) + ch
            elif r < 0.35:
                ch = ch + rng.choice([" ", "  ", "\t"])
            elif r < 0.5 and len(ch) > 1:
                k = rng.randrange(1, len(ch))
                ch = ch[:k] + " " + ch[k:]
            body.append(ch)
            if rng.random() < 0.2:
                body.append(rng.choice(["", " ", ""]))
        if rng.random() < 0.2:
            body.insert(0, "")
        if not any(body):
            body.append("A")
        out += body
    return "\n".join(out) + "\n"


def only_nl(t):
    return not any(ch in t for ch in "\r\x0b\x0c\x1c\x1d\x1e\x85\u2028\u2029")


# ------------------------------------------------------------------ rendering for Coq

def crecs(recs):
    return "[" + ";".join(f"({zstr(n)},{zstr(s)})" for n, s in recs) + "]"


def clrecs(recs):
    return "[" + ";".join(f"({zstr(n)},[" + ";".join(zstr(l) for l in ls) + "])" for n, ls in recs) + "]"


def fasta_lines_of(text, made):
    """recover, from the implementation's FASTA text, the lines textwrap produced for each sequence;
    None if the text does not have the shape header / lines"""
    if not made:
        return [] if text == "" else None
    if not text.endswith("\n"):
        return None
    lines = text[:-1].split("\n")
    out, i = [], 0
    for n, s in made:
        if i >= len(lines) or lines[i] != ">" + n:
            return None
        i += 1
        got, tot = [], 0
        while tot < len(s) and i < len(lines):
            got.append(lines[i])
            tot += len(lines[i])
            i += 1
        out.append([n, got])
    if i != len(lines):
        return None
    return out


def modelable(s):
    return all(ord(ch) < 128 for ch in s)


def from_val_recs(v):
    if isinstance(v, Exc):
        return {"exc": v.code}
    if v is None:
        return None
    return [[a, b] for a, b in v]


# ------------------------------------------------------------------ the check

def build_model_cases(cases, impl, variant=0, gb_variant=0):
    """-> list of (case index, tag, coq term)"""
    mc = []
    c8b = fasta_cr_variant()
    fasta_round_id = (5 if c8b else 4) if variant == 1 else 0
    bytes_which = (9 if c8b else 7) if variant == 1 else 2
    for i, (c, r) in enumerate(zip(cases, impl)):
        k = c["kind"]
        if k == "round":
            if "made" not in r or "text" not in r:
                continue
            made = r["made"]
            if c["fmt"] == "json" or not all(modelable(n) and modelable(s) for n, s in made):
                continue
            w = 60 if c["w"] is None else c["w"]
            if c["fmt"] == "fasta":
                fl = fasta_lines_of(r["text"], made)
                if fl is not None:
                    mc.append((i, "write", f"CFastaWrite {clrecs(fl)}"))
                    if all("-" not in s for _, s in made):
                        mc.append((i, "write_w", f"CFastaWriteW {zlit(w)} {crecs(made)}"))
            else:
                ctor = {"phylip": "CPhylipWrite", "paml": "CPamlWrite", "gde": "CGdeWrite"}[c["fmt"]]
                mc.append((i, "write", f"{ctor} {zlit(w)} {crecs(made)}"))
            fid = fasta_round_id if c["fmt"] == "fasta" else FMT_ID[c["fmt"]]
            mc.append((i, "round", f"CRound {fid} {zlit(w)} {crecs(made)}"))
        elif k == "parse":
            if modelable(c["text"]):
                mw = bytes_which if c["which"] == 2 else c["which"]
                mc.append((i, "parse", f"CParse {mw} {zstr(c['text'])}"))
            if c.get("il_std"):
                mc.append((i, "ilwrite", f"CPhylipILWrite {zlit(c['il_std']['w'])} {crecs(c['il_std']['recs'])}"))
        elif k == "split":
            mc.append((i, "split", f"CSplit {zstr(c['text'])}"))
        elif k == "iter":
            mc.append((i, "iter", f"CIter {zlit(c['n'])} {zstr(c['text'])}"))
        elif k == "suffixes":
            mc.append((i, "suffixes", f"CSuffixes {zstr(c['name'])}"))
        elif k == "gb":
            if c["which"] in (0, 1) and modelable(c["text"]):
                mc.append((i, "gb", f"CGb {0 if c['which'] == 0 else 1 + gb_variant} {zstr(c['text'])}"))
        elif k == "gbstream":
            if isinstance(r, dict) and "n_used" in r:
                mc.append((i, "gbstream", f"CGbStream {zlit(r['n_used'])} {zstr(c['text'])}"))
        elif k == "stream":
            if "text" in r and modelable(r["text"]):
                which = {"gde": 3, "phylip": 5, "paml": 6}[c["fmt"]]
                mc.append((i, "stream", f"CStream {which} {zlit(r['n_used'])} {zstr(r['text'])}"))
    return mc


def run_model(mc):
    vals = core.coq_eval(PROP, ["Lib.Chars", "Model.Formats", "Model.FormatsRun"], "run_case", [t for _, _, t in mc], "case",
                         shard=250)
    out = {}
    for (i, tag, _), v in zip(mc, vals):
        out[(i, tag)] = v
    return out


def small(c):
    return {k: v for k, v in c.items()}


def check_round(rep, c, r, stats):
    """oracle for one round-trip case; returns True if a violation was reported"""
    if "made" not in r:
        stats["explicit_refusals"] += 1
        return False
    made = r["made"]
    if not in_spec(c) or not all(printable_ascii(n) for n, _ in made):
        stats["outside_spec"] += 1
        return False
    shape = shape_of(c, made)
    fmt = c["fmt"]
    exp = expected_round(c, made)
    want_gfs = [c.get("ext", fmt), c.get("suffix", "").lstrip(".") or None]
    if "gfs" in r and r["gfs"] != want_gfs:
        rep.violation(f"format-suffixes:{'dotted' if '.' in c.get('stem', 'x') else 'plain'}-stem",
                      dict(case=small(c), expected_by_spec=want_gfs, observed_impl=r["gfs"], model_output=None,
                           broken="get_format_suffixes(path) is not (format, compression) of the file name"))
        return True
    if r.get("routes_differ"):
        rep.violation(f"writer-container:{fmt}", dict(case=small(c), expected_by_spec="identical text from every container type",
                                                      observed_impl=r, model_output=None,
                                                      broken="writer output depends on the input container type: " + str(r["routes_differ"])))
        return True
    if "text" in r and fmt == "fasta":
        w = 60 if c["w"] is None else c["w"]
        fl = fasta_lines_of(r["text"], made)
        bad = fl is None or any(("".join(ls) != s) or any((not l) or len(l) > w for l in ls) for (n, ls), (_, s) in zip(fl, made))
        if bad and all(len(s) > 0 for _, s in made) and representable(c, made) and not any(">" in n for n, _ in made):
            rep.violation("fasta-wrap", dict(case=small(c), expected_by_spec="header line then non-empty lines of at most "
                                             "block_size characters concatenating to the sequence", observed_impl=r,
                                             model_output=None, broken="FASTA text is not name line + wrapped sequence"))
            return True
    if "err" in r:
        if representable(c, made):
            rep.violation(f"round:{fmt}:err-{r['err']['stage']}:{shape}",
                          dict(case=small(c), expected_by_spec=exp, observed_impl=r, model_output=None,
                               broken="a representable collection could not be written and loaded back"))
            return True
        stats["explicit_refusals"] += 1
        return False
    if upper_recs(r["loaded"]) != exp:
        rep.violation(f"round:{fmt}:{shape}", dict(case=small(c), expected_by_spec=exp, observed_impl=r["loaded"],
                                                   model_output=None,
                                                   broken="records in != records out (silent difference after write + load)"))
        return True
    return False


# which registered formats (cogent3.parse.sequence.PARSERS / XML_PARSERS, cogent3.format.alignment.FORMATTERS) this check
# covers and how
FORMAT_COVERAGE = {
    "theorem+correspondence": {
        "parsers": ["fasta", "mfa", "fa", "faa", "fna", "gde", "phylip", "paml", "gb", "gbk", "gbff", "genbank"],
        "formatters": ["fasta", "mfa", "fa", "gde", "phylip", "paml"],
    },
    "correspondence only": {
        "parsers": [], "formatters": [],
        "other": ["json (write / load_*_seqs; the to_json / deserialise round trip itself is the subject of C10)",
                  "compression suffixes .gz / .bz2"],
    },
    "not covered": {
        "parsers": ["xmfa", "aln", "clustal", "msf", "nex", "nxs", "nexus"], "xml_parsers": ["gbseq", "tseq"],
        "formatters": [], "other": ["compression suffix .zip"],
    },
}


def registered_formats(reg):
    """the coverage table checked against the registries of the current source: anything registered that the table
    does not know is listed under `unlisted` (not covered)"""
    known_p = set(FORMAT_COVERAGE["theorem+correspondence"]["parsers"]) | set(FORMAT_COVERAGE["not covered"]["parsers"])
    known_x = set(FORMAT_COVERAGE["not covered"]["xml_parsers"])
    known_f = set(FORMAT_COVERAGE["theorem+correspondence"]["formatters"])
    out = dict(FORMAT_COVERAGE)
    if isinstance(reg, dict) and "parsers" in reg:
        out["registered"] = reg
        out["unlisted"] = {"parsers": sorted(set(reg["parsers"]) - known_p), "xml_parsers": sorted(set(reg["xml_parsers"]) - known_x),
                           "formatters": sorted(set(reg["formatters"]) - known_f)}
        out["no_longer_registered"] = sorted((known_p - set(reg["parsers"])) | (known_f - set(reg["formatters"])))
    return out


def chunk_class(n, csize, dlen):
    """where the chunk size lies relative to the size on disk and the decoded length"""
    if n is None:
        return "default-1e6" + ("<disk" if csize >= 1000000 else ">disk")
    if n >= dlen:
        return "n>=len"
    if csize >= dlen:
        return "n<len"
    if n > csize:
        return "disk<n<len"
    return "n==disk" if n == csize else "n<disk"


def coverage_matrix(cases, impl):
    """(reader | compression | regime | chunk class) -> count, and the cells of the full grid never produced in this run.
    reader: iter_splitlines itself; parser(fmt)+iter_splitlines per line-based format; load_seqs(fmt) = load_*_seqs
    (LineBasedParser with the default chunk size 1e6; FASTA and JSON are read in one go and do not stream);
    regime: compression makes the file on disk smaller than the decoded text ("shrinks") or not ("grows/equal")"""
    counts = {}

    def add(reader, suffix, regime, cls):
        key = f"{reader}|{suffix or 'plain'}|{regime}|{cls}"
        counts[key] = counts.get(key, 0) + 1

    for c, r in zip(cases, impl):
        k = c["kind"]
        if not isinstance(r, dict):
            continue
        if k == "iter":
            dl = len(c["text"].encode("utf8"))
            cs = r.get("csize", dl)
            add("iter_splitlines", c.get("suffix", ""), "shrinks" if cs < dl else "grows/equal", chunk_class(c["n"], cs, dl))
        elif k == "stream" and "text" in r:
            dl, cs = len(r["text"]), r["csize"]
            regime = "shrinks" if cs < dl else "grows/equal"
            add(f"parser({c['fmt']})+iter_splitlines", c["suffix"], regime, chunk_class(r["n_used"], cs, dl))
            add(f"load_seqs({c['fmt']})", c["suffix"], regime, chunk_class(None, cs, dl))
        elif k == "gbstream" and "n_used" in r:
            dl, cs = len(c["text"]), r["csize"]
            add("parser(genbank-lines)+iter_splitlines", c["suffix"], "shrinks" if cs < dl else "grows/equal",
                chunk_class(r["n_used"], cs, dl))
        elif k == "round" and "text" in r:
            add(f"load_seqs({c['fmt']})", c["suffix"], "any", "default-1e6>disk")
        elif k == "big" and "csize" in r:
            add(f"load_seqs({c['fmt']})", c["suffix"], "shrinks", chunk_class(None, r["csize"], r["dsize"]))
    grid = []
    readers = ["iter_splitlines"] + [f"parser({f})+iter_splitlines" for f in ("gde", "phylip", "paml", "genbank-lines")]
    for reader in readers:
        for suffix in ("plain", ".gz", ".bz2"):
            for cls in ("n<len", "n>=len"):
                grid.append(f"{reader}|{suffix}|grows/equal|{cls}")
            if suffix != "plain":
                for cls in ("n<disk", "n==disk", "disk<n<len", "n>=len"):
                    grid.append(f"{reader}|{suffix}|shrinks|{cls}")
    for fmt in ("gde", "phylip", "paml"):
        for suffix in (".gz", ".bz2"):
            grid.append(f"load_seqs({fmt})|{suffix}|shrinks|default-1e6<disk")
    never = sorted(g for g in grid if g not in counts)
    return dict(sorted(counts.items())), never


def run(tier: str, seed: int) -> int:
    rep = core.Report(PROP, tier, seed)
    rng = random.Random(seed * 7919 + 6)
    if os.environ.get("C06_SKIP_PROOF"):
        pr = {"obligations": 0, "discharged": 0, "theorems": {}, "problems": []}
    else:
        pr = core.proof_stage(PROP, COQ_TARGETS)
    core.proof_coverage(rep, pr, "make theories/Properties/C06.vo && coqc gen/assum_C06.v (Print Assumptions)", [
        "textwrap.wrap is abstracted as an arbitrary cutting of the sequence into non-empty lines (verified on every case: "
        "lines non-empty, <= block_size, concatenation = sequence; = fixed-width slices on hyphen-free sequences)",
        "gzip / bz2 / chardet encoding detection / atomic_write are library code compared by correspondence only",
        "int() is modelled for plain digit strings only; str.splitlines/strip/split re-modelled from the CPython documentation",
        "collection construction (moltype validation and upper-casing) is outside the model: the records the collection "
        "holds are the reference of the oracle",
    ])
    rep.assumptions += ["names: printable ASCII; sequences: dna/rna/protein alphabets with gaps; text decoded as ASCII/UTF-8",
                        "sequences are compared modulo ASCII case (documented upper-casing of the FASTA/PAML parsers)"]
    proof_broken = bool(pr["problems"])
    mult = 1 if tier == "quick" else 10
    if proof_broken:
        mult *= 3
    cases = corpus_cases()
    cases += exhaustive_block(tier)
    cases += [rand_round(rng) for _ in range(150 * mult)]
    cases += rand_parse_cases(rng, 120 * mult)
    cases += interleaved_cases(rng, 24 * mult)
    cases += gb_cases(rng, 12 * mult)
    cases += exhaustive_iter(tier)
    cases += rand_iter_cases(rng, 50 * mult)
    cases += grid_iter_cases(rng)
    cases += grid_stream_cases(rng)
    cases += compressed_iter_cases(rng, 8 * mult)
    cases += stream_cases(rng, 8 * mult)
    cases += big_cases(tier)
    cases += empty_seq_round_cases(rng)
    cases += eol_empty_parse_cases(rng, 12 * mult)
    cases += dotted_round_cases(rng, tier)
    cases += suffix_cases(tier)
    cases.append(dict(kind="registry", block="registry"))

    impl = core.run_impl_sharded("c06_impl.py", cases)
    variant = bytes_split_variant()
    if variant is None:
        rep.notes.append("parse/fasta.py: record splitting expression of the bytes parser not recognised; model variant 0 used")
    gbv = gb_strip_variant()
    if gbv is None:
        rep.notes.append("parse/genbank.py: record loop of iter_genbank_records not recognised; model variant 0 used")
    mc = build_model_cases(cases, impl, variant or 0, gbv or 0)
    model = None
    try:
        model = run_model(mc)
    except core.CheckError as e:
        if not proof_broken:
            raise
        rep.notes.append(f"model not runnable: {str(e)[:300]}")
        model = {}

    stats = dict(explicit_refusals=0, outside_spec=0)
    registry = None
    disagreements = []
    nvio = 0
    nontrivial = set()
    dist = {}
    agree_groups = {}

    def dis(key, c, obs, mod):
        disagreements.append(dict(key=key, case=small(c), observed_impl=obs, model_output=mod))

    for i, (c, r) in enumerate(zip(cases, impl)):
        k = c["kind"]
        dk = f"{k}:{c.get('fmt', c.get('which', ''))}:{c.get('suffix', '')}:{c['block']}"
        dist[dk] = dist.get(dk, 0) + 1
        if isinstance(r, dict) and "exc" in r and "result" not in r and "made" not in r and "err" not in r:
            # the runner itself failed or hung on this case
            nvio += 1
            rep.violation(f"impl-crash:{k}", dict(case=small(c), expected_by_spec=None, observed_impl=r, model_output=None,
                                                  broken="implementation runner raised/hung outside the observed stages"))
            continue
        if k == "registry":
            registry = r
            continue
        if k == "round":
            if "err" in r and r["err"]["stage"] == "make":
                stats["explicit_refusals"] += 1
                continue
            flagged = check_round(rep, c, r, stats)
            nvio += flagged
            w = 60 if c["w"] is None else c["w"]
            if r.get("loaded") and any(len(s) > w for _, s in r["loaded"]):
                nontrivial.add(json.dumps([c["fmt"], c["w"], c["recs"], c["suffix"]]))
            if flagged:
                continue
            for tag in ("write", "write_w"):
                if (i, tag) in model and "text" in r:
                    m = model[(i, tag)]
                    if m != r["text"]:
                        dis(f"write:{c['fmt']}", c, r["text"], m if not isinstance(m, Exc) else {"exc": m.code})
            if (i, "round") in model and "loaded" in r:
                m = from_val_recs(model[(i, "round")])
                if m != r["loaded"]:
                    dis(f"round:{c['fmt']}", c, r["loaded"], m)
        elif k == "parse":
            res = r["result"]
            res_c = {"exc": res["exc"]} if isinstance(res, dict) else res
            if r.get("routes_differ"):
                nvio += 1
                rep.violation(f"parser-routes:{c['which']}", dict(case=small(c), expected_by_spec="same records from lines / path / registry",
                                                                   observed_impl=r, model_output=None,
                                                                   broken="the same parser gives different records by input route"))
                continue
            if isinstance(res, list) and res:
                nontrivial.add(json.dumps([c["which"], c["text"]]))
            if c.get("wf") == "phylip":
                if res_c != c["expected"]:
                    nvio += 1
                    rep.violation(f"phylip-branches:{c['variant']}",
                                  dict(case=small(c), expected_by_spec=c["expected"], observed_impl=res_c, model_output=None,
                                       broken="the sequential and the interleaved branch of MinimalPhylipParser must both "
                                              "return the alignment (names truncated to 9) from its rendering"))
                    continue
                if (i, "ilwrite") in model and model[(i, "ilwrite")] != c["text"]:
                    dis("ilwrite", c, c["text"], model[(i, "ilwrite")])
            elif c.get("wf"):
                agree_groups.setdefault((c["wf"], c["text"]), {})[c["which"]] = res_c
            if (i, "parse") in model:
                m = from_val_recs(model[(i, "parse")])
                if m is not None and m != res_c:
                    dis(f"parse:{c['which']}", c, res_c, m)
        elif k == "suffixes":
            res = r["result"]
            want = oracle_suffixes(c["name"])
            if r.get("routes_differ") or (want is not None and res != want):
                nvio += 1
                comps = c["name"].rsplit("/", 1)[-1].split(".")
                cls = ("dotted" if len(comps) > (3 if comps[-1].lower() in ("gz", "bz2", "zip") else 2) else "plain") + "-stem"
                rep.violation(f"format-suffixes:{cls}", dict(case=small(c), expected_by_spec=want, observed_impl=r, model_output=None,
                                                             broken="get_format_suffixes(name) is not (format, compression) of the file "
                                                                    "name (str and Path must agree)"))
                continue
            if want is not None and want[0] is not None and len(c["name"].rsplit("/", 1)[-1].split(".")) > 2:
                nontrivial.add(json.dumps(["suffixes", c["name"]]))
            if (i, "suffixes") in model and model[(i, "suffixes")] != res:
                dis("suffixes", c, res, model[(i, "suffixes")])
        elif k in ("gb", "gbstream"):
            res = r["result"]
            res_c = {"exc": res["exc"]} if isinstance(res, dict) else res
            if r.get("routes_differ"):
                nvio += 1
                rep.violation("parser-routes:genbank", dict(case=small(c), expected_by_spec="same records from bytes and path",
                                                            observed_impl=r, model_output=None,
                                                            broken="minimal_parser gives different records by input route"))
                continue
            exp = wf_gb_records(c["text"]) if c.get("wf_gb") else None
            if exp is not None:
                lower_ok = (k == "gbstream" or c["which"] == 0)
                want = exp if lower_ok else [[n_, q.upper()] for n_, q in exp]
                if res_c != want:
                    nvio += 1
                    what = "stream" if k == "gbstream" else {0: "minimal-lines", 1: "bytes-readers", 3: "bytes-readers", 4: "bytes-readers"}[c["which"]]
                    rep.violation(f"genbank-parsers:{what}:{'multi' if c['nrec'] > 1 else 'single'}-record",
                                  dict(case=small(c), expected_by_spec=want, observed_impl=res_c, model_output=None,
                                       broken="a GenBank reader does not return (LOCUS name, ORIGIN residues) of every record of a "
                                              "well-formed flat file (MinimalGenbankParser / minimal_parser / rich_parser / "
                                              "load_unaligned_seqs must agree, residues modulo case)"))
                    continue
                nontrivial.add(json.dumps([k, c.get("which"), c.get("n"), c.get("suffix"), c["text"]]))
            key = "gb" if k == "gb" else "gbstream"
            if (i, key) in model:
                m = model[(i, key)]
                mj = {"exc": m.code} if isinstance(m, Exc) else (None if m is None else [[a, b] for a, b in m])
                if mj is not None and mj != res_c:
                    dis(f"{key}:{c.get('which', '')}", c, res_c, mj)
        elif k == "stream":
            if "made" not in r or "text" not in r:
                stats["explicit_refusals"] += 1
                continue
            exp = expected_round(c, r["made"])
            res = r["result"]
            res_c = {"exc": res["exc"]} if isinstance(res, dict) else res
            repres = representable(dict(c), r["made"])
            bad = None
            if repres and (isinstance(res, dict) or upper_recs(res) != exp):
                bad = ("stream", res_c)
            elif repres and ("loaded" not in r or upper_recs(r["loaded"]) != exp):
                bad = ("load", r.get("loaded", r.get("err")))
            if bad:
                nvio += 1
                rep.violation(f"stream:{c['fmt']}:{'compressed' if c['suffix'] else 'plain'}:{bad[0]}",
                              dict(case=small(c), expected_by_spec=exp, observed_impl=bad[1], model_output=None,
                                   broken="records written to a (compressed) file do not come back through "
                                          "parser(iter_splitlines(path, chunk_size)) / load_*_seqs"))
                continue
            if isinstance(res, list) and len(res) >= 1 and r["n_used"] < len(r["text"]):
                nontrivial.add(json.dumps([c["fmt"], c["suffix"], r["n_used"], c["recs"], c["w"]]))
            if (i, "stream") in model:
                m = from_val_recs(model[(i, "stream")])
                if m is not None and m != res_c:
                    dis(f"stream:{c['fmt']}", c, res_c, m)
        elif k == "big":
            if not r.get("equal"):
                nvio += 1
                rep.violation(f"big:{c['fmt']}:{c['suffix']}", dict(case=small(c), expected_by_spec="2 sequences of "
                              f"{c['nchar'] // 2} residues come back unchanged", observed_impl=r, model_output=None,
                              broken="large compressed file (more than one default chunk on disk) does not round-trip"))
            else:
                nontrivial.add(json.dumps([c["fmt"], c["suffix"], c["nchar"]]))
        elif k in ("split", "iter"):
            res = r["result"]
            if k == "iter" and only_nl(c["text"]):
                exp = c["text"].splitlines()
                if res != exp:
                    nvio += 1
                    rep.violation("iter-splitlines:chunk-size", dict(case=small(c), expected_by_spec=exp, observed_impl=res,
                                                                     model_output=None,
                                                                     broken="iter_splitlines(chunk_size) != text.splitlines()"))
                    continue
            if k == "iter" and len(res) >= 2 and c["n"] < len(c["text"]):
                nontrivial.add(json.dumps([c["n"], c["text"]]))
            if (i, k) in model:
                m = model[(i, k)]
                if m != res:
                    dis(k, c, res, m if not isinstance(m, Exc) else {"exc": m.code})

    # parser agreement on well-formed text (oracle's definition of well-formed)
    for (wf, text), by in agree_groups.items():
        lch = ">" if wf == "fasta" else "%"
        exp = wf_fasta_text(text, lch)
        if exp is None:
            continue
        if any(q == "" for _, q in exp):
            # a label without residues is MALFORMED input by the library's own definition (the strict parser raises
            # RecordError "... has no data"): outside the parser-agreement clause, oracle-silent (the round-trip clause
            # for zero-length sequences, write -> load_unaligned_seqs, stays a hard check elsewhere)
            stats["outside_wellformed:label-only-record"] = stats.get("outside_wellformed:label-only-record", 0) + len(by)
            continue
        bad = {w: v for w, v in by.items() if v != exp}
        if bad:
            nvio += 1
            shape = text_shape(text, exp)
            rep.violation(f"parsers-disagree:{wf}:{shape}",
                          dict(case=dict(kind="parse", which=sorted(bad)[0], text=text, wf=wf, block="agree"),
                               expected_by_spec=exp, observed_impl={str(w): v for w, v in by.items()}, model_output=None,
                               broken="alternative parsers of the format give different records / labels not verbatim on "
                                      "well-formed text (which: 0 strict, 1 non-strict, 2 bytes, 3 gde strict, 4 gde non-strict)"))

    matrix, never = coverage_matrix(cases, impl)
    name_matrix = {}
    for c, r in zip(cases, impl):
        if c["kind"] == "round" and isinstance(r, dict) and ("loaded" in r or "err" in r):
            key = f"write+load({c['fmt']})|{c.get('suffix') or 'plain'}|{'dotted' if '.' in c.get('stem', 'x') else 'plain'}-stem"
            name_matrix[key] = name_matrix.get(key, 0) + 1
    never_names = sorted(f"write+load({f})|{sx}|{st}-stem" for f in FMTS + ["json"] for sx in ("plain", ".gz", ".bz2")
                         for st in ("dotted", "plain") if f"write+load({f})|{sx}|{st}-stem" not in name_matrix)

    samples = []
    for c, r in list(zip(cases, impl))[:400]:
        if c["kind"] == "round" and c["block"] == "random" and "loaded" in r and len(samples) < 2:
            samples.append(dict(case=c, impl=r))
    for c, r in zip(cases, impl):
        if c["kind"] == "parse" and c["block"] == "random" and len(samples) < 3:
            samples.append(dict(case=c, impl=r))
        if c["kind"] == "iter" and c["block"] == "random" and len(samples) < 4:
            samples.append(dict(case=c, impl=r))
    rep.coverage.update(
        evaluations=len(cases), distinct_nontrivial=len(nontrivial),
        rule="one evaluation = one case (write+load of a record list in one format/width/suffix; one parser on one text; one "
             "chunk size on one text); non-trivial = round case whose loaded records contain a sequence longer than the block "
             "width, parse case yielding >= 1 record, iter case with >= 2 lines and chunk size < len(text)",
        samples=samples, input_distribution=dict(cases=len(cases), model_cases=len(mc), by_kind=dist, matrix=matrix,
                                                 never_produced=never, file_name_matrix=dict(sorted(name_matrix.items())),
                                                 file_name_cells_never_produced=never_names, **stats),
        partial=PARTIAL, exhaustive=False, registered_formats=registered_formats(registry),
        json_clause="JSON: C06 keeps write / load_*_seqs correspondence (old and new collection types, plain and compressed); "
                    "the to_json / deserialise round trip of collections and alignments is the subject of property C10", translator_tie=f"fasta bytes-parser split variant {variant}; genbank record-strip variant {gbv}; "
                       f"bytes-parser CR-only variant (C06-8b) {fasta_cr_variant()}", model_impl_disagreements=len(disagreements), spec_violations=nvio,
    )
    if os.environ.get("C06_DEBUG"):
        for d_ in disagreements[:40]:
            print("DISAGREE", json.dumps(d_)[:700])
    core.conclude(rep, pr, f"{len(cases)} cases against the records-in=records-out / parser-agreement / splitlines oracle",
                  disagreements[:5], "Model.FormatsRun.run_case vs cogent3 format writers/parsers", tier, PROP)
    return rep.finish("proof")


def replay(path: str) -> int:
    d = json.loads(open(path).read())
    if "case" not in d or d["case"] is None:
        print("replay names a broken obligation, not an input:", d.get("broken"))
        return 1
    c = d["case"]
    if c.get("block") == "agree":
        cs = [dict(c, which=w) for w in ((0, 1, 2) if c["wf"] == "fasta" else (3, 4))]
        rs = core.run_impl_lines("c06_impl.py", cs)
        exp = wf_fasta_text(c["text"], ">" if c["wf"] == "fasta" else "%")
        print("oracle:", exp)
        bad = False
        outside = exp is not None and any(q == "" for _, q in exp)   # label-only record: malformed, outside the clause
        for cc, r in zip(cs, rs):
            res = r.get("result")
            res = {"exc": res["exc"]} if isinstance(res, dict) else res
            print(f"impl which={cc['which']}:", res)
            bad |= (not outside) and exp is not None and res != exp
        print("REPRODUCED" if bad else "not reproduced")
        return 1 if bad else 0
    r = core.run_impl_lines("c06_impl.py", [c])[0]
    print("impl  :", r)
    bad = False
    if c["kind"] == "round":
        class _R:
            def __init__(self):
                self.v = []

            def violation(self, key, d, no_input=False):
                self.v.append(key)
                print("oracle:", d.get("expected_by_spec"), "| key:", key)

        rr = _R()
        bad = check_round(rr, c, r, dict(explicit_refusals=0, outside_spec=0)) if "made" in r else False
    elif c["kind"] == "suffixes":
        exp = oracle_suffixes(c["name"])
        print("oracle:", exp)
        bad = bool(r.get("routes_differ")) or (exp is not None and r.get("result") != exp)
    elif c["kind"] in ("gb", "gbstream"):
        exp = wf_gb_records(c["text"]) if c.get("wf_gb") else None
        res = r.get("result")
        res = {"exc": res["exc"]} if isinstance(res, dict) else res
        if exp is not None and not (c["kind"] == "gbstream" or c["which"] == 0):
            exp = [[a, b.upper()] for a, b in exp]
        print("oracle:", exp)
        bad = exp is not None and res != exp
    elif c["kind"] == "stream":
        exp = expected_round(c, r["made"]) if "made" in r else None
        print("oracle:", exp)
        res = r.get("result")
        bad = exp is not None and (isinstance(res, dict) or upper_recs(res) != exp or "loaded" not in r
                                   or upper_recs(r["loaded"]) != exp)
    elif c["kind"] == "big":
        bad = not r.get("equal")
    elif c["kind"] == "iter":
        exp = c["text"].splitlines()
        print("oracle:", exp)
        bad = only_nl(c["text"]) and r.get("result") != exp
    elif c["kind"] == "parse" and c.get("wf") == "phylip":
        print("oracle:", c["expected"])
        bad = r.get("result") != c["expected"]
    elif c["kind"] == "parse":
        bad = bool(r.get("routes_differ")) or r.get("result") != d.get("observed_impl", r.get("result")) and False
        if d.get("model_output") is not None:
            print("model :", d["model_output"])
            res = r.get("result")
            res = {"exc": res["exc"]} if isinstance(res, dict) else res
            bad = bad or res != d["model_output"]
    else:
        exp = c["text"].splitlines()
        bad = r.get("result") != exp
    print("REPRODUCED" if bad else "not reproduced")
    return 1 if bad else 0
