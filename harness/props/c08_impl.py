"""C08 implementation runner: drives the real IndelMap / FeatureMap classes.

One case = one gap mask (string over "x-") plus the arguments of the queries;
the result is the list of observations in the order of Model/IndelMapRun.v."""
from vcheck.val import Exc, canon, exc_code, observe


def mk(mask, new_type=False):
    """the map of a gapped string, through the anchored parse_out_gaps"""
    from cogent3 import make_seq

    s = "".join("A" if c == "x" else "-" for c in mask)
    seq = make_seq(s, moltype="dna", new_type=True) if new_type else make_seq(s, moltype="dna")
    m, _ = seq.parse_out_gaps()
    return m


def state(m):
    if isinstance(m, Exc) or m is None:
        return m
    return [[int(x) for x in m.gap_pos.tolist()], [int(x) for x in m.cum_gap_lengths.tolist()], int(m.parent_length)]


def spans_of(m):
    out = []
    for sp in m.spans:
        out.append(int(len(sp)) if sp.lost else [int(sp.start), int(sp.end)])
    return out


def mask_of(m):
    return "".join(("-" if sp.lost else "x") * len(sp) for sp in m.spans)


def pairs(x):
    if isinstance(x, Exc) or x is None:
        return x
    return [[int(a), int(b)] for a, b in (x.tolist() if hasattr(x, "tolist") else x)]


def ival(x):
    if isinstance(x, Exc) or x is None:
        return x
    return int(x)


def slice_list(sl):
    if "all" in sl:
        lo, hi = sl["all"]
        b = [None] + list(range(lo, hi + 1))
        return [(x, y) for x in b for y in b]
    return [tuple(p) for p in sl["list"]]


def runs(mask, ch):
    """maximal runs of ch in mask as (start, end) — plain string reading, used only to build inputs"""
    out = []
    i = 0
    n = len(mask)
    while i < n:
        if mask[i] == ch:
            j = i
            while j < n and mask[j] == ch:
                j += 1
            out.append((i, j))
            i = j
        else:
            i += 1
    return out


def run_unary(c):
    from cogent3.core.location import IndelMap, gap_coords_to_map

    mask = c["mask"]
    m = mk(mask)
    n = len(mask)
    out = [
        state(m),
        ival(observe(len, m)),
        observe(spans_of, m),
        observe(mask_of, m),
        observe(lambda: [[int(s.start), int(s.end)] for s in m.nongap()]),
        pairs(observe(m.get_coordinates)),
        pairs(observe(m.get_gap_coordinates)),
        pairs(observe(m.get_gap_align_coordinates)),
        [ival(observe(m.get_seq_index, i)) for i in c["idx"]],
        [[ival(observe(m.get_align_index, s)), ival(observe(m.get_align_index, s, slice_stop=True))] for s in c["sidx"]],
        [state(observe(lambda: m[slice(a, b)])) for a, b in slice_list(c["slices"])],
        [state(observe(lambda: m[i])) for i in range(n)],
        state(observe(m.nucleic_reversed)),
        [state(observe(lambda: m * s)) for s in c["scales"]],
        state(observe(lambda: IndelMap.from_aligned_segments(locations=runs(mask, "x"), aligned_length=n))),
        state(observe(lambda: gap_coords_to_map({mask[:s].count("x"): e - s for s, e in runs(mask, "-")}, mask.count("x")))),
    ]
    # the new-style sequence class carries a copy of parse_out_gaps: must build the same map
    extra = {"new_type_state": state(observe(mk, mask, True))}
    return {"obs": out, "extra": extra}


def run_binary(c):
    m1 = mk(c["mask"])
    out = []
    for k2 in c["others"]:
        m2 = mk(k2)
        s = observe(lambda: m1 + m2)
        if isinstance(s, Exc):
            first = [s, s, s, s, s]
        else:
            first = [
                state(s),
                observe(mask_of, s),
                ival(observe(len, s)),
                [ival(observe(s.get_seq_index, i)) for i in range(len(s) + 1)],
                [[ival(observe(s.get_align_index, i)), ival(observe(s.get_align_index, i, slice_stop=True))]
                 for i in range(int(s.parent_length) + 1)],
            ]
        merged = state(observe(m1.merge_maps, m2)) if m1.parent_length == m2.parent_length else None
        out.append(first + [merged, state(observe(m1.minus_gaps, m2)), pairs(observe(m1.shared_gaps, m2))])
    return {"obs": out, "extra": {}}


def run_join(c):
    m = mk(c["mask"])
    out = [state(observe(m.joined_segments, [tuple(p) for p in cs])) for cs in c["coordss"]]
    return {"obs": out, "extra": {}}


# ------------------------------------------------------------------ FeatureMap (compared with a set-of-positions oracle)

def fm_build(spec, plen):
    from cogent3.core.location import FeatureMap, LostSpan, Span

    spans = []
    for s in spec:
        if isinstance(s, int):
            spans.append(LostSpan(s))
        else:
            spans.append(Span(s[0], s[1], reverse=bool(s[2])))
    return FeatureMap(spans=spans, parent_length=plen)


def fm_obs(fm):
    if isinstance(fm, Exc) or fm is None:
        return fm
    out = []
    for s in fm.spans:
        out.append(int(s.length) if s.lost else [int(s.start), int(s.end), bool(s.reverse)])
    return [out, int(fm.parent_length), int(len(fm))]


def run_fmap(c):
    fm = fm_build(c["spans"], c["plen"])
    out = [
        fm_obs(fm),
        [bool(fm.useful), bool(fm.complete), int(fm.start), int(fm.end)],
        pairs(observe(fm.get_coordinates)),
        fm_obs(observe(fm.covered)),
        fm_obs(observe(fm.nucleic_reversed)),
        fm_obs(observe(fm.inverse)),
        fm_obs(observe(fm.shadow)),
        fm_obs(observe(fm.gaps)),
        fm_obs(observe(fm.without_gaps)),
        observe(lambda: [int(s.length) if s.lost else [int(s.start), int(s.end), bool(s.reverse)] for s in fm.nongap()]),
        pairs(observe(fm.get_gap_coordinates)),
        fm_obs(observe(fm.get_covering_span)),
        [fm_obs(observe(lambda: fm * k)) for k in c["scales"]],
        [fm_obs(observe(lambda: fm[fm_build(sub, len(fm))])) for sub in c["subs"]],
        [fm_obs(observe(lambda: fm[slice(a, b)])) for a, b in c["slices"]],
        fm_obs(observe(lambda: observe(fm.inverse).inverse())) if not isinstance(observe(fm.inverse), Exc) else None,
    ]
    return {"obs": out, "extra": {}}


def run_seqmap(c):
    """make_seq_feature_map of one alignment span at a time (and of all of them, with a lost span in between, as one map)"""
    from cogent3.core.location import FeatureMap, LostSpan, Span

    mask = c["mask"]
    m = mk(mask)
    n = len(mask)

    def one(spans):
        afm = FeatureMap(spans=spans, parent_length=n)
        r = m.make_seq_feature_map(afm)
        return [[[int(s.start), int(s.end)] for s in r.spans if not s.lost], int(r.parent_length), any(s.lost for s in r.spans)]

    out = []
    for s, e, rev in c["spans"]:
        r = observe(one, [Span(s, e, reverse=bool(rev))])
        out.append(r if isinstance(r, Exc) else r[0])
    allr = observe(one, [x for s, e, rev in c["spans"] for x in (Span(s, e, reverse=bool(rev)), LostSpan(2))])
    out.append(allr if isinstance(allr, Exc) else allr[1])
    extra = {"all_at_once": allr if isinstance(allr, Exc) else [allr[0], allr[2]]}
    return {"obs": out, "extra": extra}


def run_case(c):
    kind = c["kind"]
    if kind == "seqmap":
        return run_seqmap(c)
    if kind == "unary":
        return run_unary(c)
    if kind == "binary":
        return run_binary(c)
    if kind == "join":
        return run_join(c)
    if kind == "fmap":
        return run_fmap(c)
    raise ValueError(kind)


def main():
    from vcheck.implutil import serve
    from vcheck.val import jsonable

    def one(c):
        r = run_case(c)
        return {"obs": jsonable(canon_deep(r["obs"])), "extra": {k: jsonable(v) for k, v in canon_deep(r["extra"]).items()}}

    serve(one, limit=120)


def canon_deep(v):
    if isinstance(v, dict):
        return {k: canon_deep(x) for k, x in v.items()}
    if isinstance(v, (list, tuple)):
        return [canon_deep(x) for x in v]
    return canon(v)


if __name__ == "__main__":
    main()
