"""C13 implementation runner: drives the real directory / sqlite data stores.

case = {"store": "dir"|"sql", "suffix": str (dir only), "mode": "w"|"a"|"r", "ops": [...], "obs_every": bool}
ops:  ["w", id, data] write            ["nc", id, data] write_not_completed     ["log", id, data] write_log
      ["drop", id]    drop_not_completed(unique_id=id)       ["dropall"] drop_not_completed()
      ["open", mode]  (unlock +) close + re-open the same path in `mode`
result: one entry per op: [ret, live, fresh] (live/fresh are None when not observed at that step)
  ret   : unique_id of the returned member | None | Exc
  live  : snapshot of the instance the ops run on
  fresh : snapshot of a new read-only instance on the same path
snapshot = [completed ids, not-completed ids, log ids, [[id, read, md5]...], [[log id, read]...], validate counts]
md5 texts are mapped back to the payload they are the digest of ("=" + payload), so that the Coq model
can treat the digest as an injective tag.
"""
import hashlib
import os
import pathlib
import shutil
import tempfile

from vcheck.val import Exc, exc_code, observe


# Directory listing order is left open by the operating system (and differs between tmpfs and
# ext4); the stores iterate over Path.glob results while deleting, so an exception in the middle
# of such a loop makes the outcome depend on it.  The runner pins the order to name order, the
# order Model/DataStore.v lists directories in.
_orig_glob = pathlib.Path.glob


def _sorted_glob(self, pattern, **kw):
    return iter(sorted(_orig_glob(self, pattern, **kw)))


pathlib.Path.glob = _sorted_glob


def _digest_table(case):
    tab = {}
    for op in case["ops"]:
        if op[0] in ("w", "nc", "log"):
            tab[hashlib.md5(op[2].encode("utf-8"), usedforsecurity=False).hexdigest()] = "=" + op[2]
    return tab


def _ids(members):
    return sorted(str(m.unique_id) for m in members)


def snapshot(ds, tab):
    def md5_of(uid):
        v = ds.md5(uid)
        if v is None:
            return None
        if isinstance(v, bytes):
            v = v.decode("utf8")
        return tab.get(v, v)

    def read_of(uid):
        v = ds.read(uid)
        if isinstance(v, bytes):
            v = v.decode("utf8")
        return v

    comp = observe(lambda: _ids(ds.completed))
    nc = observe(lambda: _ids(ds.not_completed))
    logs = observe(lambda: _ids(ds.logs))
    recs = []
    for group in (comp, nc):
        if isinstance(group, Exc):
            continue
        for uid in group:
            recs.append([uid, observe(read_of, uid), observe(md5_of, uid)])
    logrecs = []
    if not isinstance(logs, Exc):
        for uid in logs:
            logrecs.append([uid, observe(read_of, uid)])

    def val():
        t = ds.validate()
        d = {r[0]: r[1] for r in t.to_list()}
        return [int(d["Num md5sum correct"]), int(d["Num md5sum incorrect"]), int(d["Num md5sum missing"]),
                bool(d["Has log"])]

    return [comp, nc, logs, recs, logrecs, observe(val)]


def open_store(case, path, mode):
    from cogent3.app.data_store import DataStoreDirectory, Mode
    from cogent3.app.sqlite_data_store import DataStoreSqlite

    if case["store"] == "dir":
        return DataStoreDirectory(path, suffix=case["suffix"], mode=Mode(mode))
    return DataStoreSqlite(path, mode=Mode(mode))


def close_store(case, ds):
    if case["store"] == "sql" and ds is not None:
        try:
            ds.unlock()
        except Exception:  # noqa: BLE001
            pass
        ds.close()


def run_case(case, tmp):
    tab = _digest_table(case)
    path = os.path.join(tmp, "store" if case["store"] == "dir" else "store.sqlitedb")
    ds = open_store(case, path, case["mode"])
    out = []
    nops = len(case["ops"])
    for k, op in enumerate(case["ops"]):
        kind = op[0]
        if kind == "w":
            ret = observe(lambda: ds.write(unique_id=op[1], data=op[2]))
        elif kind == "nc":
            ret = observe(lambda: ds.write_not_completed(unique_id=op[1], data=op[2]))
        elif kind == "log":
            ret = observe(lambda: ds.write_log(unique_id=op[1], data=op[2]))
        elif kind == "drop":
            ret = observe(lambda: ds.drop_not_completed(unique_id=op[1]))
        elif kind == "dropall":
            ret = observe(lambda: ds.drop_not_completed())
        elif kind == "open":
            close_store(case, ds)
            try:
                ds = open_store(case, path, op[1])
                ret = None
            except Exception as e:  # noqa: BLE001
                ret = Exc(exc_code(e))
        else:
            raise ValueError(kind)
        if ret is not None and not isinstance(ret, Exc):
            ret = str(ret.unique_id)
        if case.get("obs_every", True) or k == nops - 1:
            live = snapshot(ds, tab)
            fresh_ds = None
            try:
                fresh_ds = open_store(case, path, "r")
                fresh = snapshot(fresh_ds, tab)
            except Exception as e:  # noqa: BLE001
                fresh = Exc(exc_code(e))
            finally:
                if case["store"] == "sql" and fresh_ds is not None:
                    fresh_ds.close()
            out.append([ret, live, fresh])
        else:
            out.append([ret, None, None])
    close_store(case, ds)
    return out


def main():
    from vcheck.implutil import serve

    base = "/dev/shm" if os.path.isdir("/dev/shm") and os.access("/dev/shm", os.W_OK) else None
    with tempfile.TemporaryDirectory(prefix="c13_", dir=base) as tmp:
        counter = [0]

        def one(case):
            counter[0] += 1
            d = os.path.join(tmp, str(counter[0]))
            os.mkdir(d)
            try:
                return run_case(case, d)
            finally:
                shutil.rmtree(d, ignore_errors=True)

        serve(one, limit=30)


if __name__ == "__main__":
    main()
