"""C01 - Sequence views obey the slice / reverse-complement algebra.

Stage P: Properties/C01.v (Model/View.v proved equal to Python slice semantics
on the plain string, Lib/PySlice.v) + the translator tie: the integer kernel of
the three view classes is re-translated from the current source text into
coq/gen/ViewGen.v (harness/translators/py2gallina.py, fail-closed) and proved
equal to the model for all arguments (Proofs/ViewGenEq.v); the headline
theorems are transported to the generated functions (gen_* theorems).
Stage C: the three view classes (old SeqView, new SeqView, SeqDataView) and the
two Sequence implementations against the Coq model (vm_compute), batched: one
Coq case = one whole lattice / chain, compared through a digest and re-run in
detail on a mismatch.
Stage S: Python's own str / list slicing and str.translate as the oracle
(evaluated next to the implementation, see c01_impl.py); view-backed sequence
vs make_seq(str(view)) for every discovered read-only method."""
from __future__ import annotations

import json
import random
import re
import subprocess
import time

from vcheck import core
from vcheck.val import Exc, cbool, from_jsonable, jsonable, zlit, zopt, zstr

PROP = "C01"
COQ_TARGETS = ["theories/Model/ViewRun.vo", "theories/Proofs/ViewGenEq.vo"]
MODEL_TARGETS = ["theories/Model/ViewRun.vo"]
TRANSLATOR = "harness/translators/py2gallina.py"


# ------------------------------------------------------------------ translator tie

def run_translator():
    """regenerate gen/ViewGen.v from the current source text; returns (error string or None, records)"""
    core.GEN.mkdir(exist_ok=True)
    rec = core.GEN / "ViewGen.records.json"
    if rec.exists():
        rec.unlink()
    r = subprocess.run([core.PY, str(core.VERIF / TRANSLATOR), "--repo", str(core.REPO), "--records", str(rec)],
                       capture_output=True, text=True, env=core.impl_env(), cwd=str(core.VERIF))
    out = core.GEN / "ViewGen.v"
    if r.returncode != 0:
        return (r.stderr or r.stdout).strip()[-800:] or f"translator exited with {r.returncode}", []
    if not r.stdout.rstrip().endswith("End Sdv."):
        return "translator produced truncated output", []
    if not out.exists() or out.read_text() != r.stdout:
        out.write_text(r.stdout)
    try:
        records = json.loads(rec.read_text())
    except (OSError, ValueError) as e:
        return f"translator wrote no function records: {e}", []
    return None, records


def pre_build():
    err, _ = run_translator()
    if err:
        raise core.CheckError("py2gallina translator failed: " + err)


def explain_tie_break(problem, pr):
    """a build failure inside ViewGenEq.v / ViewGen.v is a broken translator tie: name the lemma / generated function"""
    m = re.search(r"(Proofs/ViewGenEq\.v|gen/ViewGen\.v):(\d+)", problem)
    if not m:
        return problem
    path = core.COQ / ("theories/" + m.group(1) if m.group(1).startswith("Proofs") else m.group(1))
    try:
        lines = path.read_text().split("\n")[: int(m.group(2))]
    except OSError:
        return problem
    module = lemma = None
    for ln in lines:
        mm = re.match(r"Module (\w+)\.", ln)
        if mm and mm.group(1) != "G":
            module = mm.group(1)
        mm = re.match(r"(?:Lemma|Definition)\s+(\w+)", ln)
        if mm:
            lemma = mm.group(1)
    what = ("the function generated from the current source is no longer provably equal to the model function of Model/View.v"
            if m.group(1).startswith("Proofs") else "the generated Gallina does not type-check")
    return f"translator tie broken at {module}.{lemma}: {what} ({problem})"


def tie_report(terr, records, pr):
    """coverage['translator_tie']: what was translated and whether equality with the model was proved in this run"""
    src = core.strip_comments((core.COQ / "theories" / "Proofs" / "ViewGenEq.v").read_text())
    lemmas = {}
    for m in re.finditer(r"Module (\w+Eq)\.(.*?)End \1\.", src, flags=re.S):
        lemmas[m.group(1)] = re.findall(r"Lemma\s+(\w+_eq\w*)", m.group(2))
    gen_thms = [t for t in pr.get("theorems", {}) if t.startswith("gen_")]
    proved = terr is None and not pr.get("problems") and bool(gen_thms) and all(pr["theorems"][t]["ok"] for t in gen_thms)
    if terr is not None:
        status = "broken: translator failed closed: " + terr
    elif pr.get("problems"):
        status = "broken: " + "; ".join(str(x) for x in pr["problems"])[:600]
    else:
        status = "ok"
    return dict(
        status=status, translator=TRANSLATOR, generated="coq/gen/ViewGen.v (modules Old, New, Sdv)",
        equality_file="coq/theories/Proofs/ViewGenEq.v", equality_with_model_proved=proved,
        equality_lemmas=lemmas if proved else {}, transported_theorems=gen_thms if proved else [],
        functions=records,
        reading="Python int = Z, // and % = Z.div / Z.modulo (divisors restricted to self.step / abs(self.step)); optional int = option Z; "
                "falling off the end = Err E_Type; assert = Err E_Other when false; len(self.seq) read as the field _seq_len (justified by "
                "gen_*_init_seq_len); seqid / alphabet / the SeqsData object are dropped",
    )
IMPL = "c01_impl.py"
MAX_LOCALISE = 5
ORIGINS = {"old": ["standalone", "coll_get", "coll_rc", "aln_get", "aln_gapped"],
           "new": ["standalone", "coll_get", "coll_seqs", "coll_rc"]}
ROUTES = {"old": ["str", "iter", "getitem"], "new": ["str", "iter", "getitem", "bytes", "array"]}
STEP_CLASSES = ["+1", "+k", "-1", "-k"]
FORCED_STRIDES = [[["slice", None, None, -1]], [["slice", 2, None, 3]], [["slice", 1, 15, None], ["slice", None, None, 2]], [["rc"], ["slice", None, None, -3]],
                  [["slice", None, None, -2]], [["slice", None, None, -1], ["slice", 1, None, 2]], [["slice", 1, None, None]]]


def pick_origin(impl, mt, off, i, p):
    """cycle through the ways of obtaining the sequence (collections carry no offset); returns (origin, parent, nomodel)"""
    if off:
        return "standalone", p, False
    origin = ORIGINS[impl][i % len(ORIGINS[impl])]
    if origin == "coll_rc" and mt not in ("dna", "rna"):
        origin = "coll_get"
    if origin.startswith("aln"):
        p = p.replace("-", "").replace("?", "") or "A"       # rows without gaps: get_seq == get_gapped_seq == the row
    # no sequence-level model case for: a collection that was reverse-complemented (starts from a reversed view); a new-style
    # collection sequence (SeqDataView-backed: its empty slices keep seqid and seq_len, the sequence model is the SeqView
    # flavour - the SeqDataView flavour is tied at kernel level, class "sdv").  Those cases are decided by the oracle alone.
    return origin, p, origin == "coll_rc" or (impl == "new" and origin.startswith("coll"))

_SEEN: set = set()
MATRIX: dict = {}


def first_time(c) -> bool:
    """distinct_nontrivial counts DISTINCT cases: a repeated random case is not counted twice"""
    k = json.dumps({x: y for x, y in c.items() if x not in ("block", "want_states", "list_methods", "variant", "detail")}, sort_keys=True)
    if k in _SEEN:
        return False
    _SEEN.add(k)
    return True


VALS8 = [None] + list(range(-8, 9))
STEPS3 = [None, 1, 2, 3, -1, -2, -3]
LETTERS = "ACGTRYWSKMBDHVN"          # distinct characters valid in the most degenerate DNA alphabet
FLAVOUR = {"old": "FSeqView", "new": "FSeqView", "sdv": "FSeqDataView"}
KIND = {"dna": "KDna", "rna": "KRna", "protein": "KOther", "text": "KOther"}
ALPHABETS = {"dna": "ACGTACGTNRY-?", "rna": "ACGUACGUNRY-?", "protein": "ACDEFGHIKLMNPQRSTVWY-X", "text": "ABCXYZ-?TU"}


# ------------------------------------------------------------------ rendering for Coq

def olist(xs):
    return "[" + ";".join(zopt(x) for x in xs) + "]"


def coq_kop(op):
    if op[0] == "s":
        return f"KS {zopt(op[1])} {zopt(op[2])} {zopt(op[3])}"
    return f"KI {zlit(op[1])}"


def coq_sop(op):
    k = op[0]
    if k == "slice":
        return f"Slice {zopt(op[1])} {zopt(op[2])} {zopt(op[3])}"
    if k == "index":
        return f"Index {zlit(op[1])}"
    return {"rc": "Rc", "to_rna": "ToRna", "to_dna": "ToDna", "copy": "CopySliced"}[k]


def coq_case(c, detail=False):
    d = cbool(detail)
    k = c["kind"]
    if k == "klattice":
        return (f"KLattice {d} {FLAVOUR[c['cls']]} {zstr(c['p'])} {zlit(c['off'])} [" + ";".join(coq_kop(o) for o in c["pre"])
                + f"] {olist(c['avals'])} {olist(c['bvals'])} {olist(c['cvals'])}")
    if k == "kchain":
        return f"KChain {d} {FLAVOUR[c['cls']]} {zstr(c['p'])} {zlit(c['off'])} [" + ";".join(coq_kop(o) for o in c["ops"]) + "]"
    if k == "kctor":
        return f"KCtor {d} {zlit(c['n'])} {zlit(c['off'])} {olist(c['avals'])} {olist(c['bvals'])} {olist(c['cvals'])}"
    if k == "schain":
        variant = c.get("variant") or ("OldStyle" if c["impl"] == "old" else "NewStyle")
        return (f"SChain {d} {variant} {KIND[c['mt']]} {zstr(c['p'])} {zlit(c['off'])} ["
                + ";".join(coq_sop(o) for o in c["ops"]) + "]")
    if k == "comptable":
        return f"CompTable {KIND[c['mt']]} {zstr(c['chars'])}"
    raise ValueError(k)


def run_model(cases, detail=False, shard=None):
    """evaluate the (deduplicated) Coq terms; returns one value per case"""
    terms = [None if c.get("nomodel") else coq_case(c, detail) for c in cases]
    uniq = list(dict.fromkeys(t for t in terms if t is not None))
    # heavy lattice cases: few per file; light chains: many
    heavy = [t for t in uniq if t.startswith("KLattice") or t.startswith("KCtor")]
    light = [t for t in uniq if not (t.startswith("KLattice") or t.startswith("KCtor"))]
    out = {}
    if heavy:
        per = shard or max(1, min(12, (len(heavy) + 7) // 8))
        for t, r in zip(heavy, core.coq_eval(PROP, ["Lib.PyZ", "Model.View", "Model.ViewRun"], "run_case", heavy, "kcase", shard=per, tag="h")):
            out[t] = r
    if light:
        per = max(20, min(300, (len(light) + 7) // 8))
        for t, r in zip(light, core.coq_eval(PROP, ["Lib.PyZ", "Model.View", "Model.ViewRun"], "run_case", light, "kcase", shard=per, tag="l")):
            out[t] = r
    return [None if t is None else out[t] for t in terms]


# ------------------------------------------------------------------ generators

def lattice_cases(tier):
    """depth-1 exhaustive block: every (a, b, c) of the lattice on the full view of every length 0..6"""
    cases = []
    for n in range(0, 7):
        p = LETTERS[:n]
        for cls in ("old", "new", "sdv"):
            for off in ((0, 3) if cls != "sdv" else (0,)):
                cases.append(dict(kind="klattice", cls=cls, p=p, off=off, pre=[], avals=VALS8, bvals=VALS8, cvals=STEPS3 + [0],
                                  want_states=True, block="depth1"))
    return cases


def ctor_cases(tier):
    cases = []
    for n in range(0, 7):
        for cls in ("old", "new", "sdv"):
            cases.append(dict(kind="kctor", cls=cls, n=n, off=0, avals=VALS8, bvals=VALS8, cvals=STEPS3 + [0], block="ctor"))
    return cases


def sdv_offset_cases():
    """SeqDataView constructed with an offset (the class accepts one): small lattice"""
    return [dict(kind="klattice", cls="sdv", p=LETTERS[:5], off=2, pre=[], avals=[None, 0, 1, 3, -2], bvals=[None, 2, 4, -1],
                 cvals=[None, 2, -1], block="sdv-offset")]


def depth2_cases(tier, depth1, results):
    """depth-2 exhaustive block: from every distinct view reachable by one slice (representative
    first slice per distinct (start, stop, step, seq_len, offset)), the whole lattice again"""
    nmax = 3 if tier == "quick" else 4
    vals = [None] + list(range(-6, 7)) if tier == "quick" else VALS8
    cases = []
    for c, r in zip(depth1, results):
        if len(c["p"]) > nmax or not isinstance(r, dict) or "states" not in r:
            continue
        if c["off"] != 0 and tier == "quick":
            continue
        for st, rep_abc in r["states"]:
            if rep_abc == [None, None, None]:
                continue
            cases.append(dict(kind="klattice", cls=c["cls"], p=c["p"], off=c["off"], pre=[["s"] + rep_abc], avals=vals, bvals=vals,
                              cvals=STEPS3, block="depth2"))
    return cases


def rand_bound(rng, n):
    r = rng.random()
    if r < 0.12:
        return None
    if r < 0.2:
        return rng.choice([0, -1, n, -n, n - 1, -n - 1, n + 1])
    return rng.randint(-n - 3, n + 3)


def rand_step(rng, maxstep=7):
    r = rng.random()
    if r < 0.2:
        return None
    if r < 0.45:
        return rng.choice([1, -1])
    return rng.choice([s for s in range(-maxstep, maxstep + 1) if s != 0])


def rand_kchain(rng):
    n = rng.choice([0, 1, 2, 3, 5, 8, 13, 21, 30, 40, rng.randint(0, 40)])
    p = "".join(rng.choice("ACGT") for _ in range(n))
    cls = rng.choice(["old", "new", "sdv"])
    off = 0 if cls == "sdv" else rng.choice([0, 0, 3, 17])
    ops = []
    cur = n
    for _ in range(rng.randint(1, 6)):
        if rng.random() < 0.15:
            ops.append(["i", rng.randint(-cur - 1, cur)])
            cur = 1
        else:
            a, b, c = rand_bound(rng, cur), rand_bound(rng, cur), rand_step(rng)
            ops.append(["s", a, b, c])
            cur = len(range(cur)[a:b:c])
    return dict(kind="kchain", cls=cls, p=p, off=off, ops=ops, block="kchain")


def rand_sops(rng, mt, n, depth):
    ops = []
    cur = n
    for _ in range(depth):
        r = rng.random()
        if r < 0.5:
            a, b, c = rand_bound(rng, cur), rand_bound(rng, cur), rand_step(rng)
            ops.append(["slice", a, b, c])
            cur = len(range(cur)[a:b:c])
        elif r < 0.58:
            ops.append(["index", rng.randint(-cur - 1, cur)])
            cur = 1 if cur else 0
        elif r < 0.66:
            ops.append(["copy"])
        elif mt in ("dna", "rna"):
            ops.append([rng.choice(["rc", "rc", "to_rna", "to_dna"])])
        else:
            ops.append(["slice", None, None, -1])
    return ops


def rand_schain(rng, i=0):
    mt = rng.choice(["dna", "dna", "rna", "protein", "text"])
    n = rng.choice([0, 1, 2, 3, 5, 8, 13, 21, 40, rng.randint(0, 40)])
    p = "".join(rng.choice(ALPHABETS[mt]) for _ in range(n))
    impl = rng.choice(["old", "new"])
    off = rng.choice([0, 0, 0, 3, 17])
    origin, p, nomodel = pick_origin(impl, mt, off, i, p)
    ops = rand_sops(rng, mt, len(p), rng.randint(1, 6))
    if origin != "standalone" and i % 2 == 0:
        forced = FORCED_STRIDES[(i // 2) % len(FORCED_STRIDES)]
        ops = [o if (o[0] != "rc" or mt in ("dna", "rna")) else ["slice", None, None, -1] for o in forced] + ops[:3]
    c = dict(kind="schain", impl=impl, mt=mt, p=p, off=off, ops=ops, block="schain", origin=origin)
    if nomodel:
        c["nomodel"] = True
    return c


def corpus_schains():
    """the shapes of the design-phase probes, always run"""
    out = []
    for impl in ("old", "new"):
        out += [
            dict(kind="schain", impl=impl, mt="dna", p="ACGGTNRY", off=0, ops=[["rc"], ["to_rna"]], block="corpus"),
            dict(kind="schain", impl=impl, mt="dna", p="ACGGTNRY", off=3, ops=[["slice", 6, 1, -2], ["to_rna"], ["rc"], ["to_dna"]], block="corpus"),
            dict(kind="schain", impl=impl, mt="rna", p="ACGGUNRY", off=0, ops=[["slice", None, None, -1], ["to_dna"]], block="corpus"),
            dict(kind="schain", impl=impl, mt="dna", p="ACGGTNRYAC", off=3, ops=[["slice", 2, 7, None], ["copy"], ["rc"], ["copy"]], block="corpus"),
            dict(kind="schain", impl=impl, mt="dna", p="ACGGTNRYAC", off=0, ops=[["slice", 8, 1, -3], ["copy"], ["slice", 1, None, None]], block="corpus"),
            dict(kind="schain", impl=impl, mt="protein", p="ACDEFGHIK", off=17, ops=[["slice", None, None, -2], ["index", -1], ["slice", 5, 5, None]], block="corpus"),
        ]
    return out


def corpus_origins():
    """every way of obtaining a sequence x every forced stride shape (positive / negative, |step| = 1 / > 1), as a chain
    (with to_rna / to_dna appended for nucleic acids) and as a method comparison"""
    out = []
    for impl in ("old", "new"):
        for origin in ORIGINS[impl]:
            for mt, p in (("dna", "ACGGTNRYACTTGCAAT"), ("rna", "ACGGUNRYACUUGCAAU"), ("protein", "ACDEFGHIKLMNPQRST")):
                if origin == "coll_rc" and mt == "protein":
                    continue
                for forced in FORCED_STRIDES:
                    ops = [o if (o[0] != "rc" or mt != "protein") else ["slice", None, None, -1] for o in forced]
                    tail = [["to_rna" if mt == "dna" else "to_dna"]] if mt != "protein" else []
                    c = dict(kind="schain", impl=impl, mt=mt, p=p, off=0, ops=ops + tail, block="origins", origin=origin)
                    if origin == "coll_rc" or (impl == "new" and origin.startswith("coll")):
                        c["nomodel"] = True
                    out.append(c)
                    out.append(dict(kind="methods", impl=impl, mt=mt, p=p, off=0, ops=ops, other=p[::-1], block="methods", origin=origin))
    return out


def rand_methods(rng, force_rev=None, i=0):
    mt = rng.choice(["dna", "dna", "rna", "protein", "text"])
    n = rng.choice([1, 2, 3, 6, 9, 12, 21, rng.randint(1, 30)])
    p = "".join(rng.choice(ALPHABETS[mt]) for _ in range(n))
    impl = rng.choice(["old", "new"])
    off = rng.choice([0, 0, 0, 3, 17])
    origin, p, _ = pick_origin(impl, mt, off, i, p)
    ops = rand_sops(rng, mt, len(p), rng.randint(1, 4))
    if force_rev:
        ops.append(["slice", None, None, -1])
    if origin != "standalone" and i % 2 == 1:
        forced = FORCED_STRIDES[(i // 2) % len(FORCED_STRIDES)]
        ops = [o if (o[0] != "rc" or mt in ("dna", "rna")) else ["slice", None, None, -1] for o in forced]
    other = "".join(rng.choice(ALPHABETS[mt]) for _ in range(max(1, len(p))))
    return dict(kind="methods", impl=impl, mt=mt, p=p, off=off, ops=ops, other=other, block="methods", origin=origin)


def corpus_methods():
    out = []
    for impl in ("old", "new"):
        for mt, p in (("dna", "ACGGTNRYACTT"), ("rna", "ACGGUNRYACUU"), ("protein", "ACDEFGHIKLMN"), ("text", "ABCXYZ-?TUAB")):
            for ops in ([["slice", None, None, -1]], [["slice", 1, 11, 2]], [["slice", 10, 0, -3]], [["slice", 2, 9, None]], []):
                for off in (0, 3):
                    out.append(dict(kind="methods", impl=impl, mt=mt, p=p, off=off, ops=ops, other=p[::-1], block="methods",
                                    list_methods=(off == 0 and not ops)))
    return out


REPLACE_PATTERNS = {
    "dna": [["A", "C"], ["C", "G"], ["AC", "GG"], ["CG", "TA"], ["CTT", "NNN"], ["GT", "AA"], ["TTC", "GAG"], ["AA", "GG"], ["AC", ""], ["G", "TT"]],
    "rna": [["A", "C"], ["AC", "GG"], ["CG", "UA"], ["CUU", "NNN"], ["GU", "AA"], ["UUC", "GAG"], ["AA", "GG"], ["AC", "G"]],
    "protein": [["A", "K"], ["AC", "KL"], ["DE", "ST"], ["FGH", "WYV"], ["LL", "MM"], ["AC", "K"]],
    "text": [["A", "Z"], ["AB", "XY"], ["BC", "TU"], ["XYZ", "ABC"], ["AA", "BB"], ["AB", "X"]],
}
REPLACE_VIEWS = [[], [["slice", None, None, -1]], [["rc"]], [["slice", 2, -2, None]], [["slice", 3, None, None], ["slice", None, None, -1]],
                 [["rc"], ["slice", 1, -3, None]], [["slice", None, None, -1], ["slice", 2, 9, None]], [["slice", 1, None, 2]],
                 [["slice", -2, 1, -1]], [["slice", None, None, -2]], [["slice", 4, 12, None], ["rc"], ["slice", 1, None, None]]]


def replace_cases(rng, n_random):
    """old-style Sequence.replace (new-style sequences have no replace) with 1-, 2- and 3-character patterns on whole /
    partial, forward / reversed / strided views; patterns: a fixed list per moltype + words cut out of the displayed string"""
    out = []
    # the witnesses of the four listed classes (known_findings C01-K7a..d), each evaluated exactly once
    W = "ACGGTACTTCGACAAGTTCCGA"
    for mt, p, ops, pat in (("dna", W, [["slice", 2, -2, None]], ["CG", "TA"]),
                            ("dna", W, [["slice", 1, None, 2]], ["AC", "GG"]),
                            ("dna", W, [["slice", None, None, -1]], ["AC", ""]),
                            ("text", "ABABBXXBBBAXYYYBXBYAX", [["slice", None, None, -1]], ["BB", "YX"])):
        out.append(dict(kind="replace", impl="old", mt=mt, p=p, off=0, ops=ops, patterns=[pat], starts=[], block="replace",
                        origin="standalone", known_witness=True))
    parents = {"dna": ["ACGGTACTTCGACAAGTTCCGA", "AACCTTGGAACGCGTTAAGT"], "rna": ["ACGGUACUUCGACAAGUUCCGA"],
               "protein": ["ACDEFGHIKLLMACDESTFGH"], "text": ["ABCXYZABBCAATUXYZAB"]}
    for mt, ps in parents.items():
        for p in ps:
            for ops in REPLACE_VIEWS:
                ops2 = [o if (o[0] != "rc" or mt in ("dna", "rna")) else ["slice", None, None, -1] for o in ops]
                for off in (0, 3):
                    out.append(dict(kind="replace", impl="old", mt=mt, p=p, off=off, ops=ops2, patterns=REPLACE_PATTERNS[mt],
                                    starts=[0, 1, 2, 5, 7, 11], block="replace", origin="standalone" if off else "coll_get"))
    for i in range(n_random):
        mt = rng.choice(["dna", "dna", "dna", "rna", "protein", "text"])
        n = rng.choice([3, 5, 8, 13, 21, 30])
        alpha = {"dna": "ACGT", "rna": "ACGU", "protein": "ACDEKL", "text": "ABXY"}[mt]      # small alphabets: patterns recur
        p = "".join(rng.choice(alpha) for _ in range(n))
        ops = []
        cur = n
        for _ in range(rng.randint(0, 3)):
            r = rng.random()
            if r < 0.35:
                ops.append(["rc"] if mt in ("dna", "rna") else ["slice", None, None, -1])
            else:
                a, b = rand_bound(rng, cur), rand_bound(rng, cur)
                c = rng.choice([None, None, 1, -1, -1, 2, -2, 3])
                ops.append(["slice", a, b, c])
                cur = len(range(cur)[a:b:c])
        pats = []
        for _ in range(4):
            k = rng.choice([1, 2, 2, 3, 3])
            o = "".join(rng.choice(alpha) for _ in range(k))
            nw = "".join(rng.choice(alpha) for _ in range(k if rng.random() < 0.85 else rng.choice([0, 1, 4])))
            pats.append([o, nw])
        out.append(dict(kind="replace", impl="old", mt=mt, p=p, off=rng.choice([0, 0, 3]), ops=ops, patterns=pats,
                        starts=[rng.randint(0, 40) for _ in range(3)], block="replace",
                        origin=rng.choice(["standalone", "coll_get", "aln_get"])))
    return out


def check_replace(rep, cases, impl, stats):
    st = stats.setdefault("replace", dict(cases=0, observations=0, nontrivial=0))
    cells: dict = {}
    for c, ir in zip(cases, impl):
        st["cases"] += 1
        if not isinstance(ir, dict) or "exc" in ir:
            rep.violation(f"runner:replace:{c['impl']}", dict(case=c, observed_impl=ir, broken="the implementation runner itself failed"))
            continue
        st["observations"] += ir["n"]
        for cls, k in (ir.get("steered") or {}).items():
            steer = st.setdefault("steered_away_from_listed_classes", {})
            steer[cls] = steer.get(cls, 0) + k
        for cell, k in ir["counts"].items():
            cells[cell] = cells.get(cell, 0) + k
            if first_time(dict(c, cell=cell)) and "rev-view" in cell and not cell.endswith("len1"):
                st["nontrivial"] += k
        for b in ir["bad"]:
            rep.violation(b["key"], dict(case=c, finding=b, expected_by_spec=b["on_fresh"], observed_impl=b["on_view"],
                                         broken="str(view.replace(old, new)) differs from str(view).replace(old, new)"))
    st["stream_view_partial_patternlength"] = dict(sorted(cells.items()))
    return cells


def comp_cases():
    return [dict(kind="comptable", mt="dna", chars="ACGTNRYMKBVDHSW-?", block="comp"),
            dict(kind="comptable", mt="rna", chars="ACGUNRYMKBVDHSW-?", block="comp"),
            dict(kind="comptable", mt="protein", chars="ACDEFGHIKLMNPQRSTVWY-X", block="comp")]


# ------------------------------------------------------------------ comparison

def first_diff(a, b, path=()):
    if isinstance(a, list) and isinstance(b, list):
        if len(a) != len(b):
            return path, f"len {len(a)}", f"len {len(b)}"
        for i, (x, y) in enumerate(zip(a, b)):
            d = first_diff(x, y, path + (i,))
            if d:
                return d
        return None
    return None if a == b else (path, a, b)


def lattice_abc(c, i):
    na, nb, nc = len(c["avals"]), len(c["bvals"]), len(c["cvals"])
    return c["avals"][i // (nb * nc)], c["bvals"][(i // nc) % nb], c["cvals"][i % nc]


def localise(c):
    """re-run one case in detail on both sides; returns a description of the first difference"""
    dc = dict(c, detail=True)
    impl = core.run_impl_lines(IMPL, [dc])[0]
    model = jsonable(run_model([c], detail=True)[0])
    full = impl.get("full") if isinstance(impl, dict) else None
    d = first_diff(full, model)
    desc = dict(case={k: v for k, v in c.items() if k not in ("avals", "bvals", "cvals") or len(v) < 8})
    if d:
        path, x, y = d
        desc.update(path=list(path), observed_impl=x, model_output=y)
        if c["kind"] == "klattice" and len(path) >= 2 and path[0] == 1:
            a, b, cc = lattice_abc(c, path[1])
            desc["slice"] = [a, b, cc]
            desc["observed_impl"], desc["model_output"] = full[1][path[1]], model[1][path[1]]
            desc["key"] = f"{c['cls']}:slice"
        elif c["kind"] == "kctor" and path:
            desc["slice"] = list(lattice_abc(c, path[0]))
            desc["observed_impl"], desc["model_output"] = full[path[0]], model[path[0]]
            desc["key"] = f"{c['cls']}:constructor"
        else:
            desc["key"] = f"{c.get('cls') or c.get('impl')}:{c['kind']}"
    else:
        desc.update(key=f"{c.get('cls') or c.get('impl')}:{c['kind']}:digest-only", observed_impl=impl if not full else "same", model_output="same")
    return desc


def oracle_speaks(c, desc):
    """does the specification say anything about the differing observation?  (a step of 0 is outside the property)"""
    sl = desc.get("slice")
    if sl is not None and sl[2] == 0:
        return False
    return True


def compare(rep, cases, impl, model, stats, disagreements):
    pending = []
    for c, ir, mr in zip(cases, impl, model):
        blk = c["block"]
        st = stats.setdefault(blk, dict(cases=0, observations=0, nontrivial=0))
        st["cases"] += 1
        if not isinstance(ir, dict) or "exc" in ir:
            rep.violation(f"runner:{blk}:{c.get('cls') or c.get('impl')}", dict(case=c, observed_impl=ir,
                          broken="the implementation runner itself failed on this case"))
            continue
        st["observations"] += ir.get("n", 0)
        if first_time(c):
            st["nontrivial"] += ir.get("nontrivial", 0)
        for cell, k in (ir.get("matrix") or {}).items():
            MATRIX[cell] = MATRIX.get(cell, 0) + k
        for b in ir.get("bad", []):
            small = {k: v for k, v in c.items() if k not in ("avals", "bvals", "cvals", "want_states")}
            rep.violation(b["key"], dict(case=small, finding=b, expected_by_spec=b.get("expected_str", b.get("expected")),
                                         observed_impl=b.get("observed"), broken="implementation differs from the plain-string oracle"))
        if c["kind"] == "comptable":
            for which in ("old", "new"):
                got = ir[which]
                want = list(mr)
                if [g if g is not None else w for g, w in zip(got, want)] != want:
                    disagreements.append(dict(key=f"comp:{c['mt']}:{which}", case=c, observed_impl=got, model_output=mr))
            continue
        if c.get("nomodel"):
            continue
        if ir["digest"] != mr:
            if c["kind"] == "schain" and not c.get("variant"):
                pending.append((c, ir))       # may follow the repaired variant of the model (Model.View.Fixed)
                continue
            if len(disagreements) >= MAX_LOCALISE:
                # enough localised examples: only count the rest (each localisation costs an interpreter and a coqc run)
                disagreements.append(dict(key=f"{c.get('cls') or c.get('impl')}:{c['kind']}:not-localised", block=blk))
                continue
            desc = localise(c)
            if not ir.get("bad") or oracle_speaks(c, desc):
                disagreements.append(desc)
    if pending:
        fixed = run_model([dict(c, variant="Fixed") for c, _ in pending])
        for (c, ir), mf in zip(pending, fixed):
            if ir["digest"] == mf:
                stats.setdefault("schain", dict(cases=0, observations=0, nontrivial=0)).setdefault("follow_fixed_variant", 0)
                stats["schain"]["follow_fixed_variant"] += 1
            elif len(disagreements) >= MAX_LOCALISE:
                disagreements.append(dict(key=f"{c['impl']}:schain:not-localised", block=c["block"]))
            else:
                disagreements.append(localise(c))


def check_methods(rep, cases, impl, stats):
    st = stats.setdefault("methods", dict(cases=0, observations=0, nontrivial=0))
    listed = None
    skipped = set()
    for c, ir in zip(cases, impl):
        st["cases"] += 1
        if not isinstance(ir, dict) or "exc" in ir:
            rep.violation(f"runner:methods:{c['impl']}", dict(case=c, observed_impl=ir, broken="the implementation runner itself failed"))
            continue
        st["observations"] += ir["n_methods"]
        cell = f"{ir.get('origin', 'standalone')}|methods|{ir.get('step_class', '?')}"
        MATRIX[cell] = MATRIX.get(cell, 0) + ir["n_methods"]
        if first_time(c):
            st["nontrivial"] += ir["nontrivial"]
        skipped |= set(ir["skipped"])
        if ir.get("methods") and c["mt"] == "dna":
            listed = (listed or {})
            listed[c["impl"]] = ir["methods"]
        for b in ir["bad"]:
            rep.violation(b["key"], dict(case=c, finding=b, expected_by_spec=b["on_fresh"], observed_impl=b["on_view"],
                                         broken=f"method {b['method']} answers differently on the view-backed sequence "
                                                f"than on make_seq(str(view))"))
    return listed, sorted(skipped)


def matrix_report():
    """sequence origin x realisation route x step class -> number of comparisons with the oracle (routes) / of method
    comparisons (methods); kernel-<class> rows: the three realisations of a view compared with each other"""
    expected = []
    for impl in ("old", "new"):
        for origin in ORIGINS[impl]:
            for route in ROUTES[impl] + ["methods"]:
                for sc in STEP_CLASSES:
                    expected.append((impl, f"{origin}|{route}|{sc}"))
    for cls in ("new", "sdv"):
        for route in ("str_value", "bytes_value", "array_value"):
            for sc in STEP_CLASSES:
                expected.append((cls, f"kernel-{cls}|{route}|{sc}"))
    # cells are keyed without the implementation; routes bytes/array exist for new-style only, aln_* origins for old-style only
    cells = dict(sorted(MATRIX.items()))
    empty = sorted({cell for _, cell in expected if not MATRIX.get(cell)})
    return dict(axes=dict(origin=sorted({o for v in ORIGINS.values() for o in v}) + ["kernel-new", "kernel-sdv"],
                          route=sorted({r for v in ROUTES.values() for r in v}) + ["methods", "str_value", "bytes_value", "array_value"],
                          step_class=STEP_CLASSES),
                counts=cells, empty_cells=empty,
                note="origins: standalone = make_seq; coll_get / coll_seqs = make_unaligned_seqs(...).get_seq(name) / .seqs[name]; "
                     "coll_rc = the same after collection.rc(); aln_get / aln_gapped = old-style make_aligned_seqs(...).get_seq / "
                     "get_gapped_seq (gap-free rows).  New-style collection sequences are SeqDataView-backed.")


# ------------------------------------------------------------------ the check

def run(tier: str, seed: int) -> int:
    rep = core.Report(PROP, tier, seed)
    _SEEN.clear()
    MATRIX.clear()
    rng = random.Random(seed * 7919 + 1)
    # gen/ViewGen.v is shared by every run: concurrent C01 runs against different source trees (seeded-change tests) must not
    # build against each other's translation, so regenerate + build + Print Assumptions happen under one lock
    core.GEN.mkdir(exist_ok=True)
    with core._Lock(core.GEN / ".c01_viewgen.lock"):
        terr, records = run_translator()
        if terr is None:
            pr = core.proof_stage(PROP, COQ_TARGETS)
        else:
            # the source left the translatable fragment: no proof obligation counts as discharged, the tie is reported broken
            # and the decision falls to the (widened) behavioural correspondence below
            pr = {"obligations": len(core.property_theorems(PROP)), "discharged": 0, "theorems": {},
                  "problems": ["translator tie broken: py2gallina failed closed: " + terr]}
    if pr["problems"]:
        core.make(MODEL_TARGETS)          # the model itself does not depend on the generated file: keep it runnable
        pr["problems"] = [explain_tie_break(x, pr) for x in pr["problems"]]
    core.proof_coverage(rep, pr, "py2gallina.py > gen/ViewGen.v && make theories/Properties/C01.vo && coqc gen/assum_C01.v (Print Assumptions)", [
        "translator harness/translators/py2gallina.py: trusted to emit Gallina that means what the Python text of the view kernel means, "
        "for the small fragment it accepts (integer expressions, comparisons, and/or/not, if/elif/else with early return, local "
        "assignments, field and property reads, keyword construction, raise); anything else aborts the translation",
        "Python slice semantics Lib/PySlice.v (transcribed from CPython PySlice_AdjustIndices) - the harness oracle uses CPython's own slicing",
        "the IUPAC complement table Model.View.comp (compared character by character with both moltype implementations in every run)",
        "methods other than str/len/iter/getitem/rc/to_rna/to_dna/copy/parent_coordinates are not modelled: compared between the "
        "view-backed sequence and make_seq(str(view)) on sampled inputs",
        "sequence chains: the implementation may follow its pinned model variant (Model.View.OldStyle / NewStyle, for which "
        "to_rna_old_refuted / copy_new_refuted are proved) or the repaired one (Model.View.Fixed, for which chain_spec holds on all "
        "operations); violations are decided by the plain-string oracle alone",
    ])
    rep.assumptions += ["step != 0 for every slice (Python raises ValueError; the views' own step-0 behaviour is compared model-vs-implementation only)",
                        "sequence characters are upper-case letters of the moltype's alphabet (make_seq upper-cases / validates)"]
    proof_broken = bool(pr["problems"])
    t0 = time.time()
    stats: dict = {}
    disagreements: list = []
    mult = 4 if proof_broken else 1

    # ---- phase 1
    d1 = lattice_cases(tier)
    n_k = (400 if tier == "quick" else 10000) * mult
    n_s = (500 if tier == "quick" else 14000) * mult
    n_m = (160 if tier == "quick" else 4000) * mult
    kchains = [rand_kchain(rng) for _ in range(n_k)]
    co = corpus_origins()
    schains = corpus_schains() + [c for c in co if c["kind"] == "schain"] + [rand_schain(rng, i) for i in range(n_s)]
    methods = corpus_methods() + [c for c in co if c["kind"] == "methods"] + [rand_methods(rng, force_rev=(i % 3 == 0), i=i) for i in range(n_m)]
    phase1 = d1 + ctor_cases(tier) + sdv_offset_cases() + comp_cases() + kchains + schains
    repl = replace_cases(rng, (150 if tier == "quick" else 3000) * mult)
    impl1 = core.run_impl_sharded(IMPL, phase1 + methods + repl)
    impl_r = impl1[len(phase1) + len(methods):]
    impl_m = impl1[len(phase1): len(phase1) + len(methods)]
    impl1 = impl1[: len(phase1)]
    model_ok = True
    try:
        model1 = run_model(phase1)
    except core.CheckError as e:
        if not proof_broken:
            raise
        rep.notes.append(f"model not runnable: {str(e)[:300]}")
        model_ok = False
        model1 = [None] * len(phase1)
    if model_ok:
        compare(rep, phase1, impl1, model1, stats, disagreements)
    else:
        compare(rep, phase1, impl1, [ir.get("digest") if isinstance(ir, dict) else None for ir in impl1], stats, disagreements)
    listed, skipped = check_methods(rep, methods, impl_m, stats)
    check_replace(rep, repl, impl_r, stats)

    # ---- phase 2: depth 2 from every distinct view state seen in depth 1
    d2 = depth2_cases(tier, d1, impl1[: len(d1)])
    impl2 = core.run_impl_sharded(IMPL, d2)
    if model_ok:
        model2 = run_model(d2)
    else:
        model2 = [ir.get("digest") if isinstance(ir, dict) else None for ir in impl2]
    compare(rep, d2, impl2, model2, stats, disagreements)

    evaluations = sum(s["observations"] for s in stats.values())
    nontrivial = sum(s["nontrivial"] for s in stats.values())
    rep.coverage.update(
        evaluations=evaluations, distinct_nontrivial=nontrivial,
        rule="one evaluation = one observed view/sequence state (start, stop, step, seq_len, offset, len, parent_start, parent_stop, "
             "string; plus absolute/relative positions and every seq[i] in the chain blocks) or one method compared between the view "
             "and a fresh sequence; non-trivial = non-empty result of a slice with |step| > 1 or a negative bound (lattices, which "
             "enumerate distinct (view, a, b, c) by construction), chain that ends reversed or strided and non-empty (chains)",
        samples=[dict(case={k: v for k, v in schains[0].items()}, impl_digest=impl1[len(phase1) - len(schains)].get("digest")),
                 dict(case=kchains[0]), dict(case={k: v for k, v in methods[-1].items()})],
        input_distribution=dict(blocks=stats, depth2_view_states=len(d2),
                                lattice="a,b in {None} U [-8,8], c in {None,+-1,+-2,+-3,0}; n = 0..6 depth 1; depth 2 from every distinct "
                                        "one-slice view state for n <= " + ("3 (a,b in [-6,6])" if tier == "quick" else "4"),
                                chains="random: n <= 40, depth <= 6, bounds in [-n-3, n+3] or None, steps to +-7, int indexing, "
                                       "offsets {0,3,17}, moltypes dna/rna/protein/text"),
        methods_compared=listed, methods_skipped_need_arguments=skipped,
        realisation_matrix=matrix_report(),
        model_impl_disagreements=len(disagreements),
        translator_tie=tie_report(terr, records, pr),
        exhaustive=False,
        partial=[
            "every public read-only method other than str/len/iter/getitem/rc/to_rna/to_dna/copy/parent_coordinates is compared "
            "(view-backed vs fresh sequence) on sampled inputs, not proved",
            "absolute_position / relative_position: only the inverse law on displayed indices is proved (abs_rel_inverse); the values for "
            "include_boundary / stop flags and out-of-range arguments are compared model-vs-implementation in the kernel chain block",
            "seqid / name / info propagation: compared (has_id flag), not proved",
            "the pinned old-style Sequence.to_moltype and the pinned new-style Sequence.copy with an annotation offset violate the "
            "chain statement (theorems to_rna_old_refuted, copy_new_refuted); chain_spec is proved for the repaired variant "
            "(Model.View.Fixed) on all operations and for the pinned variants on the remaining operations",
            "old-style Sequence.replace (new-style has none) is compared with str(view).replace on 1-/2-/3-character patterns over whole / "
            "partial / reversed / strided views; four structural classes in which the pinned code matches against the parent string are "
            "open known findings C01-K7a..d (keys replace:partial-view-straddle, replace:strided-view-multichar, "
            "replace:length-changing:partial-or-reversed-view, replace:reversed-view-overlapping-matches): one corpus witness each, the "
            "generators steer away from them elsewhere; every other replace case is in the clean stream and a difference there is a VIOLATION",
            "a SeqDataView constructed directly with offset != 0 (not reachable through the library) is compared "
            "model-vs-implementation only",
        ],
    )
    dis = disagreements[:5]
    core.conclude(rep, pr, f"{sum(s['cases'] for s in stats.values())} batched cases / {evaluations} observations against Python slicing",
                  dis, "Model.ViewRun.run_case vs cogent3 SeqView / SeqDataView / Sequence", tier, PROP)
    rep.coverage["stage_c_wall_s"] = round(time.time() - t0, 1)
    return rep.finish("proof")


def replay(path: str) -> int:
    d = json.loads(open(path).read())
    if "case" not in d:
        print("replay names a broken obligation, not an input:", d.get("broken"))
        return 1
    c = dict(d["case"])
    f = d.get("finding") or {}
    if c["kind"] == "klattice" and f.get("ops"):
        # single slice that failed: last op of the finding on top of the prefix
        last = f["ops"][-1]
        c.update(pre=f["ops"][:-1], avals=[last[1]], bvals=[last[2]], cvals=[last[3]])
    elif c["kind"] == "kctor" and f.get("args"):
        c.update(avals=[f["args"][0]], bvals=[f["args"][1]], cvals=[f["args"][2]])
    elif c["kind"] == "klattice" and "slice" in d:
        a, b, cc = d["slice"]
        c.update(avals=[a], bvals=[b], cvals=[cc])
    c["detail"] = True
    impl = core.run_impl_lines(IMPL, [c])[0]
    print("case  :", json.dumps(c))
    print("impl  :", json.dumps(impl)[:3000])
    found = (impl.get("bad") or []) if isinstance(impl, dict) else []
    key = d.get("key")
    same_kind = [b for b in found if b.get("key") == key]
    if same_kind or (key and any("key" in b for b in found) and not str(key).startswith(("correspondence", "runner"))):
        found = same_kind          # other findings on the same input belong to other replays
    bad = bool(found)
    if not bad and c["kind"] != "methods" and "model_output" in d:
        model = jsonable(run_model([c], detail=True)[0])
        print("model :", json.dumps(model)[:3000])
        bad = impl.get("full") != model
    print("oracle:", json.dumps(found)[:3000])
    print("REPRODUCED" if bad else "not reproduced")
    return 1 if bad else 0
