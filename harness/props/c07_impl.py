"""C07 implementation runner: drives the real Calculator (synthetic cell graphs),
the real ParameterController (synthetic definition graphs) and real likelihood
functions.  One interpreter handles many histories (numba warm-up once)."""
import warnings

warnings.filterwarnings("ignore")

from vcheck.val import Exc, exc_code  # noqa: E402

MOD = 10007


def unbox(x):
    if isinstance(x, list):
        return int(x[0])
    return int(x)


def cellfun(k, c):
    from cogent3.maths.optimisers import ParameterOutOfBoundsError

    def fn(args):
        a = [unbox(x) for x in args]
        if k == 2:
            return (sum(a) + c) % MOD
        if k == 3:
            p = 1
            for x in a:
                p *= x
            return (p + c) % MOD
        if k == 4:
            s = sum(a)
            if c < s:
                raise ParameterOutOfBoundsError(f"{s} > {c}")
            return s
        if not a:
            return c
        return ((a[0] - sum(a[1:])) * c) % MOD

    return fn


# ---------------------------------------------------------------- (1) synthetic Calculator

def build_calc(cells, inp0, log):
    from cogent3.recalculation.calculation import Calculator, ConstCell, EvaluatedCell, OptPar

    class TOptPar(OptPar):
        def transform_from_optimiser(self, value):
            return 3 * value + 1

        def transform_to_optimiser(self, value):
            return (value - 1) // 3

    objs = []
    for r, (k, c, args, rec) in enumerate(cells):
        if k == 0:
            cls = TOptPar if c == 1 else OptPar
            objs.append(cls(f"p{r}", (), (-1e9, inp0[r], 1e9)))
        elif k == 1:
            objs.append(ConstCell(f"c{r}", inp0[r]))
        else:
            fn = cellfun(k, c)
            if rec:
                def calc(recycled, *a, _fn=fn, _r=r):
                    log.append(_r)
                    v = _fn(a)
                    if recycled is None:
                        recycled = [None]
                    recycled[0] = v
                    return recycled
            else:
                def calc(*a, _fn=fn, _r=r):
                    log.append(_r)
                    return _fn(a)
            objs.append(EvaluatedCell(f"e{r}", calc, [objs[a] for a in args], recycling=bool(rec)))
    return Calculator(objs, {}), objs


def obs_state(calc, cells):
    n = len(cells)

    def slot(r, buf):
        v = buf[r]
        if cells[r][3]:
            return None if v is None else int(v[0])
        return int(v)

    b0, b1 = calc.cell_values
    alias = []
    for r in range(n):
        if cells[r][0] >= 2 and cells[r][3]:
            sp = calc.spare[r]
            alias.append([r, b0[r] is b1[r], sp is None, sp is not None and sp is b0[r], sp is not None and sp is b1[r]])
    return [bool(calc._switch), [int(v) for v in calc.last_values], [[int(i), int(v)] for i, v in calc.last_undo],
            [slot(r, b0) for r in range(n)], [slot(r, b1) for r in range(n)], alias]


def run_calc(case):
    from cogent3.maths.optimisers import ParameterOutOfBoundsError

    cells, inp0, ops = case["cells"], case["inp0"], case["ops"]
    log = []
    try:
        calc, objs = build_calc(cells, inp0, log)
    except (ParameterOutOfBoundsError, ArithmeticError):
        return Exc(9)
    assert [type(o).__name__ for o in calc._cells] == [type(o).__name__ for o in objs], "rank order changed"
    out = [obs_state(calc, cells)]
    for kind, arg in ops:
        del log[:]
        try:
            if kind == "change":
                r = calc.change([(int(i), v) for i, v in arg])
            else:
                r = calc.testoptparvector(list(arg))
            r = unbox(r)
        except (ParameterOutOfBoundsError, ArithmeticError):
            r = Exc(9)
        except AssertionError:
            r = Exc(3)
        out.append([r, list(log), obs_state(calc, cells)])
    return out


# ---------------------------------------------------------------- (2) synthetic ParameterController

class Boom(Exception):
    pass


def run_ctl(case):
    from cogent3.recalculation.definition import CalcDefn, ParamDefn

    ds, asg, ops = case["defns"], case["asg"], case["ops"]
    defns = []
    for d, (k, c, args) in enumerate(ds):
        if not args:
            defns.append(ParamDefn(f"p{d}", default=float(asg[d]), lower=-1e9, upper=1e9))
        else:
            fn = cellfun(k, c)
            defns.append(CalcDefn(lambda *a, _fn=fn: _fn(a), name=f"e{d}")(*[defns[a] for a in args]))
    pc = defns[-1].make_likelihood_function()
    assert len(pc.defns) == len(ds), "a definition is not reachable from the top"

    def obs():
        vals = []
        for df in defns:
            assert len(df.values) == 1
            vals.append(int(df.values[0]))
        return [vals, bool(pc._update_suspended)]

    from cogent3.maths.optimisers import ParameterOutOfBoundsError

    # the controller's own topological order (the order in which a propagation visits the definitions)
    order = [next(i for i, d in enumerate(defns) if d is x) for x in pc.defns]
    out = [["order", order], obs()]
    for o in ops:
        # a definition's update may raise (kind 4): the caller catches and carries on
        if o[0] == "assign":
            try:
                pc.assign_all(f"p{o[1]}", value=float(o[2]))
            except ParameterOutOfBoundsError:
                pass
        else:
            body, raises = o[1], o[2]
            try:
                with pc.updates_postponed():
                    for d, v in body:
                        pc.assign_all(f"p{d}", value=float(v))
                    if raises:
                        raise Boom()
            except (Boom, ParameterOutOfBoundsError):
                pass
        out.append(obs())
    return out


# ---------------------------------------------------------------- (3) likelihood functions

_ALN = {}


def get_aln(key, names, length, seed):
    import random

    from cogent3 import make_aligned_seqs

    k = (key, tuple(names), length, seed)
    if k not in _ALN:
        rng = random.Random(seed)
        anc = [rng.choice("ACGT") for _ in range(length)]
        data = {}
        for n in names:
            s = list(anc)
            for i in range(length):
                if rng.random() < 0.25:
                    s[i] = rng.choice("ACGT")
            data[n] = "".join(s)
        _ALN[k] = make_aligned_seqs(data=data, moltype="dna")
    return _ALN[k]


def make_lf(spec):
    from cogent3 import get_model, make_tree

    tree = make_tree(spec["tree"])
    if spec["model"] == "GS":
        from cogent3 import get_moltype
        from cogent3.evolve.ns_substitution_model import GeneralStationary

        lf = GeneralStationary(get_moltype("dna").alphabet).make_likelihood_function(tree)
        lf.set_alignment(get_aln("a", tree.get_tip_names(), spec["length"], spec["aln_seed"]))
        return lf
    if spec.get("bins"):
        sm = get_model(spec["model"], ordered_param="rate", distribution=spec.get("dist", "gamma"))
        lf = sm.make_likelihood_function(tree, bins=int(spec["bins"]))
    else:
        lf = get_model(spec["model"]).make_likelihood_function(tree)
    lf.set_alignment(get_aln("a", tree.get_tip_names(), spec["length"], spec["aln_seed"]))
    return lf


def scalar_params(lf):
    """(name, has an edge dimension, has a bin dimension) of the numeric input parameters"""
    out = []
    nb = len(getattr(lf, "bin_names", []) or [])
    for par in lf.get_param_names():
        defn = lf.defn_for[par]
        if getattr(defn, "numeric", False) and hasattr(defn, "get_param_rules"):
            out.append((par, "edge" in defn.valid_dimensions, "bin" in defn.valid_dimensions and nb > 1))
    return out


def cells_of(lf, edges, has_edge, has_bin):
    bins = list(lf.bin_names) if has_bin else [None]
    return [(e, b) for e in (edges if has_edge else [None]) for b in bins]


def pvalue(lf, par, cell):
    e, b = cell
    kw = {}
    if e is not None:
        kw["edge"] = e
    if b is not None:
        kw["bin"] = b
    return float(lf.get_param_value(par, **kw))


def hidden_partitions(lf):
    """optimisable probability-vector inputs that are not user parameters (e.g. rate_partition of distribution='free')"""
    from cogent3.recalculation.definition import PartitionDefn

    names = set(lf.get_param_names())
    return sorted(n for n, d in lf.defn_for.items() if isinstance(d, PartitionDefn) and n not in names)


def param_table(lf, edges):
    """every parameter value of the function: scalars by (edge, bin), plus the probability vectors"""
    import numpy

    tab = {}
    for par, has_edge, has_bin in scalar_params(lf):
        for c in cells_of(lf, edges, has_edge, has_bin):
            tab[f"{par}|{c[0]}|{c[1]}"] = pvalue(lf, par, c)
    for par in lf.get_param_names():
        defn = lf.defn_for[par]
        if not getattr(defn, "numeric", False) and hasattr(defn, "get_param_rules"):
            v = numpy.asarray(lf.get_param_value(par), dtype=float).ravel()
            for i, x in enumerate(v):
                tab[f"{par}#{i}"] = float(x)
    for par in hidden_partitions(lf):
        v = numpy.asarray(lf.get_param_value(par), dtype=float).ravel()
        for i, x in enumerate(v):
            tab[f"{par}#{i}"] = float(x)
    return tab


def scope_tables(lf):
    """the scope table of every numeric input parameter, read from the definition itself:
    {par: {dims, indep_default, lower, upper, nfp, cells: [[scope tuple, index, const, lower, value, upper]]}}"""
    out = {}
    for par, _, _ in scalar_params(lf):
        d = lf.defn_for[par]
        cells = []
        stale = False
        for k in sorted(d.assignments):
            st = d.assignments[k]
            if d.uniq[d.index[k]] is not st:
                stale = True            # a completed call left assignments that the index does not know about
            const = bool(st.is_constant)
            cells.append([list(k), int(d.index[k]), const, None if const else float(st.lower), float(st.value),
                          None if const else float(st.upper), getattr(st, "_serial", None)])
        out[par] = dict(dims=list(d.valid_dimensions), indep_default=bool(d.independent_by_default), lower=float(d.lower),
                        upper=float(d.upper), nfp=int(d.get_num_free_params()), cells=cells, stale=stale)
    return out


def canon_rules(rules):
    """exported rules of the numeric parameters, per parameter, in export order"""
    import numpy

    out = {}
    for r in rules:
        v = r.get("init", r.get("value"))
        if isinstance(v, dict) or numpy.ndim(v):
            continue
        sc = {}
        for one, many in (("edge", "edges"), ("bin", "bins"), ("locus", "loci")):
            if one in r:
                sc[one] = [r[one]]
            elif many in r:
                sc[one] = list(r[many])
        out.setdefault(r["par_name"], []).append(
            dict(scope=sc, indep=r.get("is_independent"), const=bool(r.get("is_constant", False)), value=float(v),
                 lower=None if r.get("lower") is None else float(r["lower"]), upper=None if r.get("upper") is None else float(r["upper"])))
    return out


def rules_summary(rules):
    """per exported rule: [par, is_constant, keys present, init==0, init==lower, init==upper, const value==0]"""
    import numpy

    out = []
    for r in rules:
        const = bool(r.get("is_constant", False))
        keys = ["value" in r, const, "init" in r, r.get("lower") is not None, r.get("upper") is not None]
        init = r.get("init")
        scalar = init is not None and numpy.ndim(init) == 0 and not isinstance(init, dict)
        val = r.get("value")
        vscalar = val is not None and numpy.ndim(val) == 0 and not isinstance(val, dict)
        vec = init if isinstance(init, dict) else val if isinstance(val, dict) else None
        out.append([r["par_name"], const, keys,
                    bool(scalar and float(init) == 0.0),
                    bool(scalar and r.get("lower") is not None and float(init) == float(r["lower"])),
                    bool(scalar and r.get("upper") is not None and float(init) == float(r["upper"])),
                    bool(vscalar and float(val) == 0.0),
                    bool(vec is not None and any(float(x) == 0.0 for x in vec.values()))])
    return out


def apply_setting(lf, s):
    """one tracked setting -> one API call"""
    if s["what"] == "mprobs":
        lf.set_motif_probs(dict(zip("TCAG", s["value"])))
    elif s["what"] == "aln":
        lf.set_alignment(get_aln("a", lf.tree.get_tip_names(), s["length"], s["aln_seed"]))
    else:
        kw = {}
        if s.get("edges"):
            kw["edges"] = list(s["edges"])
        if s.get("bins"):
            kw["bins"] = list(s["bins"])
        if s.get("const"):
            kw.update(value=s["value"], is_constant=True)
        else:
            kw.update(init=s["value"], is_independent=bool(s.get("indep")))
            if s.get("lower") is not None:
                kw["lower"] = s["lower"]
            if s.get("upper") is not None:
                kw["upper"] = s["upper"]
        lf.set_param_rule(s["par"], **kw)


class Settings:
    """the FINAL settings a history leaves behind, tracked by the harness itself (not read from the
    function under test, except the values an optimiser session left): per parameter and cell
    (edge, bin): [group id, value, is_constant, lower, upper] — cells with the same group id share one
    parameter; group ids are handed out chronologically.  A rule one of whose scopes ends up with
    lower > upper is REJECTED as a whole and leaves no trace."""

    def __init__(self, spec):
        lf = make_lf(spec)
        self.edges = [e.name for e in lf.tree.get_edge_vector(include_root=False)]
        self.par = {}
        self.gid = 0
        self.bounds = {}
        for par, has_edge, has_bin in scalar_params(lf):
            self.par[par] = {}
            lo, hi = float(lf.defn_for[par].lower), float(lf.defn_for[par].upper)
            self.bounds[par] = (lo, hi)
            shared = self._new()
            for c in cells_of(lf, self.edges, has_edge, has_bin):
                g = self._new() if par == "length" else shared
                self.par[par][c] = [g, pvalue(lf, par, c), False, lo, hi]
        self.touched = set()
        self.other = {}
        self.hidden = {}

    def _new(self):
        self.gid += 1
        return self.gid

    def track(self, s):
        """returns False when the rule must be rejected (ValueError: upper < lower)"""
        if s["what"] != "par":
            self.other[s["what"]] = s
            return True
        par = s["par"]
        assert par in self.par, par
        E, B = s.get("edges"), s.get("bins")
        sel = [c for c in self.par[par] if (not E or c[0] in E) and (not B or c[1] in B)]
        const = bool(s.get("const"))
        groups = [[c] for c in sel] if (s.get("indep") and not const) or const else [sel]
        new = {}
        for grp in groups:
            if const:
                rec = [None, s["value"], True, None, None]
            else:
                free = [self.par[par][c] for c in grp if not self.par[par][c][2]]
                lo = min((r[3] for r in free), default=self.bounds[par][0])
                hi = max((r[4] for r in free), default=self.bounds[par][1])
                if s.get("lower") is not None:
                    lo = s["lower"]
                if s.get("upper") is not None:
                    hi = s["upper"]
                if lo > hi:
                    return False               # nothing at all is assigned
                rec = [None, min(max(s["value"], lo), hi), False, lo, hi]
            new[tuple(grp)] = rec
        self.touched.add(par)
        tied = self._new()
        for grp, rec in new.items():
            g = tied if (not const and not s.get("indep")) else None
            for c in grp:
                self.par[par][c] = [g if g is not None else self._new(), rec[1], rec[2],
                                    rec[3] if rec[3] is not None else self.bounds[par][0],
                                    rec[4] if rec[4] is not None else self.bounds[par][1]]
        return True

    def after_calc(self, lf):
        import numpy

        if "bprobs" in lf.get_param_names():
            self.other["bprobs"] = numpy.array(lf.get_param_value("bprobs"), dtype=float)
        for name in hidden_partitions(lf):
            self.hidden[name] = numpy.array(lf.get_param_value(name), dtype=float)
        for par, d in self.par.items():
            for c, rec in d.items():
                if not rec[2]:
                    v = pvalue(lf, par, c)
                    if v != rec[1]:
                        self.touched.add(par)
                    rec[1] = v

    def build(self, spec):
        """a newly built function given these settings.  Each group is set by ONE rule over the bounding
        box of its cells, groups in chronological order: a later group's box only spills over cells that
        belong to still later groups, which then overwrite them."""
        lf = make_lf(spec)
        if "aln" in self.other:
            apply_setting(lf, self.other["aln"])
        if "mprobs" in self.other:
            apply_setting(lf, self.other["mprobs"])
        if "bprobs" in self.other:
            lf.set_param_rule("bprobs", init=self.other["bprobs"].copy())
        for name, v in self.hidden.items():
            lf.set_param_rule(name, init=v.copy())
        for par in sorted(self.touched):
            groups = {}
            for c in self.par[par]:
                g, v, k, lo, hi = self.par[par][c]
                groups.setdefault(g, [[], v, k, lo, hi])[0].append(c)
            for g in sorted(groups):
                cells, v, k, lo, hi = groups[g]
                E = sorted({c[0] for c in cells if c[0] is not None}) or None
                B = sorted({c[1] for c in cells if c[1] is not None}) or None
                apply_setting(lf, dict(what="par", par=par, edges=E, bins=B, value=v, const=k, indep=False,
                                       lower=None if k else lo, upper=None if k else hi))
        return lf


def roundtrip(spec, lf, st, plain_hidden=False):
    """export the rules, apply them to a newly made function, compare lnL, nfp and EVERY parameter value.
    Optimisable partitions that are not user parameters (rate_partition of distribution='free') are not exported by
    get_param_rules (known finding, key lf:roundtrip:hidden-partition): that clause is evaluated only on the corpus
    witnesses (plain_hidden=True); everywhere else the hidden partitions are handed over directly so that every OTHER
    aspect of the round trip stays under test.  On the witnesses both variants are reported."""
    import numpy

    def attempt(compensate):
        new = make_lf(spec)
        if "aln" in st.other:
            apply_setting(new, st.other["aln"])
        rules = lf.get_param_rules()
        new.apply_param_rules(rules)
        if compensate:
            for name in hidden_partitions(lf):
                new.set_param_rule(name, init=numpy.array(lf.get_param_value(name), dtype=float))
        a, b = param_table(lf, st.edges), param_table(new, st.edges)
        worst, which = 0.0, None
        for k in sorted(set(a) | set(b)):
            if k not in a or k not in b:
                worst, which = float("inf"), [k, a.get(k), b.get(k)]
                break
            d = abs(a[k] - b[k]) / max(1.0, abs(a[k]))
            if d > worst:
                worst, which = d, [k, a[k], b[k]]
        return dict(lnL=float(new.get_log_likelihood()), nfp=int(new.get_num_free_params()), worst=worst, which=which,
                    rules=rules_summary(rules), nparams=len(a), canon=canon_rules(rules), tables=scope_tables(new))

    hidden = bool(hidden_partitions(lf))
    if not hidden:
        return attempt(False)
    if not plain_hidden:
        return attempt(True)
    rt = attempt(False)
    comp = attempt(True)
    rt["compensated"] = dict(lnL=comp["lnL"], nfp=comp["nfp"], worst=comp["worst"], which=comp["which"])
    return rt


def run_lf(case):
    """returns one record per step: [tag, observed lnL, fresh lnL, observed nfp, fresh nfp, extra]"""
    import numpy

    spec, ops = case["spec"], case["ops"]
    lf = make_lf(spec)
    st = Settings(spec)
    if "edges" in case:
        assert sorted(case["edges"]) == sorted(st.edges), (case["edges"], st.edges)
    out = []

    tolerant = bool(case.get("tolerant"))     # settings may be rejected (inadmissible combination); the caller catches
    rejected = [0]

    mismatch = []

    def apply(s, accepted=True):
        if not tolerant:
            # a rule refused with ValueError (incompatible bounds in one of its scopes): the caller carries on
            try:
                apply_setting(lf, s)
                raised = False
            except ValueError as e:
                if "Bounds" not in str(e):
                    raise
                raised = True
            if raised == accepted:
                mismatch.append([s, "raised" if raised else "accepted"])
            return
        try:
            apply_setting(lf, s)
        except Exception as e:  # noqa: BLE001
            if type(e).__name__ not in ("ParameterOutOfBoundsError", "ArithmeticError", "LinAlgError", "ValueError"):
                raise
            rejected[0] += 1

    def record(tag, extra=None):
        if tolerant:
            # the newly built function may itself reject the current settings: then the specification says nothing
            try:
                fr = st.build(spec)
                f_lnl, f_nfp = float(fr.get_log_likelihood()), int(fr.get_num_free_params())
            except Exception:  # noqa: BLE001
                out.append([tag + ":inadmissible", float(lf.get_log_likelihood()), None, int(lf.get_num_free_params()), None,
                            dict(rejected=rejected[0]), None, {}])
                return
            out.append([tag, float(lf.get_log_likelihood()), f_lnl, int(lf.get_num_free_params()), f_nfp,
                        dict(rejected=rejected[0]), None, {}])
            return
        fr = st.build(spec)
        if mismatch:
            extra = dict(extra or {}, rejection_mismatch=list(mismatch))
        out.append([tag, float(lf.get_log_likelihood()), float(fr.get_log_likelihood()), int(lf.get_num_free_params()),
                    int(fr.get_num_free_params()), extra, roundtrip(spec, lf, st, bool(case.get("plain_hidden"))), scope_tables(lf)])

    record("init")
    for o in ops:
        kind = o["op"]
        if kind == "set":
            ok = st.track(o["s"])     # the leaf assignment is made before the propagation that may reject it
            apply(o["s"], ok)
            record("set:" + o["s"]["what"] + ("" if ok else ":rejected"))
        elif kind == "refresh":
            lf.make_calculator()      # calls update() on every definition
            record("refresh")
        elif kind == "optimise" and not numpy.isfinite(float(lf.get_log_likelihood())):
            lf.make_calculator()      # the optimiser refuses to start from lnL = -inf (API precondition): only refresh
            record("refresh")
        elif kind == "optimise":
            lc = lf.optimise(max_evaluations=int(o["evals"]), local=True, show_progress=False, limit_action="ignore",
                             return_calculator=True)
            wb = abs(float(lf.get_log_likelihood()) - float(lc.testfunction())) / max(1.0, abs(float(lc.testfunction())))
            first = float(lf.get_log_likelihood())
            lf.make_calculator()
            rr = abs(float(lf.get_log_likelihood()) - first) / max(1.0, abs(first))
            st.after_calc(lf)
            record("optimise", dict(worst=0.0, nsteps=0, nopt=len(lc.opt_pars), writeback=wb, reread=rr))
        elif kind == "postponed":
            try:
                with lf.updates_postponed():
                    for s in o["body"]:
                        ok = st.track(s)
                        apply(s, ok)
                    if o["raises"]:
                        raise Boom()
            except Boom:
                pass
            except Exception:  # noqa: BLE001
                if not tolerant:
                    raise
                rejected[0] += 1
            record("postponed-raise" if o["raises"] else "postponed")
        elif kind == "roundtrip":
            record("roundtrip")
        elif kind == "calc":
            # an optimiser session: vectors are given as perturbations of the start
            calc = lf.make_calculator()
            x0 = numpy.array(calc.get_value_array(), dtype=float)
            n = len(x0)
            worst = 0.0
            detail = None
            nsteps = 0
            if n:
                lo, hi = calc.get_bounds_vectors()    # optimisers keep their vectors inside the bounds
                stack = [x0.copy()]
                x = x0.copy()
                for stp in o["steps"]:
                    how = stp[0]
                    if how == "vec":          # full vector
                        x = numpy.clip(x0 + numpy.array([stp[1][i % len(stp[1])] for i in range(n)]), lo, hi)
                        got = calc(list(x))
                    elif how == "one":        # single coordinate via testoptparvector
                        x = x.copy()
                        x[stp[1] % n] = x0[stp[1] % n] + stp[2]
                        x = numpy.clip(x, lo, hi)
                        got = calc(list(x))
                    elif how == "revert":     # back to the vector before the last step
                        x = stack[-2].copy() if len(stack) > 1 else x0.copy()
                        got = calc(list(x))
                    elif how == "same":
                        got = calc(list(x))
                    elif how == "bound":      # drive one coordinate onto its lower / upper bound
                        i = stp[1] % n
                        x = x.copy()
                        x[i] = lo[i] if stp[2] == "lo" else hi[i]
                        got = calc(list(x))
                    else:                     # "change": explicit change list incl. the undo idiom
                        i = stp[1] % n
                        x = x.copy()
                        x[i] = min(max(x0[i] + stp[2], lo[i]), hi[i])
                        got = calc.change([(i, float(x[i]))])
                    stack.append(x.copy())
                    # a new calculator, one evaluation, no history — given bit-identical parameter values: only the
                    # coordinates whose cell value differs from the incremental calculator's are set (setting a coordinate
                    # goes through exp(log(v)), which can differ from an untouched v by one ulp; at kappa = 1e6 the
                    # eigen-decomposition amplifies that ulp to 1e-6 in lnL)
                    fc = lf.make_calculator()
                    cur = calc.cell_values[calc._switch]
                    ch = [(i, float(x[i])) for i in range(n) if fc.cell_values[0][i] != cur[i]]
                    fresh = fc.change(ch) if ch else fc.testfunction()
                    tf = calc.testfunction()
                    nsteps += 1
                    for a, b, what in ((got, fresh, "call"), (tf, fresh, "testfunction")):
                        err = abs(a - b) / max(1.0, abs(b))
                        if err > worst:
                            worst, detail = err, [what, how, float(a), float(b)]
                lf.update_from_calculator(calc)
                # the value the function reports must be the calculator's at the written-back vector, and stay put
                wb = abs(float(lf.get_log_likelihood()) - float(calc.testfunction())) / max(1.0, abs(float(calc.testfunction())))
                first = float(lf.get_log_likelihood())
                lf.make_calculator()
                rr = abs(float(lf.get_log_likelihood()) - first) / max(1.0, abs(first))
                st.after_calc(lf)
            else:
                wb = rr = 0.0
            record("calc", dict(worst=worst, detail=detail, nsteps=nsteps, nopt=n, writeback=wb, reread=rr))
    return out


def run_case(case):
    kind = case["kind"]
    if kind == "calc":
        return run_calc(case)
    if kind == "ctl":
        return run_ctl(case)
    return run_lf(case)


if __name__ == "__main__":
    from vcheck.implutil import serve

    serve(run_case, limit=600)
