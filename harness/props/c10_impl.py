"""C10 implementation runner: builds real cogent3 objects in a prescribed
state (a history of operations), serialises / deserialises them through every
route the property names and reports plain observations of the object before
and after each route.  All choices come from the case (the driver owns the
random generator); nothing here is random.

A case is {"gen": <generator name>, "p": {...}}.  The result is
  {"cls": class provenance, "obs": observation of the original,
   "routes": {route: observation | {"exc": code, "msg": ...} | None (route not offered)},
   "enc": encoder-level observation used by the Coq correspondence (or None)}
"""
import copy
import json
import pickle
import warnings

warnings.filterwarnings("ignore")

from vcheck.implutil import serve
from vcheck.val import exc_code

# ---------------------------------------------------------------- helpers


def prov(x):
    from cogent3.util.misc import get_object_provenance

    return get_object_provenance(x)


def num(x):
    """numbers -> python numbers, keeping floats as floats (driver compares with tolerance)"""
    import numpy

    if x is None or isinstance(x, (bool, str)):
        return x
    if isinstance(x, numpy.bool_):
        return bool(x)
    if isinstance(x, (int, numpy.integer)):
        return int(x)
    if isinstance(x, (float, numpy.floating)):
        x = float(x)
        if x != x:
            return "nan"
        if x in (float("inf"), float("-inf")):
            return "inf" if x > 0 else "-inf"
        return x
    if isinstance(x, bytes):
        return x.decode("latin1")
    if isinstance(x, numpy.ndarray):
        return [num(v) for v in x.tolist()]
    if isinstance(x, (list, tuple)):
        return [num(v) for v in x]
    if isinstance(x, (set, frozenset)):
        return sorted((num(v) for v in x), key=repr)
    if isinstance(x, dict):
        return {"__d__": sorted(([num(k) if not isinstance(k, tuple) else [num(i) for i in k], num(v)] for k, v in x.items()), key=repr)}
    return repr(x)


def clean_info(info):
    if info is None:
        return None
    d = {k: v for k, v in dict(info).items() if k != "Refs"}
    # "source" is book-keeping added by the constructors (unknown when built in memory)
    return num(d) if d else None


def obs_view(v):
    return [int(v.start), int(v.stop), int(v.step), int(v.seq_len), int(v.offset)]


def feature_obs(f):
    m = f.map
    spans = [[int(a), int(b)] for a, b in m.get_coordinates()]
    try:
        sl = str(f.get_slice())
    except Exception as e:  # noqa: BLE001
        sl = f"<{type(e).__name__}>"
    return [str(f.biotype), str(f.name), spans, bool(getattr(f, "reversed", False)), sl]


def features_of(x, **kw):
    try:
        fs = list(x.get_features(**kw))
    except Exception as e:  # noqa: BLE001
        return f"<{type(e).__name__}>"
    return sorted((feature_obs(f) for f in fs), key=repr)


def db_obs(db):
    if db is None:
        return None
    rows = []
    for r in db.get_features_matching():
        r = dict(r)
        rows.append([r.get("seqid"), r.get("biotype"), r.get("name"), r.get("strand"), num(r.get("spans")),
                     None if r.get("on_alignment") is None else bool(r.get("on_alignment"))])
    return [type(db).__name__, sorted(rows, key=repr)]


# ---------------------------------------------------------------- observers


def observe(x):
    """plain observation of a cogent3 object: what a user can see"""
    import numpy

    from cogent3.app.composable import NotCompleted
    from cogent3.app.result import generic_result
    from cogent3.core import alignment as oa
    from cogent3.core import alphabet as oalpha
    from cogent3.core import annotation_db as adb
    from cogent3.core import location as loc
    from cogent3.core import moltype as omt
    from cogent3.core import new_alignment as na
    from cogent3.core import new_alphabet as nalpha
    from cogent3.core import new_sequence as ns
    from cogent3.core import sequence as os_
    from cogent3.core.tree import TreeNode
    from cogent3.evolve.fast_distance import DistanceMatrix
    from cogent3.evolve.parameter_controller import _LikelihoodParameterController
    from cogent3.evolve.substitution_model import _SubstitutionModel
    from cogent3.util.dict_array import DictArray
    from cogent3.util.table import Table

    if isinstance(x, (os_.SeqView, ns.SeqView)):
        return dict(kind="view", str=str(x), len=len(x), seqid=x.seqid, step=int(x.step), reversed=bool(x.is_reversed),
                    pstart=int(x.parent_start), pstop=int(x.parent_stop))
    if isinstance(x, (os_.Sequence, ns.Sequence)):
        d = dict(kind="seq", cls=type(x).__name__, str=str(x), len=len(x), name=x.name, moltype=x.moltype.label,
                 info=clean_info(x.info))
        d["pc"] = num(x.parent_coordinates())
        d["offset"] = int(x.annotation_offset)
        if isinstance(x, os_.Sequence):
            d["features"] = features_of(x)
        return d
    if isinstance(x, os_.ArraySequence):
        return dict(kind="aseq", cls=type(x).__name__, str=str(x), name=x.name, moltype=x.moltype.label, info=clean_info(x.info))
    if isinstance(x, oa.Aligned):
        return dict(kind="aligned", str=str(x), len=len(x), name=x.name, map=[num(x.map.gap_pos), num(x.map.cum_gap_lengths)],
                    pc=num(x.data.parent_coordinates()), moltype=x.data.moltype.label, seqlen=len(x.data))
    if isinstance(x, (oa._SequenceCollectionBase,)):
        d = dict(kind="coll", cls=type(x).__name__, names=list(x.names), seqs={n: str(x.get_gapped_seq(n)) if hasattr(x, "get_gapped_seq") and not isinstance(x, oa.SequenceCollection) else str(x.get_seq(n)) for n in x.names},
                 moltype=x.moltype.label, info=clean_info(x.info))
        d["info"] = None if d["info"] is None else {"__d__": [kv for kv in d["info"]["__d__"] if kv[0] != "source"]}
        if d["info"] is not None and not d["info"]["__d__"]:
            d["info"] = None
        if not isinstance(x, oa.ArrayAlignment):
            d["pc"] = {n: num((x.named_seqs[n].data if isinstance(x, oa.Alignment) else x.named_seqs[n]).parent_coordinates()) for n in x.names}
            d["features"] = features_of(x)
            if isinstance(x, oa.Alignment):
                d["seq_features"] = {n: features_of(x.get_seq(n)) for n in x.names}
        return d
    if isinstance(x, na.SequenceCollection):
        d = dict(kind="ncoll", cls=type(x).__name__, names=list(x.names), seqs={n: str(x.seqs[n]) for n in x.names},
                 moltype=x.moltype.label, info=clean_info(x.info))
        d["info"] = None if d["info"] is None else {"__d__": [kv for kv in d["info"]["__d__"] if kv[0] != "source"]}
        if d["info"] is not None and not d["info"]["__d__"]:
            d["info"] = None
        d["pc"] = {n: num(x.seqs[n].parent_coordinates()) for n in x.names}
        return d
    if isinstance(x, na.SeqsData):
        return dict(kind="seqsdata", names=list(x.names), seqs={n: x.get_seq_str(seqid=n) for n in x.names}, alpha=list(x.alphabet))
    if isinstance(x, loc.IndelMap):
        return dict(kind="imap", gap_pos=num(x.gap_pos), cum=num(x.cum_gap_lengths), plen=int(x.parent_length), len=len(x),
                    coords=num(x.get_coordinates()), gaps=num(x.get_gap_coordinates()), termini_unknown=bool(x.termini_unknown))
    if isinstance(x, loc.FeatureMap):
        return dict(kind="fmap", spans=[[type(s).__name__, num(getattr(s, "start", None)), num(getattr(s, "end", None)), len(s),
                                         bool(getattr(s, "reverse", False))] for s in x.spans], plen=int(x.parent_length), len=len(x),
                    coords=num(x.get_coordinates()))
    if isinstance(x, TreeNode):
        edges = {}
        for e in x.get_edge_vector(include_root=True):
            edges[e.name] = [num(getattr(e, "length", None)), num({k: v for k, v in e.params.items() if k != "length"}),
                             None if e.parent is None else e.parent.name, [c.name for c in e.children]]
        allnames = [e.name for e in x.get_edge_vector(include_root=True)]
        return dict(kind="tree", cls=type(x).__name__, newick=x.get_newick(with_distances=True, with_node_names=True), tips=x.get_tip_names(), edges=edges,
                    names_ok=None not in allnames and len(set(allnames)) == len(allnames))
    if isinstance(x, DistanceMatrix):
        return dict(kind="dmat", names=list(x.names), arr=num(x.array), d=num(x.to_dict()))
    if isinstance(x, DictArray):
        return dict(kind="darr", cls=type(x).__name__, names=num(x.template.names), arr=num(x.array), shape=list(x.shape))
    if isinstance(x, Table):
        cols = {}
        for c in x.header:
            a = x.columns[c]
            # text columns: the item size is observed too (it is what the array costs; a round trip must not inflate it)
            cols[c] = [a.dtype.str.lstrip("<>|=") if a.dtype.kind == "U" else a.dtype.kind if a.dtype.kind in "OSb" else "n", num(a)]
        lookup = None
        if x.index_name is not None and x.shape[0] and x.shape[1] > 1:
            # what the index is for: a cell addressed by row label and column name
            try:
                lookup = num(x[x.columns[x.index_name][0], [h for h in x.header if h != x.index_name][-1]])
            except Exception as e:  # noqa: BLE001
                lookup = f"<{type(e).__name__}>"
        return dict(kind="table", header=list(x.header), cols=cols, title=x.title, legend=x.legend, index_name=x.index_name, lookup=lookup,
                    shape=list(x.shape), str=str(x), fmt=num(dict(x._column_templates) if isinstance(x._column_templates, dict) else None) if not x._column_templates or all(isinstance(v, str) for v in x._column_templates.values()) else "callable",
                    digits=x._digits, space=x.space if isinstance(x.space, int) else len(x.space), missing=x._missing_data, max_width=x._max_width)
    if isinstance(x, (oalpha.Alphabet, oalpha.JointEnumeration)):
        return dict(kind="alpha", cls=type(x).__name__, motifs=[str(m) for m in x], moltype=getattr(x.moltype, "label", None),
                    gap=num(getattr(x, "gap", None)), motif_len=num(x.get_motif_len()) if hasattr(x, "get_motif_len") else None)
    if isinstance(x, omt.MolType):
        return dict(kind="moltype", label=x.label, alpha=list(x.alphabet), gaps=sorted(x.gaps), degen=sorted(x.degenerates),
                    seqcls=x._make_seq.__name__ if hasattr(x, "_make_seq") else None)
    if isinstance(x, nalpha.CharAlphabet):
        return dict(kind="nalpha", cls="CharAlphabet", chars=[num(c) for c in x], gap=num(x.gap_char), missing=num(x.missing_char),
                    ncanon=int(x.num_canonical), moltype=getattr(getattr(x, "moltype", None), "label", None))
    if isinstance(x, nalpha.KmerAlphabet):
        return dict(kind="nalpha", cls="KmerAlphabet", chars=[num(c) for c in x], gap=num(x.gap_char), missing=num(x.missing_char), k=int(x.k),
                    ncanon=int(x.num_canonical), mono=observe(x.monomers))
    if isinstance(x, nalpha.CodonAlphabet):
        return dict(kind="nalpha", cls="CodonAlphabet", chars=[num(c) for c in x], gap=num(x.gap_char),
                    ncanon=int(x.num_canonical), mono=observe(x.monomers))
    if isinstance(x, _SubstitutionModel):
        d = dict(kind="sm", cls=type(x).__name__, name=x.name, motifs=[str(m) for m in x.get_motifs()], params=sorted(x.get_param_list()),
                 word=int(x.word_length), moltype=x.moltype.label, mprob_model=type(x.mprob_model).__name__ if getattr(x, "mprob_model", None) is not None else None,
                 opt_mprobs=num(getattr(x, "_optimise_motif_probs", None)), with_rate=num(getattr(x, "with_rate", None)), partitioned=num(getattr(x, "partitioned_params", None)), order=num(getattr(x, "parameter_order", None)),
                 ordered=num(getattr(x, "ordered_param", None)), distribution=num(getattr(x, "distribution", None)),
                 recode_gaps=num(getattr(x, "recode_gaps", None)), from_align=num(getattr(x, "motif_probs_from_align", None)))
        try:
            d["mprobs"] = num(x.get_motif_probs()) if x.motif_probs is not None else None
        except Exception:  # noqa: BLE001
            d["mprobs"] = None
        try:
            d["predmask"] = {k: num(v) for k, v in sorted(x.predicate_masks.items())} if hasattr(x, "predicate_masks") else None
        except Exception:  # noqa: BLE001
            d["predmask"] = None
        return d
    if isinstance(x, _LikelihoodParameterController):
        d = dict(kind="lf", name=x.get_name(), lnL=num(x.get_log_likelihood()), nfp=int(x.get_num_free_params()),
                 model=observe(x.model)["name"], tree=x.tree.get_newick(with_distances=False), )
        rules = []
        for r in x.get_param_rules():
            r = dict(r)
            rules.append(num(r))
        d["rules"] = sorted(rules, key=repr)
        d["mprobs"] = num(x.get_motif_probs().to_dict()) if not isinstance(x.get_motif_probs(), dict) else {k: num(v.to_dict()) for k, v in x.get_motif_probs().items()}
        d["lengths"] = num(x.get_lengths_as_ens()) if hasattr(x, "get_lengths_as_ens") and False else None
        try:
            st = x.get_statistics(with_motif_probs=True, with_titles=True)
            d["stats"] = [[t.title, list(t.header), num(t.to_list())] for t in st]
        except Exception as e:  # noqa: BLE001
            d["stats"] = f"<{type(e).__name__}>"
        return d
    if isinstance(x, NotCompleted):
        return dict(kind="nc", cls=type(x).__name__, type=str(x.type), origin=str(x.origin), message=str(x.message), source=None if x.source is None else str(x.source), bool=bool(x), str=str(x))
    if isinstance(x, generic_result):
        items = {}
        x.deserialised_values()
        for k in x:
            v = x[k]
            items[repr(k)] = observe(v) if hasattr(v, "to_rich_dict") else num(v)
        d = dict(kind="result", cls=type(x).__name__, source=str(x.source), keys=sorted(items), items=items)
        for a in ("name", "lnL", "nfp", "DLC", "unique_Q", "stat", "evaluation_limit", "LR", "df", "pvalue"):
            if hasattr(type(x), a) or a in getattr(x, "__dict__", {}):
                try:
                    d[a] = num(getattr(x, a))
                except Exception as e:  # noqa: BLE001
                    d[a] = f"<{type(e).__name__}>"
        return d
    if isinstance(x, adb.SqliteAnnotationDbMixin):
        return dict(kind="db", db=db_obs(x), n=len(x), counts=num(x.count_distinct(biotype=True, seqid=True).to_list()) if len(x) else None)
    if isinstance(x, loc.Span):
        return dict(kind="span", cls=type(x).__name__, start=int(x.start), end=int(x.end), reverse=bool(x.reverse), len=len(x), value=num(x.value) if hasattr(x, "value") else None)
    if isinstance(x, loc._LostSpan):
        return dict(kind="lost", cls=type(x).__name__, length=int(x.length), value=num(x.value))
    from cogent3.core.genetic_code import GeneticCode

    if isinstance(x, GeneticCode):
        return dict(kind="gc", id=num(x.ID), name=x.name, code=str(x.code_sequence), starts=sorted(x.start_codons), sense=sorted(x.sense_codons))
    try:
        from cogent3.core.new_genetic_code import GeneticCode as NGC

        if isinstance(x, NGC):
            return dict(kind="ngc", id=num(x.ID), name=x.name, stops=sorted(x.stop_codons), sense=sorted(x.sense_codons), starts=sorted(x.start_codons))
    except ImportError:
        pass
    try:
        from cogent3.core import new_moltype as nmt

        if isinstance(x, nmt.MolType):
            return dict(kind="nmoltype", label=x.label, alpha=list(x.alphabet), gap=x.gap, degen=sorted(x.ambiguities or {}) if hasattr(x, "ambiguities") else None)
    except ImportError:
        pass
    from cogent3.core.profile import _MotifNumberArray

    if isinstance(x, _MotifNumberArray):
        return dict(kind="profile", cls=type(x).__name__, motifs=[str(m) for m in x.motifs], arr=num(x.array), rows=num(x.template.names[0]))
    if isinstance(x, dict):
        return {"kind": "dict", "d": num(x)}
    raise TypeError(f"no observer for {type(x)}")


# ---------------------------------------------------------------- routes


def _route(fn):
    try:
        return fn()
    except Exception as e:  # noqa: BLE001
        import traceback

        return {"exc": exc_code(e), "msg": f"{type(e).__name__}: {str(e)[:200]}", "tb": traceback.format_exc()[-600:]}


def routes_for(x, which=None):
    """every serialisation route the object offers -> observation of what comes back"""
    from cogent3.util.deserialise import deserialise_object

    out = {}
    want = which or ("json", "rich", "json2", "pickle", "deepcopy", "jsonvalid")

    def obs_or_exc(make):
        def run():
            y = make()
            return observe(y)
        return _route(run)

    has_json = hasattr(x, "to_json")
    has_rich = hasattr(x, "to_rich_dict")
    if "json" in want:
        out["json"] = obs_or_exc(lambda: deserialise_object(x.to_json())) if has_json else None
    if "rich" in want:
        # the registry functions consume the dict they are given: hand over a JSON-level copy
        out["rich"] = obs_or_exc(lambda: deserialise_object(x.to_rich_dict())) if has_rich else None
    if "json2" in want and has_json:
        def twice():
            y = deserialise_object(x.to_json())
            return deserialise_object(y.to_json())
        out["json2"] = obs_or_exc(twice)
    if "jsonvalid" in want and has_rich:
        def valid():
            s = json.dumps(x.to_rich_dict())
            return {"kind": "ok", "same": json.loads(s) == json.loads(x.to_json())} if has_json else {"kind": "ok", "same": True}
        out["jsonvalid"] = _route(valid)
    if "pickle" in want:
        out["pickle"] = obs_or_exc(lambda: pickle.loads(pickle.dumps(x)))
    if "deepcopy" in want:
        out["deepcopy"] = obs_or_exc(lambda: copy.deepcopy(x))
    return out


# ---------------------------------------------------------------- generators

MOLTYPES_OLD = {"dna": "dna", "rna": "rna", "protein": "protein", "text": "text", "bytes": "bytes", "protein_with_stop": "protein_with_stop"}


def apply_seq_ops(s, ops, log):
    for op in ops:
        k = op[0]
        try:
            if k == "slice":
                s = s[slice(op[1], op[2], op[3])]
            elif k == "index":
                s = s[op[1]]
            elif k == "rc":
                s = s.rc()
            elif k == "to_rna":
                s = s.to_rna()
            elif k == "to_dna":
                s = s.to_dna()
            elif k == "copy":
                s = s.copy()
            elif k == "copy_unsliced":
                s = s.copy(sliced=False)
            elif k == "deepcopy":
                s = copy.deepcopy(s)
            elif k == "rename":
                s.name = op[1]
            elif k == "info":
                s.info[op[1]] = op[2]
            elif k == "feature":
                s.add_feature(biotype=op[1], name=op[2], spans=[tuple(p) for p in op[3]])
            elif k == "degap":
                s = s.degap()
            elif k == "json":
                from cogent3.util.deserialise import deserialise_object

                s = deserialise_object(s.to_json())
            else:
                raise KeyError(k)
            log.append(True)
        except (IndexError, ValueError, TypeError, AttributeError, AssertionError, NotImplementedError) as e:
            log.append(f"{type(e).__name__}")
    return s


def gen_seq(p):
    from cogent3 import make_seq

    kw = dict(name=p.get("name"), moltype=p["moltype"])
    if p.get("offset"):
        kw["annotation_offset"] = p["offset"]
    if p.get("new"):
        kw["new_type"] = True
    s = make_seq(p["seq"], **kw)
    if p.get("info") and not p.get("new"):
        s.info.update(p["info"])
    elif p.get("info"):
        s.info.update(p["info"])
    return s


def enc_seq(s):
    """what the encoder wrote, for the Coq correspondence: view state before, dict fields, view state after decode"""
    from cogent3.util.deserialise import deserialise_object

    rd = s.to_rich_dict()
    ia = rd["seq"]["init_args"]
    y = deserialise_object(json.loads(json.dumps(rd)))
    return dict(view=obs_view(s._seq), parent=str(s._seq.seq), dict_seq=ia["seq"], dict_step=int(ia["step"]),
                dict_offset=int(rd.get("annotation_offset", 0)), view_after=obs_view(y._seq), parent_after=str(y._seq.seq),
                str_after=str(y), pc_after=num(y.parent_coordinates()))


def case_seq(p):
    s = gen_seq(p)
    log = []
    s = apply_seq_ops(s, p.get("ops", []), log)
    r = dict(cls=prov(s), obs=observe(s), routes=routes_for(s), oplog=log)
    if hasattr(s, "_seq"):
        r["enc"] = _route(lambda: enc_seq(s))
    return r


def case_view(p):
    """a bare SeqView (old style: registered; new style: only copy(sliced=True))"""
    if p.get("new"):
        from cogent3.core.new_moltype import get_moltype
        from cogent3.core.new_sequence import SeqView

        v = SeqView(seq=p["seq"], seqid=p.get("name"), alphabet=get_moltype("text").most_degen_alphabet(), offset=p.get("offset", 0))
    else:
        from cogent3.core.sequence import SeqView

        v = SeqView(seq=p["seq"], seqid=p.get("name"), offset=p.get("offset", 0))
    log = []
    for op in p.get("ops", []):
        try:
            v = v[slice(op[1], op[2], op[3])] if op[0] == "slice" else v[op[1]]
            log.append(True)
        except (IndexError, ValueError) as e:
            log.append(type(e).__name__)
    o = observe(v)
    routes = {}
    if not p.get("new"):
        from cogent3.util.deserialise import deserialise_object

        routes["rich"] = _route(lambda: observe(deserialise_object(json.loads(json.dumps(v.to_rich_dict())))))
        routes["jsonvalid"] = _route(lambda: {"kind": "ok", "same": bool(json.dumps(v.to_rich_dict()))})
    routes["pickle"] = _route(lambda: observe(pickle.loads(pickle.dumps(v))))
    routes["deepcopy"] = _route(lambda: observe(copy.deepcopy(v)))
    rd = v.to_rich_dict()
    y = v.copy(sliced=True)
    enc = dict(view=obs_view(v), parent=str(v.seq), dict_seq=rd["init_args"]["seq"], dict_step=int(rd["init_args"]["step"]), dict_offset=0,
               view_after=obs_view(y), parent_after=str(y.seq), str_after=str(y), pc_after=None)
    return dict(cls=prov(v), obs=o, routes=routes, oplog=log, enc=enc)


def apply_aln_ops(a, ops, log):
    for op in ops:
        k = op[0]
        try:
            if k == "slice":
                a = a[slice(op[1], op[2], op[3])]
            elif k == "rc":
                a = a.rc()
            elif k == "take_seqs":
                a = a.take_seqs(op[1])
            elif k == "take_positions":
                a = a.take_positions(op[1])
            elif k == "degap":
                a = a.degap()
            elif k == "omit_gap_pos":
                b = a.omit_gap_pos(allowed_gap_frac=op[1])
                if b is None:
                    raise ValueError("no positions left")
                a = b
            elif k == "no_degenerates":
                b = a.no_degenerates()
                if b is None:
                    raise ValueError("no positions left")
                a = b
            elif k == "to_rna":
                a = a.to_rna()
            elif k == "to_dna":
                a = a.to_dna()
            elif k == "rename":
                m = op[1]
                a = a.rename_seqs(lambda n: m.get(n, n))
            elif k == "feature":
                limit = len(a) if op[1] is None or not hasattr(a, "get_seq") else len(a.get_seq(op[1]))
                if max(e for _, e in op[4]) > limit:
                    raise ValueError("feature outside the (sliced) object")
                a.add_feature(seqid=op[1], biotype=op[2], name=op[3], spans=[tuple(s) for s in op[4]], on_alignment=op[1] is None)
            elif k == "info":
                a.info[op[1]] = op[2]
            elif k == "to_type":
                a = a.to_type(array_align=op[1])
            elif k == "copy":
                a = a.copy()
            elif k == "deepcopy":
                a = a.deepcopy()
            elif k == "filtered_variable":
                a = a.filtered(lambda x: len(set(map(str, x))) > 1)
            elif k == "trim_stop":
                a = a.trim_stop_codons()
            elif k == "get_translation":
                a = a.get_translation(incomplete_ok=True)
            elif k == "json":
                from cogent3.util.deserialise import deserialise_object

                a = deserialise_object(a.to_json())
            elif k == "add_seqs":
                from cogent3 import make_aligned_seqs

                a = a.add_seqs(make_aligned_seqs(op[1], moltype=a.moltype.label, array_align=False))
            else:
                raise KeyError(k)
            log.append(True)
        except (IndexError, ValueError, TypeError, AttributeError, AssertionError, NotImplementedError, KeyError) as e:
            if isinstance(e, KeyError) and e.args and e.args[0] == k:
                raise
            log.append(type(e).__name__)
    return a


def case_aln(p):
    from cogent3 import make_aligned_seqs, make_unaligned_seqs

    kw = dict(moltype=p["moltype"], info=p.get("info"))
    if p["cls"] == "coll":
        a = make_unaligned_seqs(p["seqs"], **kw)
    elif p["cls"] == "ncoll":
        a = make_unaligned_seqs(p["seqs"], new_type=True, **kw)
    else:
        a = make_aligned_seqs(p["seqs"], array_align=p["cls"] == "array", **kw)
    log = []
    a = apply_aln_ops(a, p.get("ops", []), log)
    r = dict(cls=prov(a), obs=observe(a), routes=routes_for(a), oplog=log)
    return r


def enc_aligned(al):
    rd = al.to_rich_dict()
    mi, si = rd["map_init"], rd["seq_init"]
    y = type(al).from_rich_dict(json.loads(json.dumps(rd)))
    return dict(map=[num(al.map.gap_pos), num(al.map.cum_gap_lengths), int(al.map.parent_length)], view=obs_view(al.data._seq),
                parent=str(al.data._seq.seq), dict_map=[mi["gap_pos"], mi["cum_gap_lengths"], mi["parent_length"]],
                dict_seq=si["seq"]["init_args"]["seq"], dict_step=int(si["seq"]["init_args"]["step"]), dict_offset=int(si.get("annotation_offset", 0)),
                map_after=[num(y.map.gap_pos), num(y.map.cum_gap_lengths), int(y.map.parent_length)], view_after=obs_view(y.data._seq),
                parent_after=str(y.data._seq.seq), str_after=str(y), pc_after=num(y.data.parent_coordinates()))


def case_aligned(p):
    """one row of an old-style Alignment, after alignment-level operations"""
    from cogent3 import make_aligned_seqs

    a = make_aligned_seqs(p["seqs"], array_align=False, moltype=p["moltype"])
    log = []
    a = apply_aln_ops(a, p.get("ops", []), log)
    al = a.named_seqs[a.names[p.get("row", 0) % len(a.names)]]
    for op in p.get("row_ops", []):
        try:
            if op[0] == "slice":
                al = al[slice(op[1], op[2])]
            elif op[0] == "rc":
                al = al.rc()
            log.append(True)
        except (IndexError, ValueError, TypeError, AssertionError) as e:
            log.append(type(e).__name__)
    r = dict(cls=prov(al), obs=observe(al), routes=routes_for(al, ("json", "rich", "json2", "jsonvalid", "pickle", "deepcopy")), oplog=log)
    r["enc"] = _route(lambda: enc_aligned(al))
    return r


def case_imap(p):
    from cogent3.core.location import FeatureMap, IndelMap

    import numpy

    log = []
    if p["kind"] == "imap":
        m = IndelMap(gap_pos=numpy.array(p["gap_pos"], dtype=int), gap_lengths=numpy.array(p["gap_lengths"], dtype=int), parent_length=p["plen"],
                     **({"termini_unknown": True} if p.get("termini_unknown") else {}))
    else:
        m = FeatureMap.from_locations(locations=[tuple(x) for x in p["locations"]], parent_length=p["plen"])
    for op in p.get("ops", []):
        try:
            k = op[0]
            if k == "slice":
                m = m[op[1]:op[2]]
            elif k == "reversed":
                m = m.nucleic_reversed()
            elif k == "strict_reversed":
                m = m.strict_nucleic_reversed() if hasattr(m, "strict_nucleic_reversed") else m.nucleic_reversed()
            elif k == "mul":
                m = m * op[1]
            elif k == "div":
                m = m / op[1]
            elif k == "add":
                m = m + m
            elif k == "without_gaps":
                m = m.without_gaps()
            elif k == "prime_lost":
                # any IndelMap operation creates its lost spans from numpy integers
                list(IndelMap(gap_pos=numpy.array([1]), gap_lengths=numpy.array([op[1]]), parent_length=5).spans)
            elif k == "inverse":
                m = m.inverse()
            elif k == "covered":
                m = m.covered()
            elif k == "shadow":
                m = m.shadow()
            elif k == "termini":
                m = m.with_termini_unknown()
            elif k == "to_fmap":
                m = m.to_feature_map()
            elif k == "zeroed":
                m = m.zeroed()
            elif k == "json":
                from cogent3.util.deserialise import deserialise_object

                m = deserialise_object(m.to_json())
            else:
                raise KeyError(k)
            log.append(True)
        except (IndexError, ValueError, TypeError, AttributeError, AssertionError, NotImplementedError, RuntimeError) as e:
            log.append(type(e).__name__)
    r = dict(cls=prov(m), obs=observe(m), routes=routes_for(m), oplog=log)
    if type(m).__name__ == "FeatureMap":
        r["enc"] = _route(lambda: enc_generic(m))
    if type(m).__name__ == "IndelMap":
        rd = m.to_rich_dict()
        r["enc"] = dict(map=[num(m.gap_pos), num(m.cum_gap_lengths), int(m.parent_length)], dict_map=[rd["gap_pos"], rd["cum_gap_lengths"], rd["parent_length"]],
                        keys=sorted(rd))
    return r


def case_span(p):
    from cogent3.core.location import LostSpan, Span, TerminalPadding
    from cogent3.util.deserialise import _get_class

    if p["kind"] == "span":
        s = Span(p["start"], p["end"], reverse=p.get("reverse", False), tidy_start=p.get("tidy_start", False), tidy_end=p.get("tidy_end", False), value=p.get("value"))
        for op in p.get("ops", []):
            if op[0] == "mul":
                s = s * op[1]
            elif op[0] == "reversed_relative_to":
                s = s.reversed_relative_to(op[1])
            elif op[0] == "reversed":
                s = s.reversed()
    elif p["kind"] == "lost":
        s = LostSpan(p["length"], value=p.get("value"))
    else:
        s = TerminalPadding(p["length"], value=p.get("value"))

    def via_rich():
        d = json.loads(json.dumps(s.to_rich_dict()))
        d.pop("version", None)
        klass = _get_class(d.pop("type"))
        return observe(klass(**d))

    routes = dict(rich=_route(via_rich), pickle=_route(lambda: observe(pickle.loads(pickle.dumps(s)))), deepcopy=_route(lambda: observe(copy.deepcopy(s))),
                  jsonvalid=_route(lambda: {"kind": "ok", "same": bool(json.dumps(s.to_rich_dict()))}))
    return dict(cls=prov(s), obs=observe(s), routes=routes, oplog=[])


def case_tree(p):
    from cogent3 import make_tree

    t = make_tree(treestring=p["newick"])
    log = []
    for op in p.get("ops", []):
        k = op[0]
        try:
            if k == "param":
                for e in t.get_edge_vector():
                    if e.name == op[1]:
                        e.params[op[2]] = op[3]
            elif k == "rooted_at":
                t = t.rooted_at(op[1])
            elif k == "rooted_with_tip":
                t = t.rooted_with_tip(op[1])
            elif k == "unrooted":
                t = t.unrooted()
            elif k == "unrooted_deepcopy":
                t = t.unrooted_deepcopy()
            elif k == "sorted":
                t = t.sorted()
            elif k == "get_sub_tree":
                t = t.get_sub_tree(op[1])
            elif k == "bifurcating":
                t = t.bifurcating()
            elif k == "prune":
                t.prune()
            elif k == "midpoint":
                t = t.root_at_midpoint()
            elif k == "rename":
                t.reassign_names(op[1])
            elif k == "name_unnamed":
                t.name_unnamed_nodes()
            elif k == "scale":
                t.scale_branch_lengths()
            elif k == "copy":
                t = t.copy()
            elif k == "deepcopy":
                t = t.deepcopy()
            elif k == "set_length":
                for e in t.get_edge_vector(include_root=False):
                    if e.name == op[1]:
                        e.length = op[2]
            elif k == "subtree_node":
                t = t.get_node_matching_name(op[1])
            elif k == "json":
                from cogent3.util.deserialise import deserialise_object

                t = deserialise_object(t.to_json())
            else:
                raise KeyError(k)
            log.append(True)
        except Exception as e:  # noqa: BLE001
            if isinstance(e, KeyError) and e.args and e.args[0] == k:
                raise
            log.append(type(e).__name__)
    r = dict(cls=prov(t), obs=observe(t), routes=routes_for(t), oplog=log)
    if r["obs"].get("names_ok"):
        r["enc"] = _route(lambda: enc_tree(t))
    return r


def table_by_route(route, p):
    """every library route that makes a Table out of another object"""
    import numpy

    from cogent3 import make_aligned_seqs

    if route == "darr":
        from cogent3.util.dict_array import DictArrayTemplate

        return DictArrayTemplate(*p["names"]).wrap(numpy.array(p["array"], dtype=p.get("dtype", float))).to_table()
    if route == "dmat":
        from cogent3.evolve.fast_distance import DistanceMatrix

        return DistanceMatrix({tuple(k): v for k, v in p["dists"]}).to_table()
    aln = make_aligned_seqs(p["seqs"], moltype="dna") if "seqs" in p else None
    if route == "counts_per_seq":
        return aln.counts_per_seq().to_table()
    if route == "counts_per_pos":
        return aln.counts_per_pos().to_table()
    if route == "probs_per_pos":
        return aln.probs_per_pos().to_table()
    if route == "pssm":
        return aln.probs_per_pos().to_pssm().to_table()
    if route == "aln_dmat":
        return aln.distance_matrix(calc="pdist").to_table()
    if route == "entropy":
        return aln.counts_per_seq().to_freq_array().to_table()
    if route in ("lf_stats", "lf_table"):
        lf = build_lf(p["lf"])
        lf = apply_lf_ops(lf, p["lf"].get("ops", []), [])
        tabs = lf.get_statistics(with_motif_probs=True, with_titles=True)
        return tabs[p.get("which", 0) % len(tabs)]
    if route == "count_unique":
        from cogent3 import make_table

        return make_table(header=p["header"], data=p["rows"]).count_unique(p["header"][0]).to_table()
    if route == "db_counts":
        from cogent3.core.annotation_db import BasicAnnotationDb

        db = BasicAnnotationDb()
        db.add_feature(seqid="s1", biotype="gene", name="g", spans=[(1, 4)])
        db.add_feature(seqid="s2", biotype="exon", name="e", spans=[(2, 5)])
        return db.count_distinct(seqid=True, biotype=True)
    raise KeyError(route)


def case_table(p):
    from cogent3 import make_table

    kw = {k: p[k] for k in ("title", "legend", "digits", "space", "index_name", "missing_data", "max_width", "column_templates") if p.get(k) is not None}
    route = p.get("route")
    if route:
        t = table_by_route(route, p)
    else:
        t = make_table(header=p["header"], data=p["rows"], **kw) if not p.get("as_dict") else make_table(data={h: [r[i] for r in p["rows"]] for i, h in enumerate(p["header"])}, **kw)
    log = []
    for op in p.get("ops", []):
        k = op[0]
        try:
            if k == "sorted":
                t = t.sorted(columns=op[1], reverse=op[2])
            elif k == "filtered":
                t = t.filtered(op[1])
            elif k == "get_columns":
                t = t.get_columns(op[1])
            elif k == "slice_rows":
                t = t[op[1]:op[2]]
            elif k == "with_new_column":
                c = op[2]
                t = t.with_new_column(op[1], lambda v: v * 2 if not isinstance(v, str) else v + "x", columns=c)
            elif k == "with_new_header":
                t = t.with_new_header(op[1], op[2])
            elif k == "transposed":
                t = t.transposed(op[1], select_as_header=op[2])
            elif k == "distinct":
                t = t.distinct_values and t.filtered(lambda x: True)
            elif k == "appended":
                t = t.appended(op[1], t)
            elif k == "joined":
                t = t.joined(t, columns_self=op[1], columns_other=op[1]) if op[1] else t.cross_join(t) if hasattr(t, "cross_join") else t.joined(t, inner_join=False)
            elif k == "format_column":
                t.format_column(op[1], op[2])
            elif k == "set_title":
                t.title = op[1]
            elif k == "set_legend":
                t.legend = op[1]
            elif k == "set_index":
                t.index_name = op[1]
            elif k == "set_repr_policy":
                t.set_repr_policy(head=op[1], tail=op[2])
            elif k == "setcol":
                t.columns[op[1]] = op[2]
            elif k == "normalized":
                t = t.normalized(by_row=op[1])
            elif k == "summed_col":
                t = t.with_new_column("sum", lambda r: sum(r), columns=op[1])
            elif k == "head":
                t = t[: op[1]]
            elif k == "to_categorical":
                t = t.to_categorical(op[1])
            elif k == "count_unique":
                t = t.count_unique(op[1]).to_table()
            elif k == "json":
                from cogent3.util.deserialise import deserialise_object

                t = deserialise_object(t.to_json())
            else:
                raise KeyError(k)
            log.append(True)
        except Exception as e:  # noqa: BLE001
            if isinstance(e, KeyError) and e.args and e.args[0] == k:
                raise
            log.append(type(e).__name__)
    try:
        o = observe(t)
    except ValueError as e:
        # the history left a table that cannot even be displayed (e.g. an index column made non-unique by appended()):
        # not a state the round-trip property talks about
        return dict(cls=prov(t), obs={"kind": "unobservable", "why": str(e)[:100]}, routes={}, oplog=log)
    return dict(cls=prov(t), obs=o, routes=routes_for(t), oplog=log, enc=_route(lambda: enc_generic(t)))


def case_darr(p):
    import numpy

    from cogent3.util.dict_array import DictArray, DictArrayTemplate

    log = []
    if p["kind"] == "darr":
        arr = numpy.array(p["array"], dtype=p.get("dtype", float))
        t = DictArrayTemplate(*p["names"]).wrap(arr)
    elif p["kind"] == "darr_dict":
        t = DictArray(p["data"]) if not isinstance(p["data"], list) else DictArray(numpy.array(p["data"]))
    elif p["kind"] == "dmat":
        from cogent3.evolve.fast_distance import DistanceMatrix

        t = DistanceMatrix({tuple(k): fv(v) for k, v in p["dists"]}, invalid=p.get("invalid"))
    elif p["kind"] == "dmat_array":
        from cogent3.evolve.fast_distance import DistanceMatrix

        t = DistanceMatrix.from_array_names(numpy.array(p["array"], dtype=float), p["names"])
    elif p["kind"] == "dmat_aln":
        from cogent3 import make_aligned_seqs

        a = make_aligned_seqs(p["seqs"], moltype="dna")
        try:
            t = a.distance_matrix(calc=p.get("calc", "pdist"), drop_invalid=False)
        except ArithmeticError:
            t = a.take_seqs(["a", "b"]).distance_matrix(calc="pdist", drop_invalid=False)
    elif p["kind"] == "profile":
        from cogent3 import make_aligned_seqs

        a = make_aligned_seqs(p["seqs"], moltype="dna")
        t = a.counts_per_pos() if p["what"] == "counts" else a.probs_per_pos() if p["what"] == "probs" else a.counts_per_seq() if p["what"] == "counts_seq" else a.probs_per_pos().to_pssm()
    for op in p.get("ops", []):
        k = op[0]
        try:
            if k == "take_dists":
                t = t.take_dists(op[1], negate=op[2])
            elif k == "drop_invalid":
                t = t.drop_invalid()
            elif k == "getitem":
                t = t[op[1]]
            elif k == "slice":
                t = t[op[1]:op[2]]
            elif k == "setitem":
                t[op[1], op[2]] = fv(op[3])
            elif k == "to_normalized":
                t = t.to_normalized(by_row=op[1], by_column=not op[1])
            elif k == "row_sum":
                t = t.row_sum()
            elif k == "col_sum":
                t = t.col_sum()
            elif k == "T":
                t = t.T
            elif k == "take":
                t = t.take(op[1], negate=op[2], axis=op[3])
            elif k == "json":
                from cogent3.util.deserialise import deserialise_object

                t = deserialise_object(t.to_json())
            else:
                raise KeyError(k)
            log.append(True)
        except Exception as e:  # noqa: BLE001
            if isinstance(e, KeyError) and e.args and e.args[0] == k:
                raise
            log.append(type(e).__name__)
    if not hasattr(t, "to_rich_dict"):
        return dict(cls=prov(t), obs={"kind": "scalar", "v": num(t)}, routes={}, oplog=log)
    r = dict(cls=prov(t), obs=observe(t), routes=routes_for(t), oplog=log)
    if type(t).__name__ == "DictArray":
        r["enc"] = _route(lambda: enc_generic(t))
    elif type(t).__name__ == "DistanceMatrix":
        r["enc"] = _route(lambda: dict(enc_generic(t), names=[str(n) for n in t.names], array=json.loads(json.dumps(t.array.tolist())), invalid=t._invalid))
    return r


def case_alpha(p):
    k = p["kind"]
    if k == "old_moltype":
        from cogent3 import get_moltype

        x = get_moltype(p["label"])
    elif k == "old_alpha":
        from cogent3 import get_moltype

        mt = get_moltype(p["label"])
        x = mt.alphabet
        how = p.get("how")
        if how == "degen":
            x = mt.alphabets.degen
        elif how == "gapped":
            x = mt.alphabets.gapped
        elif how == "degen_gapped":
            x = mt.alphabets.degen_gapped
        elif how == "word":
            x = mt.alphabet.get_word_alphabet(p["k"])
        elif how == "gapped_word":
            x = mt.alphabets.gapped.get_word_alphabet(p["k"])
        elif how == "codon":
            from cogent3 import get_code

            x = get_code(p["gc"]).get_alphabet(include_stop=p.get("include_stop", False))
        elif how == "subset":
            x = mt.alphabet.get_subset(p["motifs"], excluded=p.get("excluded", False))
        elif how == "with_gap":
            x = mt.alphabet.with_gap_motif()
        elif how == "word_subset":
            x = mt.alphabet.get_word_alphabet(2).get_subset(p["motifs"], excluded=p.get("excluded", False))
    elif k == "new_alpha":
        from cogent3.core.new_moltype import get_moltype

        mt = get_moltype(p["label"])
        how = p.get("how")
        if how == "degen":
            x = mt.degen_alphabet
        elif how == "gapped":
            x = mt.gapped_alphabet
        elif how == "degen_gapped":
            x = mt.degen_gapped_alphabet
        elif how == "most_degen":
            x = mt.most_degen_alphabet()
        elif how == "kmer":
            x = mt.alphabet.get_kmer_alphabet(p["k"], include_gap=p.get("include_gap", False))
        elif how == "gapped_kmer":
            x = mt.gapped_alphabet.get_kmer_alphabet(p["k"], include_gap=p.get("include_gap", True))
        elif how == "codon":
            from cogent3.core.new_genetic_code import get_code

            x = get_code(p["gc"]).get_alphabet(include_gap=p.get("include_gap", False))
        elif how == "custom":
            from cogent3.core.new_alphabet import CharAlphabet

            x = CharAlphabet(list(p["chars"]), gap=p.get("gap"), missing=p.get("missing"))
        else:
            x = mt.alphabet
    elif k == "new_moltype":
        from cogent3.core.new_moltype import get_moltype

        x = get_moltype(p["label"])
    elif k == "gc":
        from cogent3 import get_code

        x = get_code(p["gc"])
    elif k == "ngc":
        from cogent3.core.new_genetic_code import get_code

        x = get_code(p["gc"])
    r = dict(cls=prov(x), obs=observe(x), routes=routes_for(x), oplog=[])
    if k == "old_moltype" or (k == "old_alpha" and type(x).__name__ in ("Alphabet", "CharAlphabet")):
        r["enc"] = _route(lambda: enc_generic(x))
    return r


def case_sm(p):
    from cogent3.evolve.models import get_model

    kw = dict(p.get("kw", {}))
    if p.get("custom"):
        from cogent3.evolve import substitution_model as smod
        from cogent3.evolve.predicate import MotifChange

        c = p["custom"]
        if c.get("mod") == "ns":
            from cogent3.evolve import ns_substitution_model as smod
        klass = getattr(smod, c["cls"])
        if "alphabet" in c:
            from cogent3 import get_moltype

            a = get_moltype(c["alphabet"]).alphabet
            c.setdefault("kw", {})["alphabet"] = a
        preds = None
        if c.get("predicates"):
            preds = {}
            for nm, (a, b) in c["predicates"].items():
                preds[nm] = MotifChange(a, b)
        ckw = dict(c.get("kw", {}))
        if preds is not None:
            ckw["predicates"] = preds
        sm = klass(**ckw)
    else:
        sm = get_model(p["name"], **kw)
    return dict(cls=prov(sm), obs=observe(sm), routes=routes_for(sm), oplog=[])


def build_lf(p):
    from cogent3 import make_aligned_seqs, make_tree
    from cogent3.evolve.models import get_model

    sm = get_model(p["model"], **p.get("model_kw", {}))
    tree = make_tree(treestring=p["tree"]) if "(" in p["tree"] else make_tree(tip_names=p["tree"].split(","))
    lfkw = dict(p.get("lf_kw", {}))
    lf = sm.make_likelihood_function(tree, **lfkw)
    if isinstance(lfkw.get("loci"), list):
        alns = [make_aligned_seqs(a, moltype=p.get("moltype", "dna")) for a in p["alns"]]
        lf.set_alignment(alns)
    else:
        aln = make_aligned_seqs(p["aln"], moltype=p.get("moltype", "dna"), array_align=p.get("array_align", True))
        for op in p.get("aln_ops", []):
            if op[0] == "slice":
                aln = aln[op[1]:op[2]]
            elif op[0] == "rc":
                aln = aln.rc()
            elif op[0] == "take_seqs":
                aln = aln.take_seqs(op[1])
        lf.set_alignment(aln)
    if p.get("name"):
        lf.set_name(p["name"])
    return lf


def apply_lf_ops(lf, ops, log):
    for op in ops:
        k = op[0]
        try:
            if k == "rule":
                lf.set_param_rule(**op[1])
            elif k == "mprobs":
                lf.set_motif_probs(op[1], **(op[2] if len(op) > 2 else {}))
            elif k == "optimise":
                lf.optimise(max_evaluations=op[1], limit_action="ignore", show_progress=False, local=True, **(op[2] if len(op) > 2 else {}))
            elif k == "time_het":
                lf.set_time_heterogeneity(**op[1])
            elif k == "lengths":
                for e, v in op[1].items():
                    lf.set_param_rule("length", edge=e, init=v)
            elif k == "json":
                from cogent3.util.deserialise import deserialise_object

                lf = deserialise_object(lf.to_json())
            elif k == "lnL":
                lf.get_log_likelihood()
            else:
                raise KeyError(k)
            log.append(True)
        except Exception as e:  # noqa: BLE001
            if isinstance(e, KeyError) and e.args and e.args[0] == k:
                raise
            log.append(f"{type(e).__name__}")
    return lf


def case_lf(p):
    lf = build_lf(p)
    log = []
    lf = apply_lf_ops(lf, p.get("ops", []), log)
    return dict(cls=prov(lf), obs=observe(lf), routes=routes_for(lf, ("json", "rich", "json2", "jsonvalid")), oplog=log)


def case_result(p):
    from cogent3.app import result as R
    from cogent3.app.composable import NotCompleted

    k = p["kind"]
    log = []
    if k == "nc":
        x = NotCompleted(p["type"], p["origin"], p["message"], source=p.get("source"))
    elif k == "generic":
        x = R.generic_result(source=p["source"])
        for key, v in p["items"]:
            x[key] = build_value(v)
    elif k == "tabular":
        x = R.tabular_result(source=p["source"])
        for key, v in p["items"]:
            x[tuple(key) if isinstance(key, list) else key] = build_value(v)
    elif k == "model":
        lf = apply_lf_ops(build_lf(p["lf"]), p["lf"].get("ops", []), log)
        x = R.model_result(name=p.get("name", lf.get_name() or "m"), source=p["source"], stat=max if p.get("stat") == "max" else sum,
                           **({"elapsed_time": p["elapsed"]} if p.get("elapsed") is not None else {}))
        x[p.get("key", "lf")] = lf
    elif k == "model_split":
        x = R.model_result(name=p.get("name", "m"), source=p["source"], stat=sum)
        for i, sub in enumerate(p["lfs"]):
            lf = apply_lf_ops(build_lf(sub), sub.get("ops", []), log)
            x[i + 1] = lf
    elif k in ("hypothesis", "model_collection"):
        x = R.hypothesis_result(name_of_null=p["null"], source=p["source"]) if k == "hypothesis" else R.model_collection_result(source=p["source"])
        for nm, sub in p["models"]:
            lf = apply_lf_ops(build_lf(sub), sub.get("ops", []), log)
            mr = R.model_result(name=nm, source=p["source"], stat=sum)
            mr["lf"] = lf
            x[nm] = mr
    elif k == "bootstrap":
        x = R.bootstrap_result(source=p["source"])
        def hyp(models):
            h = R.hypothesis_result(name_of_null=p["null"], source=p["source"])
            for nm, sub in models:
                lf = apply_lf_ops(build_lf(sub), sub.get("ops", []), log)
                mr = R.model_result(name=nm, source=p["source"], stat=sum)
                mr["lf"] = lf
                h[nm] = mr
            return h
        x.observed = hyp(p["observed"])
        for i, ms in enumerate(p["reps"]):
            x.add_to_null(hyp(ms))
    r = dict(cls=prov(x), obs=observe(x), routes=routes_for(x), oplog=log)
    if k == "nc":
        r["enc"] = _route(lambda: enc_generic(x))
    return r


def fv(v):
    """a cell value of a case: the string "nan" stands for float("nan")"""
    return float("nan") if v == "nan" else v


def build_value(v):
    """value spec inside a result: plain JSON, or {"$": generator case} for a cogent3 object"""
    if isinstance(v, dict) and "$" in v:
        return build_object(v["$"])
    return v


def build_object(c):
    g, p = c["gen"], c["p"]
    if g == "seq":
        return apply_seq_ops(gen_seq(p), p.get("ops", []), [])
    if g == "aln":
        from cogent3 import make_aligned_seqs, make_unaligned_seqs

        if p["cls"] == "coll":
            a = make_unaligned_seqs(p["seqs"], moltype=p["moltype"])
        else:
            a = make_aligned_seqs(p["seqs"], array_align=p["cls"] == "array", moltype=p["moltype"])
        return apply_aln_ops(a, p.get("ops", []), [])
    if g == "table":
        from cogent3 import make_table

        return make_table(header=p["header"], data=p["rows"], title=p.get("title", ""))
    if g == "tree":
        from cogent3 import make_tree

        return make_tree(treestring=p["newick"])
    if g == "darr":
        import numpy

        from cogent3.util.dict_array import DictArrayTemplate

        return DictArrayTemplate(*p["names"]).wrap(numpy.array(p["array"], dtype=float))
    if g == "dmat":
        from cogent3.evolve.fast_distance import DistanceMatrix

        t = DistanceMatrix({tuple(k): fv(v) for k, v in p["dists"]})
        for a, b, v in p.get("set", []):
            t[a, b] = fv(v)
        return t
    raise KeyError(g)


def case_db(p):
    import os
    import tempfile

    from cogent3.core import annotation_db as adb

    log = []
    with tempfile.TemporaryDirectory() as tmp:
        if p["kind"] == "basic":
            db = adb.BasicAnnotationDb()
        elif p["kind"] == "gff":
            path = os.path.join(tmp, "x.gff")
            lines = ["##gff-version 3"]
            for f in p["gff"]:
                lines.append("\t".join([f["seqid"], "src", f["biotype"], str(f["start"]), str(f["end"]), ".", f["strand"], ".", f"ID={f['name']}" + (f";Parent={f['parent']}" if f.get("parent") else "")]))
            open(path, "w").write("\n".join(lines) + "\n")
            db = adb.load_annotations(path=path)
        elif p["kind"] == "genbank":
            db = adb.GenbankAnnotationDb(data=[], seqid=p.get("seqid", "s1"))
        for op in p.get("ops", []):
            k = op[0]
            try:
                if k == "add":
                    r = dict(op[1])
                    r["spans"] = [tuple(s) for s in r["spans"]]
                    db.add_feature(**r)
                elif k == "subset":
                    db = db.subset(**op[1])
                elif k == "union":
                    o = adb.BasicAnnotationDb()
                    for r in op[1]:
                        r = dict(r)
                        r["spans"] = [tuple(s) for s in r["spans"]]
                        o.add_feature(**r)
                    db = db.union(o)
                elif k == "update":
                    o = adb.BasicAnnotationDb()
                    for r in op[1]:
                        r = dict(r)
                        r["spans"] = [tuple(s) for s in r["spans"]]
                        o.add_feature(**r)
                    db.update(o)
                elif k == "json":
                    from cogent3.util.deserialise import deserialise_object

                    db = deserialise_object(db.to_json())
                log.append(True)
            except Exception as e:  # noqa: BLE001
                log.append(type(e).__name__)
        r = dict(cls=prov(db), obs=observe(db), routes=routes_for(db), oplog=log)
        if type(db).__name__ == "BasicAnnotationDb":
            r["enc"] = _route(lambda: enc_generic(db))
        return r


def case_seq_db(p):
    """old-style sequence with an annotation db attached, then view operations"""
    s = gen_seq(p)
    for f in p["features"]:
        s.add_feature(biotype=f["biotype"], name=f["name"], spans=[tuple(x) for x in f["spans"]], **({"strand": f["strand"]} if f.get("strand") else {}))
    log = []
    s = apply_seq_ops(s, p.get("ops", []), log)
    r = dict(cls=prov(s), obs=observe(s), routes=routes_for(s), oplog=log)
    if type(s.annotation_db).__name__ == "BasicAnnotationDb":
        r["enc"] = _route(lambda: dict(enc_generic(s), view=obs_view(s._seq), parent=str(s._seq.seq)))
    return r


def _import_all():
    import importlib
    import pkgutil

    import cogent3

    for m in pkgutil.walk_packages(cogent3.__path__, "cogent3."):
        try:
            importlib.import_module(m.name)
        except Exception:  # noqa: BLE001
            continue


def enc_generic(x):
    """JSON-level rich dict and the rich dict of what reads back (or the exception), for the Coq correspondence"""
    from cogent3.util.deserialise import deserialise_object

    rd = json.loads(x.to_json())
    try:
        y = deserialise_object(json.loads(json.dumps(rd)))
        after = json.loads(y.to_json())
    except Exception as e:  # noqa: BLE001
        after = {"exc": exc_code(e), "msg": f"{type(e).__name__}: {str(e)[:120]}"}
    return dict(rd=rd, after=after)


def enc_tree(t):
    from cogent3.util.deserialise import deserialise_object

    rd = json.loads(t.to_json())
    y = deserialise_object(json.loads(json.dumps(rd)))
    ids = {}

    def lid(v):
        if v is None:
            return None
        return ids.setdefault(repr(float(v)), len(ids) + 1)

    def struct(n):
        return [n.name, lid(getattr(n, "length", None)), [struct(c) for c in n.children]]

    before = struct(t)
    return dict(tree=before, newick=rd["newick"], attrs=[[k, lid((v or {}).get("length"))] for k, v in rd["edge_attributes"].items()],
                after=struct(y))


def case_inventory(p):
    """every class offering to_rich_dict/to_json + the registry, by introspection"""
    import importlib
    import inspect
    import pkgutil

    import cogent3
    from cogent3.util import deserialise as d

    classes = {}
    for m in pkgutil.walk_packages(cogent3.__path__, "cogent3."):
        try:
            mod = importlib.import_module(m.name)
        except Exception:  # noqa: BLE001
            continue
        for n, c in inspect.getmembers(mod, inspect.isclass):
            if c.__module__ != m.name:
                continue
            if hasattr(c, "to_rich_dict") or hasattr(c, "to_json"):
                classes[f"{m.name}.{n}"] = [a for a in ("to_rich_dict", "to_json", "from_rich_dict", "__getstate__", "__reduce__", "__getnewargs_ex__") if a in c.__dict__]
    reg = [[k, f.__module__ + "." + f.__name__] for k, f in d._deserialise_func_map.items()]
    return dict(cls="inventory", obs={"kind": "inventory", "classes": classes, "registry": reg}, routes={}, oplog=[])


def case_dispatch(p):
    """registry dispatch on a list of type strings: which function is chosen (by name), or the exception"""
    from cogent3.util import deserialise as d

    _import_all()
    out = []
    for t in p["types"]:
        chosen = None
        for type_str, func in d._deserialise_func_map.items():
            if type_str in t:
                chosen = func.__module__ + "." + func.__name__
                break
        out.append(chosen)
    return dict(cls="dispatch", obs={"kind": "dispatch", "chosen": out}, routes={}, oplog=[])


def case_misc(p):
    k = p["kind"]
    log = []
    if k == "aseq":
        from cogent3 import get_moltype

        x = get_moltype(p["moltype"]).make_array_seq(p["seq"], name=p.get("name"))
        for op in p.get("ops", []):
            try:
                if op[0] == "slice":
                    x = x[slice(op[1], op[2], op[3])]
                elif op[0] == "rc":
                    x = x.rc()
                log.append(True)
            except Exception as e:  # noqa: BLE001
                log.append(type(e).__name__)
    elif k == "treenode":
        from cogent3.core.tree import TreeNode
        from cogent3.parse.tree import DndParser

        x = DndParser(p["newick"], constructor=TreeNode)
    elif k == "seqsdata":
        from cogent3 import make_unaligned_seqs

        c = make_unaligned_seqs(p["seqs"], moltype=p["moltype"], new_type=True)
        for op in p.get("ops", []):
            try:
                if op[0] == "rc":
                    c = c.rc()
                elif op[0] == "take_seqs":
                    c = c.take_seqs(op[1])
                log.append(True)
            except Exception as e:  # noqa: BLE001
                log.append(type(e).__name__)
        x = c.seqs
    return dict(cls=prov(x), obs=observe(x), routes=routes_for(x), oplog=log)


GENS = dict(misc=case_misc, seq=case_seq, view=case_view, aln=case_aln, aligned=case_aligned, imap=case_imap, span=case_span, tree=case_tree, table=case_table,
            darr=case_darr, alpha=case_alpha, sm=case_sm, lf=case_lf, result=case_result, db=case_db, seq_db=case_seq_db,
            inventory=case_inventory, dispatch=case_dispatch)


def run_case(case):
    return GENS[case["gen"]](case["p"])


if __name__ == "__main__":
    serve(run_case, limit=120)
