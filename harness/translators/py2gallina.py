"""Translator for C01: regenerate coq/gen/ViewGen.v from the CURRENT text of the
view kernel (straight-line integer code) of

    src/cogent3/core/sequence.py       _input_vals_{pos,neg}_step, SliceRecordABC, SeqView        -> Module Old
    src/cogent3/core/new_sequence.py   _input_vals_{pos,neg}_step, SliceRecordABC, SeqView        -> Module New
    src/cogent3/core/new_alignment.py  SeqDataView (inherits new_sequence.SliceRecordABC)         -> Module Sdv

Pure `ast` (nothing is imported or executed).  Each module of the output holds
one Gallina definition per translated Python function, over the `view` record,
`res` type and `bind` of Model/View.v.  Proofs/ViewGenEq.v then proves every
generated function equal to the hand-written model function for all arguments.

The accepted fragment (everything else raises TranslatorError = the tie is
reported broken, nothing is guessed):

  expressions  int literals, None, True/False, local names, + - * unary -,
               // and % (divisor must be self.step / abs(self.step)), abs min max int,
               len(self) len(<str parameter>) len(self.seq), comparisons (chains allowed),
               `x is None` / `is not None`, and / or / not (short-circuit; `a or b` on ints),
               conditional expressions, tuples, the walrus in an unconditionally
               evaluated position of an `if` test, reads of self.start/stop/step/_offset/
               _seq_len and of properties (translated and called), segment.start/stop/step,
               string literals (only their length is kept)
  statements   assignment (also a = b = e, tuple unpacking, augmented), if/elif/else with early
               return, return, raise IndexError/ValueError/TypeError/AssertionError,
               assert (-> Err E_Other when false), docstrings, `self.f = e` inside __init__
  calls        module-level kernel functions (also through `f = g if c else h`), methods and
               properties of self, self.__class__(**keywords), `**kwargs` that is provably
               self._get_init_kwargs()

Conventions that are part of the trusted reading (stated in the evidence):
  * Python int = Z, // = Z.div, % = Z.modulo (equal to Python for a non-zero divisor;
    the only divisors accepted are self.step and abs(self.step), non-zero for every
    view the constructor returns);
  * an optional int is `option Z`; an `if` (or conditional expression) whose test mentions
    an optional variable becomes a `match` on it, the test being decided statically in the
    None branch (`x is None` True, `x == <int>` False; any arithmetic on None aborts);
  * `a is b is c is None` is read as "all of them are None" (identical truth value:
    the chain can only be true if the last comparison is);
  * falling off the end of a function whose other exits return a value is `Err E_Type`
    (it returns None, which every caller unpacks or slices: TypeError);
  * `len(self.seq)` of a SeqView is read as the field `_seq_len`; the generated constructor
    keeps `len(seq)` as a parameter and ViewGenEq proves that it stores exactly that number
    in `_seq_len`, which is what justifies the reading;
  * objects that never reach the arithmetic (seq of a SeqDataView, seqid, alphabet) are dropped;
  * `__getitem__` is translated twice, for an int and for a slice argument, `_is_int(segment)` being
    True resp. False; the text of `_is_int` is checked to be the known type test;
  * `copy` is translated for `sliced=False` only (every call in the kernel is `self.copy()`), and
    `**kwargs` must provably be `self._get_init_kwargs()`;
  * method resolution is the textual MRO of the three classes (checked against the `class` statements);
    `start/stop/step/_offset/_seq_len/seq` must be plain stored attributes, no `__bool__`,
    `__getattr__`, `__setattr__`, `__new__`, metaclass or class decorator may appear.

usage: py2gallina.py [--repo DIR] [--records FILE]     prints ViewGen.v on stdout
       (source root: DIR/src; DIR defaults to $VERIF_REPO, then /repo)
"""
from __future__ import annotations

import ast
import hashlib
import json
import os
import sys


class TranslatorError(Exception):
    pass


def fail(node, msg):
    where = f"line {getattr(node, 'lineno', '?')}" if node is not None else ""
    raise TranslatorError(f"{msg} ({where})" if where else msg)


# ------------------------------------------------------------------ values

class ZV:
    def __init__(self, t):
        self.t = t


class BV:
    def __init__(self, t=None, const=None):
        self.t, self.const = t, const
        if const is not None:
            self.t = "true" if const else "false"


class OptV:
    """state 'opt': t is an `option Z` term; 'none'; 'some': t is a Z term"""

    def __init__(self, state, t=None):
        self.state, self.t = state, t

    def opt_term(self):
        return {"opt": self.t, "none": "None", "some": f"(Some {self.t})"}[self.state]


class TupV:
    def __init__(self, items):
        self.items = items


class SliceV:
    def __init__(self, start, stop, step):
        self.parts = {"start": start, "stop": stop, "step": step}


class SelfV:
    pass


class OpaqueV:
    pass


class SizedV:
    def __init__(self, lent):
        self.lent = lent


class DictV:
    def __init__(self, items, origin=None):
        self.items, self.origin = items, origin


class FuncV:
    """a module-level function, or a choice between two by a boolean"""

    def __init__(self, name=None, mod=None, cond=None, a=None, b=None):
        self.name, self.mod, self.cond, self.a, self.b = name, mod, cond, a, b


class CtorV:
    pass


class ResV:
    """the result of a call that may raise: only usable as the whole right-hand side of an
    assignment or as a returned value"""

    def __init__(self, t, ret):
        self.t, self.ret = t, ret


class ViewV:
    """a plain view term (only `self`)"""

    def __init__(self, t):
        self.t = t


EXC = {"IndexError": "E_Index", "ValueError": "E_Value", "TypeError": "E_Type", "AssertionError": "E_Other"}
FIELDS = {"start": "start", "stop": "stop", "step": "step", "_offset": "offset", "_seq_len": "seq_len"}
RET_T = {"Z": "Z", "B": "bool", "ZZZ": "(Z * Z * Z)", "view": "view"}

# python name -> (gallina name, positional parameter types after self, return type, fixed parameters)
SPEC = {
    "_input_vals_pos_step": ("input_vals_pos_step", ["Z", "OptZ", "OptZ", "Z"], "ZZZ", {}),
    "_input_vals_neg_step": ("input_vals_neg_step", ["Z", "OptZ", "OptZ", "Z"], "ZZZ", {}),
    "__len__": ("len", [], "Z", {}),
    "offset": ("prop_offset", [], "Z", {}),
    "seq_len": ("prop_seq_len", [], "Z", {}),
    "is_reversed": ("is_reversed", [], "B", {}),
    "parent_start": ("parent_start", [], "Z", {}),
    "parent_stop": ("parent_stop", [], "Z", {}),
    "absolute_position": ("absolute_position", ["Z", "B"], "Z", {}),
    "relative_position": ("relative_position", ["Z", "B"], "Z", {}),
    "_get_index": ("get_index", ["Z", "B"], "ZZZ", {}),
    "_get_slice": ("get_slice", ["Slice", "Z"], "view", {}),
    "_get_reverse_slice": ("get_reverse_slice", ["Slice", "Z"], "view", {}),
    "_get_forward_slice_from_forward_seqview_": ("get_forward_slice_from_forward", ["Z", "Z", "Z"], "view", {}),
    "_get_forward_slice_from_reverse_seqview_": ("get_forward_slice_from_reverse", ["Z", "Z", "Z"], "view", {}),
    "_get_reverse_slice_from_forward_seqview_": ("get_reverse_slice_from_forward", ["Z", "Z", "Z"], "view", {}),
    "_get_reverse_slice_from_reverse_seqview_": ("get_reverse_slice_from_reverse", ["Z", "Z", "Z"], "view", {}),
    "_zero_slice": ("zero_slice", [], "view", {}),
    "copy": ("copy", ["B"], "view", {"sliced": False}),
    "_checked_seq_len": ("checked_seq_len", ["Z"], "Z", {}),
    "_get_init_kwargs": (None, [], "dict", {}),
}
# __getitem__ is translated twice, once per type of `segment`
GETITEM = {"getitem_int": ("Z", True), "getitem_slice": ("Slice", False)}
# constructor parameter types by name, per class flavour
INIT_TYPES = {
    "seqview": {"seq": "Sized", "alphabet": "Opaque", "start": "OptZ", "stop": "OptZ", "step": "OptZ", "offset": "Z",
                "seqid": "Opaque", "seq_len": "OptZ"},
    "sdv": {"seq": "Opaque", "seqid": "Opaque", "seq_len": "Z", "start": "OptZ", "stop": "OptZ", "step": "OptZ", "offset": "Z"},
}


def paren(t):
    return t if t.replace("_", "a").replace("'", "a").isalnum() or (t.startswith("(") and t.endswith(")") and _balanced(t)) else f"({t})"


def _balanced(t):
    d = 0
    for i, ch in enumerate(t):
        if ch == "(":
            d += 1
        elif ch == ")":
            d -= 1
            if d == 0 and i != len(t) - 1:
                return False
    return d == 0


def neg(b: BV) -> BV:
    if b.const is not None:
        return BV(const=not b.const)
    if b.t.startswith("negb "):
        inner = b.t[5:]
        if inner.startswith("(") and _balanced(inner):
            return BV(inner[1:-1])
        if " " not in inner:
            return BV(inner)
    return BV(f"negb {paren(b.t)}")


class TripV:
    """a term of type Z * Z * Z"""

    def __init__(self, t):
        self.t = t


# ------------------------------------------------------------------ sources

class Source:
    def __init__(self, key, path):
        self.key, self.path = key, path
        try:
            self.text = open(path, encoding="utf-8").read()
        except OSError as e:
            raise TranslatorError(f"cannot read {path}: {e}")
        try:
            self.tree = ast.parse(self.text)
        except SyntaxError as e:
            raise TranslatorError(f"cannot parse {path}: {e}")
        self.funcs = {n.name: n for n in self.tree.body if isinstance(n, ast.FunctionDef)}
        self.classes = {n.name: n for n in self.tree.body if isinstance(n, ast.ClassDef)}
        # module aliases:  from cogent3.core import new_sequence  /  import cogent3.core.new_sequence as x
        self.aliases = {}
        for n in ast.walk(self.tree):
            if isinstance(n, ast.ImportFrom) and n.module in ("cogent3.core", "cogent3"):
                for a in n.names:
                    self.aliases[a.asname or a.name] = a.name
            elif isinstance(n, ast.Import):
                for a in n.names:
                    if a.name.startswith("cogent3.core.") and a.asname:
                        self.aliases[a.asname] = a.name.split(".")[-1]


# ------------------------------------------------------------------ the translator (one instance per class)

class Tr:
    def __init__(self, modname, sources, mro, flavour):
        self.modname, self.sources, self.mro, self.flavour = modname, sources, mro, flavour
        self.out = []          # emitted definitions, dependency order
        self.done = {}         # key -> dict(name, is_res, ret, params, uses_self)
        self.active = []
        self.records = []
        for src, cls in mro:
            if cls not in sources[src].classes:
                raise TranslatorError(f"class {cls} not found in {sources[src].path}")
        for m in ("__len__",):
            self.find_method(m)
        names = [c for _, c in mro]
        if self.lookup_method("__bool__") is not None:
            raise TranslatorError(f"{names}: a class defines __bool__: truthiness is no longer len(self) != 0")
        for m in ("__getattr__", "__getattribute__", "__setattr__", "__new__", "__init_subclass__", "__class_getitem__"):
            if self.lookup_method(m) is not None:
                raise TranslatorError(f"{names}: a class defines {m}: attribute reads / construction are no longer plain")
        for f in ("start", "stop", "step", "_offset", "_seq_len", "seq", "__class__"):
            if self.lookup_method(f) is not None:
                raise TranslatorError(f"{names}: {f} is now a method / property, the translator reads it as a stored field")
        for src, cls in mro:
            c = sources[src].classes[cls]
            if c.decorator_list or c.keywords:
                raise TranslatorError(f"class {cls}: decorators / metaclass keywords outside the fragment")

    # ---- lookup
    def lookup_method(self, name):
        for src, cls in self.mro:
            hit = None
            for n in self.sources[src].classes[cls].body:
                if isinstance(n, ast.FunctionDef) and n.name == name:
                    if any(isinstance(d, ast.Attribute) and d.attr in ("setter", "deleter") for d in n.decorator_list):
                        continue
                    hit = n
                elif isinstance(n, (ast.Assign, ast.AnnAssign)):
                    tg = n.targets if isinstance(n, ast.Assign) else [n.target]
                    if any(isinstance(t, ast.Name) and t.id == name for t in tg) and not (isinstance(n, ast.AnnAssign) and n.value is None):
                        raise TranslatorError(f"{cls}.{name} is assigned in the class body (line {n.lineno}): outside the fragment")
            if hit is not None:
                return src, cls, hit
        return None

    def find_method(self, name):
        r = self.lookup_method(name)
        if r is None:
            raise TranslatorError(f"method {name} not found in {[c for _, c in self.mro]}")
        return r

    @staticmethod
    def is_property(fn):
        return any(isinstance(d, ast.Name) and d.id == "property" for d in fn.decorator_list)

    @staticmethod
    def body_of(fn):
        body = list(fn.body)
        if body and isinstance(body[0], ast.Expr) and isinstance(body[0].value, ast.Constant) and isinstance(body[0].value.value, str):
            body = body[1:]
        if not body or all(isinstance(s, ast.Expr) and isinstance(s.value, ast.Constant) and s.value.value is Ellipsis for s in body):
            raise TranslatorError(f"{fn.name} (line {fn.lineno}) has no body (abstract stub)")
        for d in fn.decorator_list:
            ok = (isinstance(d, ast.Name) and d.id in ("property",))
            if not ok:
                raise TranslatorError(f"decorator on {fn.name} (line {fn.lineno}) outside the fragment")
        return body

    def record(self, src, cls, fn, gname):
        s = self.sources[src]
        seg = ast.get_source_segment(s.text, fn) or ""
        self.records.append(dict(module=self.modname, gallina=f"{self.modname}.{gname}", python=(f"{cls}." if cls else "") + fn.name,
                                 file=os.path.relpath(s.path, os.path.dirname(os.path.dirname(os.path.dirname(os.path.dirname(s.path))))),
                                 lines=[fn.lineno, fn.end_lineno], sha1=hashlib.sha1(seg.encode()).hexdigest()))

    # ---- which functions may raise (syntactic closure)
    def may_raise(self, src, fn, seen=None):
        seen = seen or set()
        if (src, fn.name) in seen:
            raise TranslatorError(f"recursion through {fn.name}")
        seen = seen | {(src, fn.name)}
        for n in ast.walk(fn):
            if isinstance(n, (ast.Raise, ast.Assert)):
                return True
            if isinstance(n, ast.Attribute) and isinstance(n.value, ast.Name) and n.value.id == "self":
                if n.attr == "__class__":
                    return True
                if n.attr in FIELDS or n.attr in ("seq", "seqid", "alphabet", "_seqid", "_get_init_kwargs"):
                    continue
                r = self.lookup_method(n.attr)
                if r is not None and r[2] is not fn and self.may_raise(r[0], r[2], seen):
                    return True
        # implicit `return None` at the end of a value-returning function
        return fn.name != "__init__" and self.can_fall_off(fn.body)

    def can_fall_off(self, stmts):
        if not stmts:
            return True
        last = stmts[-1]
        if isinstance(last, (ast.Return, ast.Raise)):
            return False
        if isinstance(last, ast.If):
            return self.can_fall_off(last.body) or self.can_fall_off(last.orelse)
        return True

    # ---- translate a module-level function / a method on demand
    def need_func(self, src, name):
        key = ("f", src, name)
        if key in self.done:
            return self.done[key]
        s = self.sources[src]
        if name not in s.funcs:
            raise TranslatorError(f"function {name} not found in {s.path}")
        if name not in SPEC:
            raise TranslatorError(f"call of {name}: not a kernel function of the fragment")
        fn = s.funcs[name]
        info = self.translate(key, src, None, fn, SPEC[name], is_method=False)
        return info

    def need_method(self, name, variant=None):
        key = ("m", variant or name)
        if key in self.done:
            return self.done[key]
        src, cls, fn = self.find_method(name)
        if name == "__init__":
            return self.translate_init(key, src, cls, fn)
        if name == "__getitem__":
            self.check_is_int(src)
            ty, isint = GETITEM[variant]
            spec = (variant, [ty], "view", {})
            return self.translate(key, src, cls, fn, spec, is_method=True, assume={"_is_int": isint})
        if name not in SPEC:
            raise TranslatorError(f"self.{name}: not part of the fragment")
        return self.translate(key, src, cls, fn, SPEC[name], is_method=True)

    IS_INT_BODY = "return issubdtype(val.__class__, integer) or isinstance(val, int)"

    def check_is_int(self, src):
        """__getitem__ dispatches on `_is_int(segment)`; the two translations (int / slice argument) assume it is the type test"""
        s = self.sources[src]
        fn = s.funcs.get("_is_int")
        if fn is None:
            raise TranslatorError(f"{s.path}: _is_int not found")
        body = self.body_of(fn)
        if len(fn.args.args) != 1 or fn.args.args[0].arg != "val" or len(body) != 1 or ast.unparse(body[0]) != self.IS_INT_BODY:
            raise TranslatorError(f"{os.path.basename(s.path)}: _is_int is no longer `{self.IS_INT_BODY}`: the int / slice dispatch of "
                                  "__getitem__ must be re-examined")
        if not any(r["python"] == "_is_int" and r["file"].endswith(os.path.basename(s.path)) for r in self.records):
            self.record(src, None, fn, "(assumed: True for int arguments, False for slice objects)")

    def params_of(self, fn, types, fixed, is_method):
        a = fn.args
        if a.vararg or a.posonlyargs:
            fail(fn, f"{fn.name}: *args / positional-only parameters outside the fragment")
        pos = list(a.args)
        if is_method:
            if not pos or pos[0].arg != "self":
                fail(fn, f"{fn.name}: first parameter is not self")
            pos = pos[1:]
        if a.kwonlyargs:
            fail(fn, f"{fn.name}: keyword-only parameters outside the fragment (only __init__ may have them)")
        if len(pos) != len(types):
            fail(fn, f"{fn.name}: expected {len(types)} parameters, found {len(pos)}")
        defaults = [None] * (len(pos) - len(a.defaults)) + list(a.defaults)
        return [(p.arg, t, d) for p, t, d in zip(pos, types, defaults)], (a.kwarg.arg if a.kwarg else None)

    def translate(self, key, src, cls, fn, spec, is_method, assume=None):
        try:
            return self._translate(key, src, cls, fn, spec, is_method, assume)
        except TranslatorError as e:
            raise self.located(e, src, cls, fn)

    def located(self, e, src, cls, fn):
        if getattr(e, "located", False):
            return e
        e2 = TranslatorError(f"{os.path.basename(self.sources[src].path)}: {(cls + '.') if cls else ''}{fn.name}: {e}")
        e2.located = True
        return e2

    def _translate(self, key, src, cls, fn, spec, is_method, assume=None):
        gname, types, ret, fixed = spec
        if key in self.active:
            raise TranslatorError(f"recursion through {fn.name}")
        self.active.append(key)
        body = self.body_of(fn)
        if ret == "dict":
            # _get_init_kwargs: `return {...}` only
            if len(body) != 1 or not isinstance(body[0], ast.Return) or not isinstance(body[0].value, ast.Dict):
                fail(fn, f"{fn.name}: expected a single `return {{...}}`")
            env = {"self": SelfV()}
            ctx = Ctx(self, src, fn, False, "dict", env_self="v", assume={})
            items = {}
            for k, v in zip(body[0].value.keys, body[0].value.values):
                if not (isinstance(k, ast.Constant) and isinstance(k.value, str)):
                    fail(fn, "non-literal key in _get_init_kwargs")
                items[k.value] = ctx.ev(v, env)
            info = dict(name=None, dict=DictV(items, origin="init_kwargs"))
            self.done[key] = info
            self.active.pop()
            self.record(src, cls, fn, "(kwargs of every construction)")
            return info
        params, kwarg = self.params_of(fn, types, fixed, is_method)
        uses_self = is_method and any(isinstance(n, ast.Name) and n.id == "self" for s in body for n in ast.walk(s))
        is_res = self.may_raise(src, fn)
        env = {}
        if is_method:
            env["self"] = SelfV()
        sig = []
        gparams = []
        for (pname, ty, default) in params:
            if pname in fixed:
                env[pname] = BV(const=fixed[pname]) if isinstance(fixed[pname], bool) else fail(fn, "fixed parameter kind")
                gparams.append((pname, ty, default, True))
                continue
            g = f"l_{pname}"
            if ty == "Z":
                env[pname] = ZV(g)
                sig.append(f"({g} : Z)")
            elif ty == "B":
                env[pname] = BV(g)
                sig.append(f"({g} : bool)")
            elif ty == "OptZ":
                env[pname] = OptV("opt", g)
                sig.append(f"({g} : option Z)")
            elif ty == "Slice":
                env[pname] = SliceV(*[OptV("opt", f"{g}__{p}") for p in ("start", "stop", "step")])
                sig.append(f"({g}__start {g}__stop {g}__step : option Z)")
            else:
                fail(fn, f"parameter type {ty}")
            gparams.append((pname, ty, default, False))
        if kwarg:
            env[kwarg] = self.need_method("_get_init_kwargs")["dict"]
        ctx = Ctx(self, src, fn, is_res, ret, env_self="v" if uses_self else None, assume=assume or {})
        term = ctx.block(body, env, ctx.fall_off)
        rt = RET_T[ret]
        head = f"Definition {gname} " + ("(v : view) " if uses_self else "") + " ".join(sig)
        self.out.append(f"(* {os.path.basename(self.sources[src].path)} l.{fn.lineno}-{fn.end_lineno}: "
                        f"{(cls + '.') if cls else ''}{fn.name} *)\n{head} : {('res ' + rt) if is_res else rt} :=\n{term}.\n")
        info = dict(name=gname, is_res=is_res, ret=ret, params=gparams, uses_self=uses_self, kwarg=kwarg, is_property=is_method and self.is_property(fn))
        self.done[key] = info
        self.active.pop()
        self.record(src, cls, fn, gname)
        return info

    def translate_init(self, key, src, cls, fn):
        try:
            return self._translate_init(key, src, cls, fn)
        except TranslatorError as e:
            raise self.located(e, src, cls, fn)

    def _translate_init(self, key, src, cls, fn):
        if key in self.active:
            raise TranslatorError("recursion through __init__")
        self.active.append(key)
        body = self.body_of(fn)
        a = fn.args
        if a.vararg or a.kwarg or a.posonlyargs or len(a.args) != 1 or a.args[0].arg != "self":
            fail(fn, "__init__: expected (self, *, keyword-only parameters)")
        types = INIT_TYPES[self.flavour]
        env = {"self": SelfV()}
        sig, gparams = [], []
        for p, d in zip(a.kwonlyargs, a.kw_defaults):
            if p.arg not in types:
                fail(fn, f"__init__: unknown parameter {p.arg}")
            ty = types[p.arg]
            g = f"l_{p.arg}"
            if ty == "Z":
                env[p.arg] = ZV(g)
                sig.append(f"({g} : Z)")
            elif ty == "OptZ":
                env[p.arg] = OptV("opt", g)
                sig.append(f"({g} : option Z)")
            elif ty == "Sized":
                env[p.arg] = SizedV(f"{g}__len")
                sig.append(f"({g}__len : Z)")
            else:
                env[p.arg] = OpaqueV()
            gparams.append((p.arg, ty, d, False))
        missing = set(types) - {p.arg for p in a.kwonlyargs} - {"alphabet"}
        if missing:
            fail(fn, f"__init__: parameters {sorted(missing)} disappeared")
        ctx = Ctx(self, src, fn, True, "view", env_self=None, assume={}, init=True)
        term = ctx.block(body, env, ctx.init_done)
        self.out.append(f"(* {os.path.basename(self.sources[src].path)} l.{fn.lineno}-{fn.end_lineno}: {cls}.__init__ *)\n"
                        f"Definition init {' '.join(sig)} : res view :=\n{term}.\n")
        info = dict(name="init", is_res=True, ret="view", params=gparams, uses_self=False, kwarg=None, is_property=False)
        self.done[key] = info
        self.active.pop()
        self.record(src, cls, fn, "init")
        return info


# ------------------------------------------------------------------ one function body

class Ctx:
    def __init__(self, tr: Tr, src, fn, is_res, ret, env_self, assume, init=False):
        self.tr, self.src, self.fn, self.is_res, self.ret, self.vself, self.assume, self.init = tr, src, fn, is_res, ret, env_self, assume, init
        self.pending = None      # list of (gallina name, term) for walrus bindings of the current test
        self.cond_depth = 0

    # ---- leaves
    def ok(self, t):
        return f"Ok {paren(t)}" if self.is_res else t

    def err(self, code):
        if not self.is_res:
            fail(self.fn, "internal: raise in a function classified as total")
        return f"Err {code}"

    def fall_off(self, env):
        # implicit `return None` of a function whose other exits return a value
        return self.err("E_Type")

    def init_done(self, env):
        vals = []
        for f in ("start", "stop", "step", "_seq_len", "_offset"):
            v = env.get("self." + f)
            if v is None:
                fail(self.fn, f"__init__ does not assign self.{f} on every path")
            vals.append(paren(self.z(v, self.fn)))
        return f"Ok (mkV {vals[0]} {vals[1]} {vals[2]} {vals[3]} {vals[4]})"

    def ret_value(self, node, val):
        if isinstance(val, ResV):
            if not self.is_res or val.ret != self.ret:
                fail(node, "returned call has a different result type")
            return val.t
        if self.ret == "Z":
            return self.ok(self.z(val, node))
        if self.ret == "B":
            return self.ok(self.b(val, node).t)
        if self.ret == "ZZZ":
            if isinstance(val, TripV):
                return self.ok(val.t)
            if not isinstance(val, TupV) or len(val.items) != 3:
                fail(node, "expected a 3-tuple of ints")
            return self.ok("(" + ", ".join(self.z(x, node) for x in val.items) + ")")
        if self.ret == "view":
            if isinstance(val, SelfV):
                return self.ok("v")
            if isinstance(val, ViewV):
                return self.ok(val.t)
            fail(node, "returned value is not a view")
        fail(node, "return type")

    # ---- coercions
    def z(self, v, node):
        if isinstance(v, ZV):
            return v.t
        if isinstance(v, OptV) and v.state == "some":
            return v.t
        if isinstance(v, OptV) and v.state == "none":
            fail(node, "None used where an int is needed")
        if isinstance(v, OptV):
            fail(node, "optional int used where an int is needed (no `is None` test guards it)")
        fail(node, f"expected an int expression, got {type(v).__name__}")

    def b(self, v, node) -> BV:
        if isinstance(v, BV):
            return v
        if isinstance(v, SelfV):       # truthiness of a view: no __bool__, so len(self) != 0
            return neg(BV(f"{self.call_method('__len__', [], {}, node).t} =? 0"))
        if isinstance(v, ZV) or (isinstance(v, OptV) and v.state == "some"):
            return neg(BV(f"{self.z(v, node)} =? 0"))
        if isinstance(v, OptV) and v.state == "none":
            return BV(const=False)
        fail(node, f"expected a boolean expression, got {type(v).__name__}")

    # ---- optional variables mentioned in a test
    def find_opt(self, node, env):
        for n in ast.walk(node):
            if isinstance(n, ast.Name) and isinstance(env.get(n.id), OptV) and env[n.id].state == "opt":
                return (n.id, None)
            if isinstance(n, ast.Attribute) and isinstance(n.value, ast.Name) and isinstance(env.get(n.value.id), SliceV) \
                    and n.attr in ("start", "stop", "step") and env[n.value.id].parts[n.attr].state == "opt":
                return (n.value.id, n.attr)
        return None

    def split_env(self, env, ref, val):
        name, attr = ref
        e = dict(env)
        if attr is None:
            e[name] = val
        else:
            parts = dict(env[name].parts)
            parts[attr] = val
            e[name] = SliceV(parts["start"], parts["stop"], parts["step"])
        return e

    def get_ref(self, env, ref):
        name, attr = ref
        return env[name] if attr is None else env[name].parts[attr]

    # ---- statements (continuation style: k(env) is the text of "the rest")
    def block(self, stmts, env, k):
        if not stmts:
            return k(env)
        return self.stmt(stmts[0], env, lambda e: self.block(stmts[1:], e, k))

    def has_exit(self, node):
        return any(isinstance(n, (ast.Return, ast.Raise, ast.Assert)) for n in ast.walk(node)) or self.has_res_call(node)

    def has_res_call(self, node):
        for n in ast.walk(node):
            if isinstance(n, ast.Assign) and isinstance(n.value, (ast.Call, ast.Attribute)):
                # conservatively: assignments from method calls / constructions are binds
                f = n.value.func if isinstance(n.value, ast.Call) else n.value
                if isinstance(f, ast.Attribute) and isinstance(f.value, ast.Name) and f.value.id == "self" and f.attr not in FIELDS \
                        and not (self.init and f.attr in ("seq",)):
                    r = self.tr.lookup_method(f.attr)
                    if f.attr == "__class__" or (r is not None and self.tr.may_raise(r[0], r[2])):
                        return True
        return False

    def assigned(self, node):
        out = set()
        for n in ast.walk(node):
            if isinstance(n, (ast.Assign, ast.AugAssign)):
                for t in (n.targets if isinstance(n, ast.Assign) else [n.target]):
                    for x in ast.walk(t):
                        if isinstance(x, ast.Name):
                            out.add(x.id)
                        elif isinstance(x, ast.Attribute):
                            out.add("self." + x.attr)
            elif isinstance(n, ast.NamedExpr):
                out.add(n.target.id)
        return out

    def stmt(self, s, env, k):
        env = dict(env)
        if isinstance(s, ast.Expr) and isinstance(s.value, ast.Constant) and isinstance(s.value.value, str):
            return k(env)
        if isinstance(s, ast.Pass):
            return k(env)
        if isinstance(s, ast.Return):
            if s.value is None:
                fail(s, "bare return")
            return self.with_opt_split(s.value, env, lambda e: self.ret_value(s, self.ev(s.value, e, top=True)))
        if isinstance(s, ast.Raise):
            exc = s.exc
            name = exc.func.id if isinstance(exc, ast.Call) and isinstance(exc.func, ast.Name) else exc.id if isinstance(exc, ast.Name) else None
            if name not in EXC or s.cause is not None:
                fail(s, f"raise of {ast.dump(exc)[:60] if exc is not None else 'nothing'} outside the fragment")
            return self.err(EXC[name])
        if isinstance(s, ast.Assert):
            test = ast.If(test=s.test, body=[ast.Pass()], orelse=[ast.Raise(exc=ast.Name(id="AssertionError"), cause=None)])
            ast.copy_location(test, s)
            ast.fix_missing_locations(test)
            return self.if_core(test, env, k)
        if isinstance(s, ast.Assign):
            return self.assign(s, env, k)
        if isinstance(s, ast.AugAssign):
            if not isinstance(s.target, ast.Name):
                fail(s, "augmented assignment to a non-name")
            ops = {ast.Add: "+", ast.Sub: "-", ast.Mult: "*"}
            if type(s.op) not in ops:
                fail(s, "augmented operator outside the fragment")
            cur = env.get(s.target.id)
            if cur is None:
                fail(s, f"{s.target.id} undefined")
            t = f"{self.z(cur, s)} {ops[type(s.op)]} {paren(self.z(self.ev(s.value, env), s))}"
            g = f"l_{s.target.id}"
            env[s.target.id] = ZV(g)
            return f"let {g} := {t} in\n{k(env)}"
        if isinstance(s, ast.If):
            if self.has_exit(s):
                return self.if_core(s, env, k)
            return self.if_merge(s, env, k)
        fail(s, f"statement {type(s).__name__} outside the fragment")

    def bind_name(self, name, val, env, node):
        """returns (binding text or '', updates env)"""
        g = f"l_{name}"
        if isinstance(val, ZV):
            env[name] = ZV(g)
            return f"let {g} := {val.t} in\n"
        if isinstance(val, BV):
            env[name] = BV(g)
            return f"let {g} := {val.t} in\n"
        if isinstance(val, OptV):
            if val.state == "none":
                env[name] = val
                return ""
            if val.state == "some":
                env[name] = OptV("some", g)
                return f"let {g} := {val.t} in\n"
            env[name] = OptV("opt", g)
            return f"let {g} := {val.t} in\n"
        if isinstance(val, (FuncV, DictV, OpaqueV, SizedV)):
            env[name] = val          # static values: no binding needed
            return ""
        fail(node, f"cannot bind a {type(val).__name__}")

    def assign(self, s, env, k):
        ref = self.find_opt_in_tests(s.value, env)
        # right-hand side
        val = self.ev(s.value, env, top=True)
        targets = s.targets
        if isinstance(val, ResV):
            if len(targets) != 1:
                fail(s, "chained assignment from a call that may raise")
            t = targets[0]
            e2 = dict(env)
            if isinstance(t, ast.Tuple):
                if val.ret != "ZZZ" or len(t.elts) != 3 or not all(isinstance(x, ast.Name) for x in t.elts):
                    fail(s, "tuple unpacking of a non-triple")
                names = [x.id for x in t.elts]
                for n in names:
                    e2[n] = ZV(f"l_{n}" if n != "_" else "_")
                pat = "'(" + ", ".join(f"l_{n}" if n != "_" else "_" for n in names) + ")"
            elif isinstance(t, ast.Name):
                if val.ret == "Z":
                    e2[t.id] = ZV(f"l_{t.id}")
                elif val.ret == "B":
                    e2[t.id] = BV(f"l_{t.id}")
                else:
                    fail(s, "binding a view / tuple to a single name")
                pat = f"l_{t.id}"
            elif self.init and isinstance(t, ast.Attribute) and isinstance(t.value, ast.Name) and t.value.id == "self":
                if val.ret != "Z":
                    fail(s, "field assigned from a non-int call")
                e2["self." + t.attr] = ZV(f"f_{t.attr}")
                pat = f"f_{t.attr}"
            else:
                fail(s, "assignment target outside the fragment")
            if not self.is_res:
                fail(s, "internal: bind in a total function")
            return f"bind {paren(val.t)} (fun {pat} =>\n{k(e2)})"
        text = ""
        for t in targets:
            if isinstance(t, ast.Name):
                text += self.bind_name(t.id, val, env, s)
            elif isinstance(t, ast.Tuple):
                if not all(isinstance(x, ast.Name) for x in t.elts):
                    fail(s, "nested unpacking")
                if isinstance(val, TupV):
                    if len(val.items) != len(t.elts):
                        fail(s, "tuple arity")
                    # simultaneous assignment: evaluate all first
                    tmp = []
                    for i, (x, v) in enumerate(zip(t.elts, val.items)):
                        tmp.append((x.id, ZV(f"t{i}_{x.id}"), f"let t{i}_{x.id} := {self.z(v, s)} in\n"))
                    text += "".join(b for _, _, b in tmp)
                    for name, v, _ in tmp:
                        text += self.bind_name(name, v, env, s)
                elif isinstance(val, TripV):
                    if len(t.elts) != 3:
                        fail(s, "tuple arity")
                    text += "let '(" + ", ".join(f"l_{x.id}" for x in t.elts) + f") := {val.t} in\n"
                    for x in t.elts:
                        env[x.id] = ZV(f"l_{x.id}")
                else:
                    fail(s, "tuple unpacking of a non-tuple")
            elif self.init and isinstance(t, ast.Attribute) and isinstance(t.value, ast.Name) and t.value.id == "self":
                if isinstance(val, (OpaqueV, SizedV)):
                    env["self." + t.attr] = val
                elif isinstance(val, (ZV, OptV)):
                    g = f"f_{t.attr}"
                    text += f"let {g} := {self.z(val, s)} in\n"
                    env["self." + t.attr] = ZV(g)
                else:
                    fail(s, f"field self.{t.attr} assigned a {type(val).__name__}")
            else:
                fail(s, "assignment target outside the fragment")
        return text + k(env)

    def find_opt_in_tests(self, node, env):
        return None

    def with_opt_split(self, expr, env, k):
        """evaluate k(env) with every optional variable that occurs in a *test* inside expr decided"""
        for n in ast.walk(expr):
            if isinstance(n, ast.IfExp):
                return k(env)     # conditional expressions split locally (ev)
        return k(env)

    def take_pending(self):
        p, self.pending = self.pending, None
        return "".join(f"let {g} := {t} in\n" for g, t in (p or []))

    def if_core(self, s, env, k):
        ref = self.find_opt(s.test, env)
        if ref is not None:
            cur = self.get_ref(env, ref)
            g = "l_" + ref[0] + ("__" + ref[1] if ref[1] else "")
            a = self.if_core(s, self.split_env(env, ref, OptV("none")), k)
            b = self.if_core(s, self.split_env(env, ref, OptV("some", g)), k)
            return f"match {cur.t} with\n| None =>\n{a}\n| Some {g} =>\n{b}\nend"
        env = dict(env)
        self.pending = []
        c = self.b(self.ev(s.test, env), s)
        lets = self.take_pending()
        if c.const is True:
            return lets + self.block(s.body, env, k)
        if c.const is False:
            return lets + self.block(s.orelse, env, k)
        t = self.block(s.body, env, k)
        f = self.block(s.orelse, env, k)
        return f"{lets}if {c.t} then\n{t}\nelse\n{f}"

    def if_merge(self, s, env, k):
        names = sorted(self.assigned(s))
        rows = []

        def collect(e):
            rows.append([e.get(n) for n in names])
            return "_"
        self.if_core(s, env, collect)
        kinds = []
        for i, n in enumerate(names):
            vals = [r[i] for r in rows]
            if any(v is None for v in vals):
                fail(s, f"{n} may be undefined after this if")
            if all(isinstance(v, ZV) or (isinstance(v, OptV) and v.state == "some") for v in vals):
                kinds.append("Z")
            elif all(isinstance(v, BV) for v in vals):
                kinds.append("B")
            elif all(isinstance(v, (ZV, OptV)) for v in vals):
                kinds.append("O")
            else:
                fail(s, f"{n} has different kinds of value on the branches of this if")

        def emit(e):
            parts = []
            for n, kd in zip(names, kinds):
                v = e[n]
                if kd == "Z":
                    parts.append(self.z(v, s))
                elif kd == "B":
                    parts.append(v.t)
                else:
                    parts.append(v.opt_term() if isinstance(v, OptV) else f"(Some {paren(v.t)})")
            return "(" + ", ".join(parts) + ")" if len(parts) != 1 else parts[0]
        inner = self.if_core(s, env, emit)
        e2 = dict(env)
        gs = []
        for n, kd in zip(names, kinds):
            g = ("f_" + n[5:]) if n.startswith("self.") else f"l_{n}"
            gs.append(g)
            e2[n] = ZV(g) if kd == "Z" else BV(g) if kd == "B" else OptV("opt", g)
        pat = ("'(" + ", ".join(gs) + ")") if len(gs) != 1 else gs[0]
        if not gs:
            return k(e2)
        return f"let {pat} :=\n{inner} in\n{k(e2)}"

    # ---- expressions
    def ev(self, e, env, top=False):
        if isinstance(e, ast.Constant):
            v = e.value
            if v is None:
                return OptV("none")
            if isinstance(v, bool):
                return BV(const=v)
            if isinstance(v, int):
                return ZV(str(v) if v >= 0 else f"({v})")
            if isinstance(v, str):
                return SizedV(str(len(v)))
            fail(e, f"constant {v!r} outside the fragment")
        if isinstance(e, ast.Name):
            if e.id in env:
                return env[e.id]
            if e.id in self.tr.sources[self.src].funcs:
                return FuncV(name=e.id, mod=self.src)
            fail(e, f"name {e.id} is not a local variable or kernel function")
        if isinstance(e, ast.Attribute):
            return self.attribute(e, env, top)
        if isinstance(e, ast.Tuple):
            return TupV([self.ev(x, env) for x in e.elts])
        if isinstance(e, ast.UnaryOp):
            if isinstance(e.op, ast.USub):
                return ZV(f"- {paren(self.z(self.ev(e.operand, env), e))}")
            if isinstance(e.op, ast.Not):
                return neg(self.b(self.ev(e.operand, env), e))
            fail(e, "unary operator outside the fragment")
        if isinstance(e, ast.BinOp):
            l = self.z(self.ev(e.left, env), e)
            r = self.z(self.ev(e.right, env), e)
            if isinstance(e.op, (ast.FloorDiv, ast.Mod)):
                src = ast.unparse(e.right).replace(" ", "")
                if src not in ("self.step", "abs(self.step)"):
                    fail(e, f"divisor {src} is not self.step / abs(self.step): Python raises on 0 where Z.div does not")
                return ZV(f"{paren(l)} {'/' if isinstance(e.op, ast.FloorDiv) else 'mod'} {paren(r)}")
            ops = {ast.Add: "+", ast.Sub: "-", ast.Mult: "*"}
            if type(e.op) not in ops:
                fail(e, f"operator {type(e.op).__name__} outside the fragment")
            lt = l if isinstance(e.op, (ast.Add, ast.Sub)) and isinstance(e.left, ast.BinOp) and isinstance(e.left.op, (ast.Add, ast.Sub)) else paren(l)
            return ZV(f"{lt} {ops[type(e.op)]} {paren(r)}")
        if isinstance(e, ast.BoolOp):
            return self.boolop(e, env)
        if isinstance(e, ast.Compare):
            return self.compare(e, env)
        if isinstance(e, ast.IfExp):
            return self.ifexp(e, env)
        if isinstance(e, ast.NamedExpr):
            if self.pending is None or self.cond_depth:
                fail(e, "walrus outside an unconditionally evaluated position of an if test")
            val = self.ev(e.value, env)
            g = f"l_{e.target.id}"
            self.pending.append((g, self.z(val, e)))
            env[e.target.id] = ZV(g)
            return env[e.target.id]
        if isinstance(e, ast.Call):
            return self.call(e, env, top)
        fail(e, f"expression {type(e).__name__} outside the fragment")

    def attribute(self, e, env, top):
        if isinstance(e.value, ast.Name) and e.value.id == "self" and isinstance(env.get("self"), SelfV):
            a = e.attr
            if self.init:
                if "self." + a in env:
                    return env["self." + a]
                fail(e, f"self.{a} read in __init__ before it is assigned")
            if a in FIELDS:
                return ZV(f"{FIELDS[a]} v")
            if a == "__class__":
                return CtorV()
            if a in ("seqid", "_seqid", "alphabet"):
                return OpaqueV()
            if a == "seq":
                return SizedV("seq_len v") if self.tr.flavour == "seqview" else OpaqueV()
            r = self.tr.lookup_method(a)
            if r is None:
                fail(e, f"self.{a}: unknown attribute")
            if not self.tr.is_property(r[2]):
                fail(e, f"self.{a} is a method used as a value")
            return self.call_method(a, [], {}, e, top=top)
        if isinstance(e.value, ast.Name) and isinstance(env.get(e.value.id), SliceV) and e.attr in ("start", "stop", "step"):
            return env[e.value.id].parts[e.attr]
        if isinstance(e.value, ast.Name) and e.value.id in self.tr.sources[self.src].aliases:
            mod = self.tr.sources[self.src].aliases[e.value.id]
            if mod not in self.tr.sources:
                fail(e, f"module {mod} is not one of the translated sources")
            if e.attr not in self.tr.sources[mod].funcs:
                fail(e, f"{mod}.{e.attr} is not a function")
            return FuncV(name=e.attr, mod=mod)
        fail(e, f"attribute {ast.unparse(e)} outside the fragment")

    def boolop(self, e, env):
        is_and = isinstance(e.op, ast.And)
        vals = []
        first = True
        try:
            for x in e.values:
                if not first:
                    self.cond_depth += 1
                v = self.ev(x, env)
                if not first:
                    self.cond_depth -= 1
                first = False
                vals.append((x, v))
                if isinstance(v, BV) and v.const is not None and v.const == (not is_and):
                    break           # short circuit: the rest is never evaluated
        finally:
            pass
        if all(isinstance(v, (BV, SelfV)) for _, v in vals):
            terms = []
            for x, v in vals:
                bv = self.b(v, x)
                if bv.const is not None:
                    if bv.const == (not is_and):
                        return BV(const=bv.const) if not terms else BV(f"{(' && ' if is_and else ' || ').join(terms + [bv.t])}")
                    continue
                terms.append(paren(bv.t))
            if not terms:
                return BV(const=is_and)
            return BV((" && " if is_and else " || ").join(terms)) if len(terms) > 1 else BV(terms[0][1:-1] if terms[0].startswith("(") and _balanced(terms[0]) else terms[0])
        # `a or b` on ints: a if a != 0 (and not None) else b
        if not is_and and len(vals) == 2:
            (xa, a), (xb, b) = vals
            bt = self.z(b, xb)
            if isinstance(a, OptV) and a.state == "none":
                return ZV(bt)
            if isinstance(a, OptV) and a.state == "opt":
                return ZV(f"match {a.t} with None => {bt} | Some o_ => if o_ =? 0 then {bt} else o_ end")
            at = self.z(a, xa)
            return ZV(f"if {at} =? 0 then {bt} else {at}")
        fail(e, "and/or on non-boolean operands outside the fragment")

    def compare(self, e, env):
        operands = [e.left] + list(e.comparators)
        # `a is b is ... is None`: all of them are None
        if all(isinstance(o, ast.Is) for o in e.ops) and isinstance(operands[-1], ast.Constant) and operands[-1].value is None and len(e.ops) > 1:
            out = []
            for x in operands[:-1]:
                v = self.ev(x, env)
                if not isinstance(v, OptV) or v.state == "opt":
                    fail(e, "`is` chain on a value that is not a decided optional")
                out.append(v.state == "none")
            return BV(const=all(out))
        terms = []
        vals = []
        for i, x in enumerate(operands):
            if i >= 2:
                self.cond_depth += 1
            try:
                vals.append(self.ev(x, env))
            finally:
                if i >= 2:
                    self.cond_depth -= 1
        for op, a, b, na in zip(e.ops, vals, vals[1:], operands):
            if isinstance(op, (ast.Is, ast.IsNot)):
                other = a if (isinstance(b, OptV) and b.state == "none") else b if (isinstance(a, OptV) and a.state == "none") else None
                if other is None:
                    fail(e, "`is` with something other than None")
                if isinstance(other, OptV) and other.state == "opt":
                    fail(e, "internal: undecided optional in a test")
                isnone = isinstance(other, OptV) and other.state == "none"
                if not isinstance(other, (OptV, ZV)):
                    fail(e, "`is None` on a value that is not an (optional) int")
                terms.append(BV(const=isnone if isinstance(op, ast.Is) else not isnone))
                continue
            a_none = isinstance(a, OptV) and a.state == "none"
            b_none = isinstance(b, OptV) and b.state == "none"
            if isinstance(op, (ast.Eq, ast.NotEq)) and (a_none or b_none):
                same = a_none and b_none
                terms.append(BV(const=same if isinstance(op, ast.Eq) else not same))
                continue
            ops = {ast.Lt: "<?", ast.LtE: "<=?", ast.Gt: ">?", ast.GtE: ">=?", ast.Eq: "=?", ast.NotEq: "=?"}
            if type(op) not in ops:
                fail(e, f"comparison {type(op).__name__} outside the fragment")
            t = BV(f"{paren(self.z(a, e))} {ops[type(op)]} {paren(self.z(b, e))}")
            terms.append(neg(t) if isinstance(op, ast.NotEq) else t)
        live = []
        for t in terms:
            if t.const is False:
                return BV(const=False)
            if t.const is None:
                live.append(paren(t.t))
        if not live:
            return BV(const=True)
        return BV(" && ".join(live)) if len(live) > 1 else BV(live[0][1:-1] if live[0].startswith("(") and _balanced(live[0]) else live[0])

    def ifexp(self, e, env):
        ref = self.find_opt(e.test, env)
        if ref is not None:
            cur = self.get_ref(env, ref)
            g = "l_" + ref[0] + ("__" + ref[1] if ref[1] else "")
            a = self.ifexp(e, self.split_env(env, ref, OptV("none")))
            b = self.ifexp(e, self.split_env(env, ref, OptV("some", g)))
            return self.join2(e, f"match {cur.t} with None => ", a, f" | Some {g} => ", b, " end")
        c = self.b(self.ev(e.test, env), e)
        self.cond_depth += 1
        try:
            if c.const is True:
                return self.ev(e.body, env)
            if c.const is False:
                return self.ev(e.orelse, env)
            a = self.ev(e.body, env)
            b = self.ev(e.orelse, env)
        finally:
            self.cond_depth -= 1
        return self.join2(e, f"if {c.t} then ", a, " else ", b, "")

    def join2(self, node, p0, a, p1, b, p2):
        if isinstance(a, FuncV) and isinstance(b, FuncV):
            return FuncV(cond=(p0, p1, p2), a=a, b=b)
        if isinstance(a, BV) and isinstance(b, BV):
            return BV(f"{p0}{a.t}{p1}{b.t}{p2}")
        zl = lambda v: isinstance(v, ZV) or (isinstance(v, OptV) and v.state == "some")
        tr3 = lambda v: v.t if isinstance(v, TripV) else "(" + ", ".join(self.z(x, node) for x in v.items) + ")"
        if isinstance(a, (TupV, TripV)) and isinstance(b, (TupV, TripV)):
            if any(isinstance(v, TupV) and len(v.items) != 3 for v in (a, b)):
                fail(node, "conditional expression on tuples that are not triples")
            return TripV(f"{p0}{tr3(a)}{p1}{tr3(b)}{p2}")
        if zl(a) and zl(b):
            return ZV(f"{p0}{self.z(a, node)}{p1}{self.z(b, node)}{p2}")
        if isinstance(a, (ZV, OptV)) and isinstance(b, (ZV, OptV)):
            o = lambda v: v.opt_term() if isinstance(v, OptV) else f"(Some {paren(v.t)})"
            return OptV("opt", f"({p0}{o(a)}{p1}{o(b)}{p2})")
        fail(node, "branches of a conditional expression have different kinds of value")

    # ---- calls
    def call(self, e, env, top):
        f = e.func
        if any(k.arg is None for k in e.keywords):
            pass
        if isinstance(f, ast.Name) and f.id in ("abs", "min", "max", "int", "len") and f.id not in env:
            if e.keywords:
                fail(e, "keywords on a builtin")
            if f.id == "len":
                if len(e.args) != 1:
                    fail(e, "len arity")
                a = self.ev(e.args[0], env)
                if isinstance(a, SelfV):
                    if self.init:
                        fail(e, "len(self) inside __init__")
                    return self.call_method("__len__", [], {}, e)
                if isinstance(a, SizedV):
                    return ZV(a.lent)
                fail(e, "len of something that is neither self nor a str parameter")
            args = [self.z(self.ev(a, env), e) for a in e.args]
            if f.id == "abs" and len(args) == 1:
                return ZV(f"Z.abs {paren(args[0])}")
            if f.id == "int" and len(args) == 1:
                return ZV(args[0])
            if f.id in ("min", "max") and len(args) == 2:
                return ZV(f"Z.{f.id} {paren(args[0])} {paren(args[1])}")
            fail(e, f"{f.id} with {len(args)} arguments")
        if isinstance(f, ast.Name) and f.id in self.assume and f.id not in env:
            return BV(const=self.assume[f.id])
        fv = None
        if isinstance(f, ast.Attribute) and isinstance(f.value, ast.Name) and f.value.id == "self" and isinstance(env.get("self"), SelfV):
            if f.attr == "__class__":
                return self.construct(e, env, top)
            r = self.tr.lookup_method(f.attr)
            if r is None:
                fail(e, f"self.{f.attr}(): unknown method")
            if self.tr.is_property(r[2]):
                fail(e, f"self.{f.attr} is a property, not callable here")
            args = [self.ev(a, env) for a in e.args]
            kws = {}
            star = None
            for k in e.keywords:
                if k.arg is None:
                    star = self.ev(k.value, env)
                else:
                    kws[k.arg] = self.ev(k.value, env)
            return self.call_method(f.attr, args, kws, e, top=top, star=star)
        fv = self.ev(f, env)
        if isinstance(fv, FuncV):
            if e.keywords:
                fail(e, "keywords on a kernel function call")
            args = [self.ev(a, env) for a in e.args]
            return self.call_func(fv, args, e)
        fail(e, f"call of {ast.unparse(f)} outside the fragment")

    def arg_terms(self, info, args, kws, node):
        params = info["params"]
        if len(args) > len(params):
            fail(node, "too many arguments")
        bound = {}
        for (pname, ty, d, fixed), a in zip(params, args):
            bound[pname] = a
        for kname, a in kws.items():
            if kname in bound or kname not in [p[0] for p in params]:
                fail(node, f"unexpected keyword {kname}")
            bound[kname] = a
        terms = []
        for pname, ty, d, fixed in params:
            if pname not in bound:
                if d is None and not (ty == "Opaque"):
                    fail(node, f"missing argument {pname}")
                val = self.ev(d, {}) if d is not None else OpaqueV()
            else:
                val = bound[pname]
            if fixed:
                want = info.get("fixed", {}).get(pname)
                if not (isinstance(val, BV) and val.const is not None and val.const == want):
                    fail(node, f"argument {pname} must be the constant {want}: only that case is translated")
                continue
            if ty == "Z":
                terms.append(paren(self.z(val, node)))
            elif ty == "B":
                terms.append(paren(self.b(val, node).t))
            elif ty == "OptZ":
                if isinstance(val, ZV):
                    terms.append(f"(Some {paren(val.t)})")
                elif isinstance(val, OptV):
                    terms.append(val.opt_term())
                else:
                    fail(node, f"argument {pname}: expected an optional int")
            elif ty == "Slice":
                if not isinstance(val, SliceV):
                    fail(node, f"argument {pname}: expected the slice object")
                terms += [val.parts[p].opt_term() for p in ("start", "stop", "step")]
            elif ty == "Sized":
                if not isinstance(val, SizedV):
                    fail(node, f"argument {pname}: expected a str whose length is known")
                terms.append(paren(val.lent))
            elif ty == "Opaque":
                pass
            else:
                fail(node, f"parameter type {ty}")
        return terms

    def call_method(self, name, args, kws, node, top=False, star=None):
        info = self.tr.need_method(name)
        if name == "_get_init_kwargs":
            return info["dict"]
        info = dict(info, fixed=SPEC.get(name, (0, 0, 0, {}))[3])
        if info.get("kwarg"):
            if not (isinstance(star, DictV) and star.origin == "init_kwargs"):
                fail(node, f"{name} must be passed **kwargs = self._get_init_kwargs()")
        elif star is not None:
            fail(node, f"**kwargs passed to {name}, which has no such parameter")
        if info["uses_self"] and self.init:
            fail(node, f"self.{name} used inside __init__ reads the object under construction")
        terms = self.arg_terms(info, args, kws, node)
        t = " ".join([info["name"]] + (["v"] if info["uses_self"] else []) + terms)
        if info["is_res"]:
            if not top:
                fail(node, f"self.{name} may raise: only allowed as a whole right-hand side or returned value")
            return ResV(t, info["ret"])
        if info["ret"] == "Z":
            return ZV(t)
        if info["ret"] == "B":
            return BV(t)
        if info["ret"] == "ZZZ":
            return TripV(t)
        if info["ret"] == "view":
            return ViewV(t)
        fail(node, f"self.{name}: result kind {info['ret']} in an expression")

    def call_func(self, fv, args, node):
        if fv.cond is not None:
            p0, p1, p2 = fv.cond
            a = self.call_func(fv.a, args, node)
            b = self.call_func(fv.b, args, node)
            if not (isinstance(a, TripV) and isinstance(b, TripV)):
                fail(node, "choice between functions of different result kinds")
            return TripV(f"{p0}{a.t}{p1}{b.t}{p2}")
        info = self.tr.need_func(fv.mod, fv.name)
        if info["is_res"]:
            fail(node, f"{fv.name} may raise: outside the fragment for module-level functions")
        terms = self.arg_terms(info, args, {}, node)
        t = " ".join([info["name"]] + terms)
        return TripV(t) if info["ret"] == "ZZZ" else ZV(t)

    def construct(self, e, env, top):
        if e.args:
            fail(e, "positional arguments to the constructor")
        if not top:
            fail(e, "a construction may raise: only allowed as a returned value")
        kws = {}
        for k in e.keywords:
            if k.arg is None:
                d = self.ev(k.value, env)
                if not isinstance(d, DictV):
                    fail(e, "** of something that is not the init-kwargs dict")
                for kk, vv in d.items.items():
                    if kk in kws:
                        fail(e, f"duplicate keyword {kk}")
                    kws[kk] = vv
            else:
                if k.arg in kws:
                    fail(e, f"duplicate keyword {k.arg}")
                kws[k.arg] = self.ev(k.value, env)
        info = self.tr.need_method("__init__")
        terms = self.arg_terms(info, [], kws, e)
        return ResV(" ".join(["init"] + terms), "view")


def self_name(info):
    return info.get("name")


# ------------------------------------------------------------------ driver

ROOTS = ["__len__", "is_reversed", "parent_start", "parent_stop", "_get_index", "_zero_slice", "copy", "absolute_position",
         "relative_position", "_get_forward_slice_from_forward_seqview_", "_get_forward_slice_from_reverse_seqview_",
         "_get_reverse_slice_from_forward_seqview_", "_get_reverse_slice_from_reverse_seqview_", "_get_slice", "_get_reverse_slice"]


def generate(repo_src: str):
    core = os.path.join(repo_src, "cogent3", "core")
    sources = {k: Source(k, os.path.join(core, k + ".py")) for k in ("sequence", "new_sequence", "new_alignment")}
    programs = [
        ("Old", [("sequence", "SeqView"), ("sequence", "SliceRecordABC")], "seqview", "sequence"),
        ("New", [("new_sequence", "SeqView"), ("new_sequence", "SeqViewABC"), ("new_sequence", "SliceRecordABC")], "seqview", "new_sequence"),
        ("Sdv", [("new_alignment", "SeqDataView"), ("new_sequence", "SeqViewABC"), ("new_sequence", "SliceRecordABC")], "sdv", "new_sequence"),
    ]
    # the declared bases must be what the method resolution above assumes
    for mod, mro, _, _ in programs:
        src, cls = mro[0]
        bases = [ast.unparse(b).split(".")[-1] for b in sources[src].classes.get(cls, ast.ClassDef(bases=[])).bases] if cls in sources[src].classes else None
        if bases is None:
            raise TranslatorError(f"class {cls} not found in {sources[src].path}")
        want = [c for _, c in mro[1:]]
        if bases != want:
            raise TranslatorError(f"{cls} now derives from {bases}, expected {want}: method resolution must be re-examined")
    out = ["(* GENERATED on every run by harness/translators/py2gallina.py from the current text of",
           "   cogent3/core/sequence.py, new_sequence.py, new_alignment.py; do not edit, never committed *)",
           "From CG3 Require Import Lib.PyZ Lib.Val Lib.PySlice Model.View.", ""]
    records = []
    for mod, mro, flavour, fmod in programs:
        tr = Tr(mod, sources, mro, flavour)
        tr.need_func(fmod, "_input_vals_pos_step")
        tr.need_func(fmod, "_input_vals_neg_step")
        tr.need_method("__init__")
        for r in ROOTS:
            tr.need_method(r)
        tr.need_method("__getitem__", "getitem_int")
        tr.need_method("__getitem__", "getitem_slice")
        out.append(f"Module {mod}.\n")
        out += tr.out
        out.append(f"End {mod}.\n")
        records += tr.records
    return "\n".join(out), records


def main(argv):
    repo = os.environ.get("VERIF_REPO", "/repo")
    if "--repo" in argv:
        repo = argv[argv.index("--repo") + 1]
    rec_path = None
    if "--records" in argv:
        rec_path = argv[argv.index("--records") + 1]
    try:
        text, records = generate(os.path.join(repo, "src"))
    except TranslatorError as e:
        sys.stderr.write(f"TRANSLATOR-ERROR: {e}\n")
        return 3
    except RecursionError:
        sys.stderr.write("TRANSLATOR-ERROR: source too deeply nested for the translator\n")
        return 3
    if rec_path:
        with open(rec_path, "w") as f:
            json.dump(records, f, indent=1)
    sys.stdout.write(text)
    return 0


if __name__ == "__main__":
    sys.exit(main(sys.argv[1:]))
