"""Translator for C12: regenerate coq/gen/GCTables.v from the CURRENT source.

Runs under the implementation interpreter (PYTHONPATH=/repo/src) and dumps, as
Gallina literals,

* the genetic-code tables of both implementations
    old  cogent3.core.genetic_code.NcbiGeneticCodeData   (read back through the
         `codons` dict every lookup goes through, in `_codons` order)
    new  cogent3.core.new_genetic_code.code_mapping      (the literal tuples)
         + the two 66-entry byte tables `_translate_plus/_minus` the objects
           built from them actually translate with (an extra tie: the model's
           converter is proved equal to them),
* the monomer order / gap / missing symbols of the codon alphabet,
* the IUPAC ambiguity and complement tables of both moltype implementations
  (old: `MolType.ambiguities`, `.complements`, `.inverse_degenerates` in dict
  order; new: `MolType.ambiguities`, `degen_gapped_alphabet`, the byte table
  `_complement` translates with),
* `ncbi_codes`: the frozen NCBI reference /verif/spec/ncbi_genetic_codes.json,
* `comp_dna` / `comp_rna`: the new-style complement tables under a short name
  (also used by the sequence-view property).

Fail-closed: every structural assumption the hand-written model makes about
these objects is checked here; any surprise raises TranslatorError and the
check reports the tie as broken instead of guessing.

usage:  gc_tables.py            print GCTables.v on stdout
        gc_tables.py --freeze   print a fresh reference JSON (used once, on the pinned tree)
"""
import itertools
import json
import os
import sys
import warnings

warnings.filterwarnings("ignore")

HERE = os.path.dirname(os.path.abspath(__file__))
SPEC_JSON = os.path.join(os.path.dirname(os.path.dirname(HERE)), "spec", "ncbi_genetic_codes.json")


class TranslatorError(Exception):
    pass


def need(cond, msg):
    if not cond:
        raise TranslatorError(msg)


def zs(s) -> str:
    """str / bytes / sequence of 1-char strings -> Coq list Z literal"""
    if isinstance(s, (bytes, bytearray)):
        vals = list(s)
    else:
        vals = []
        for ch in s:
            need(isinstance(ch, str) and len(ch) == 1, f"expected single characters, got {ch!r}")
            vals.append(ord(ch))
    need(all(0 <= v < 256 for v in vals), f"non-byte symbol in {s!r}")
    return "[" + ";".join(str(v) for v in vals) + "]"


def z1(ch) -> str:
    need(isinstance(ch, str) and len(ch) == 1 and ord(ch) < 256, f"expected one character, got {ch!r}")
    return str(ord(ch))


def codes_literal(name, rows, comment):
    out = [f"(* {comment} *)", f"Definition {name} : list (Z * list Z * list Z) := ["]
    out.append(";\n".join(f"  ({int(i)}, {zs(aa)},\n      {zs(st)})" for i, aa, st in rows))
    out.append("].")
    return "\n".join(out)


def tables_literal(name, rows, comment):
    out = [f"(* {comment} *)", f"Definition {name} : list (Z * list Z) := ["]
    out.append(";\n".join(f"  ({int(i)}, {zs(t)})" for i, t in rows))
    out.append("].")
    return "\n".join(out)


def assoc_sets(name, items, comment):
    out = [f"(* {comment} *)", f"Definition {name} : list (Z * list Z) :=", "  ["]
    out.append(";\n".join(f"   ({z1(k)}, {zs(v)})" for k, v in items))
    out.append("  ].")
    return "\n".join(out)


def assoc_pairs(name, items, comment):
    out = [f"(* {comment} *)", f"Definition {name} : list (Z * Z) :=", "  ["]
    out.append("; ".join(f"({z1(k)},{z1(v)})" for k, v in items))
    out.append("  ].")
    return "\n".join(out)


# ------------------------------------------------------------------ genetic codes

def old_codes():
    from cogent3.core import genetic_code as og

    need(isinstance(og.NcbiGeneticCodeData, list) and og.NcbiGeneticCodeData, "NcbiGeneticCodeData is not a non-empty list")
    bases = og.GeneticCode._nt
    need(isinstance(bases, str) and len(bases) == 4 and len(set(bases)) == 4, f"old GeneticCode._nt = {bases!r}")
    order = tuple("".join(p) for p in itertools.product(bases, repeat=3))
    need(tuple(og.GeneticCode._codons) == order, "old GeneticCode._codons is not product(_nt, _nt, _nt)")
    rows = []
    for gc in og.NcbiGeneticCodeData:
        need(type(gc) is og.GeneticCode, "foreign object in NcbiGeneticCodeData")
        need(isinstance(gc.ID, int), f"old code id {gc.ID!r} is not an int")
        need(isinstance(gc.codons, dict) and tuple(gc.codons) == order, f"old code {gc.ID}: codons dict is not in _codons order")
        aa = "".join(gc.codons[c] for c in order)  # what __getitem__ reads
        need(len(aa) == 64, f"old code {gc.ID}: codon values are not single characters")
        st = gc.start_codon_sequence
        need(isinstance(st, str) and len(st) == 64, f"old code {gc.ID}: start_codon_sequence")
        need(og.GeneticCodes.get(gc.ID) is gc and og.GeneticCodes.get(str(gc.ID)) is gc, f"old code {gc.ID}: GeneticCodes registry does not return it")
        rows.append((gc.ID, aa, st))
    ids = [r[0] for r in rows]
    need(len(set(ids)) == len(ids), "duplicate ids among the old codes")
    need(sorted(k for k in og.GeneticCodes if isinstance(k, int)) == sorted(ids), "old GeneticCodes registry has other ids")
    return bases, rows


def new_codes():
    from cogent3.core import new_genetic_code as ng

    need(isinstance(ng.code_mapping, tuple) and ng.code_mapping, "code_mapping is not a non-empty tuple")
    need(tuple(ng._mapping_cols) == ("ncbi_code_sequence", "ID", "name", "ncbi_start_codon_map"), "unexpected _mapping_cols")
    rows, plus, minus = [], [], []
    monomers = None
    for m in ng.code_mapping:
        need(isinstance(m, tuple) and len(m) == 4, "code_mapping entry is not a 4-tuple")
        aa, cid, _name, st = m
        need(isinstance(cid, int) and isinstance(aa, str) and isinstance(st, str) and len(aa) == 64 and len(st) == 64,
             f"new code {cid!r}: malformed literal")
        gc = ng._CODES.get(cid)
        need(type(gc) is ng.GeneticCode and gc.ID == cid and ng.get_code(cid) is gc, f"new code {cid}: registry does not return it")
        alpha = gc.codons
        mono = tuple(alpha.monomers)
        if monomers is None:
            monomers = mono
            need(len(mono) == 6 and alpha.monomers.num_canonical == 4 and alpha.monomers.gap_index == 4
                 and alpha.monomers.missing_index == 5, f"codon alphabet monomers {mono!r}")
            need(alpha.k == 3 and alpha.gap_index == 64 and alpha.missing_index == 65 and len(alpha) == 66,
                 "codon alphabet is not 64 codons + gap + missing")
            need([int(c) for c in alpha._coeffs] == [16, 4, 1], f"kmer coefficients {alpha._coeffs!r}")
        need(mono == monomers, "codes use different codon alphabets")
        canon = mono[:4]
        words = tuple("".join(p) for p in itertools.product(canon, repeat=3)) + (mono[4] * 3, mono[5] * 3)
        need(tuple(alpha) == words, f"new code {cid}: codon alphabet is not product order + gap + missing")
        full = aa + "-X"
        need(all(gc._codon_to_aa[w] == a for w, a in zip(words, full)) and len(gc._codon_to_aa) == 66,
             f"new code {cid}: _codon_to_aa differs from the literal")
        for conv, acc in ((gc._translate_plus, plus), (gc._translate_minus, minus)):
            tbl = bytes(conv._table)
            need(len(tbl) == 256 and conv._delete == b"", f"new code {cid}: converter table shape")
            acc.append((cid, tbl[:66]))  # k-mer indices are 0..65; the rest of the table is never addressed
        rows.append((cid, aa, st))
    ids = [r[0] for r in rows]
    need(len(set(ids)) == len(ids), "duplicate ids among the new codes")
    need(sorted(k for k in ng._CODES if isinstance(k, int)) == sorted(ids), "new _CODES registry has other ids")
    return monomers, rows, plus, minus


def ncbi_reference():
    with open(SPEC_JSON) as f:
        ref = json.load(f)
    rows = [(c["id"], c["aa"], c["starts"]) for c in ref["codes"]]
    need(all(len(a) == 64 and len(s) == 64 for _, a, s in rows), "frozen reference is malformed")
    for k in ("base1", "base2", "base3"):
        need(len(ref[k]) == 64, "frozen reference is malformed")
    return ref, rows


# ------------------------------------------------------------------ IUPAC tables

def old_moltype_tables(mt, label):
    need(mt.label == label, f"old moltype label {mt.label!r}")
    alpha = tuple(mt.alphabet)
    need(len(alpha) == 4 and all(isinstance(c, str) and len(c) == 1 for c in alpha), f"old {label} alphabet {alpha!r}")
    need(mt.gap == "-" and mt.missing == "?", f"old {label}: gap/missing symbols {mt.gap!r} {mt.missing!r}")
    ambig = [(k, tuple(v)) for k, v in mt.ambiguities.items()]
    comp = list(mt.complements.items())
    table = mt.ComplementTable
    need(isinstance(table, dict) and table == {ord(k): ord(v) for k, v in comp}, f"old {label}: ComplementTable is not maketrans(complements)")
    inv = []
    for k, v in mt.inverse_degenerates.items():
        need(isinstance(k, frozenset), f"old {label}: inverse_degenerates key {k!r}")
        inv.append((v, "".join(sorted(k))))
    return dict(alpha=alpha, ambig=ambig, comp=comp, inv=inv)


def new_moltype_tables(mt, label):
    need(mt.name == label, f"new moltype name {mt.name!r}")
    alpha = tuple(mt.alphabet)
    need(len(alpha) == 4, f"new {label} alphabet {alpha!r}")
    need(mt.gap == "-" and mt.missing == "?", f"new {label}: gap/missing symbols")
    dga = tuple(mt.degen_gapped_alphabet)
    need(dga[:4] == alpha and dga[4] == mt.gap and dga[-1] == mt.missing, f"new {label}: degen_gapped_alphabet layout {dga!r}")
    ambig = [(k, "".join(sorted(v))) for k, v in mt.ambiguities.items()]
    need(tuple(k for k, _ in ambig) == dga[5:-1], f"new {label}: ambiguity symbols are not the degenerate part of the alphabet")
    tbl = bytes(mt._complement._table)
    need(len(tbl) == 256 and mt._complement._delete == b"", f"new {label}: complement table shape")
    dom = {ord(c) for c in dga}
    need(all(tbl[i] == i for i in range(256) if i not in dom), f"new {label}: complement table maps symbols outside the alphabet")
    comp = [(c, chr(tbl[ord(c)])) for c in dga]
    return dict(alpha=alpha, dga=dga, ambig=ambig, comp=comp)


def old_protein_tables(mt, label):
    """the protein moltype old Sequence.get_translation encodes a set of amino acids with
    (MolType._what_ambiguity iterates `ambiguities` in dict order)"""
    need(mt.label == label, f"old moltype label {mt.label!r}")
    need(mt.gap == "-" and mt.missing == "?", f"old {label}: gap/missing symbols {mt.gap!r} {mt.missing!r}")
    alpha = tuple(mt.alphabet)
    need(all(isinstance(c, str) and len(c) == 1 for c in alpha), f"old {label} alphabet {alpha!r}")
    ambig = [(k, tuple(v)) for k, v in mt.ambiguities.items()]
    return dict(alpha=alpha, ambig=ambig)


# ------------------------------------------------------------------ output

def generate() -> str:
    from cogent3.core import moltype as om
    from cogent3.core import new_moltype as nm

    old_bases, old_rows = old_codes()
    monomers, new_rows, plus, minus = new_codes()
    ref, ncbi_rows = ncbi_reference()
    o_dna, o_rna = old_moltype_tables(om.DNA, "dna"), old_moltype_tables(om.RNA, "rna")
    n_dna, n_rna = new_moltype_tables(nm.DNA, "dna"), new_moltype_tables(nm.RNA, "rna")
    need(tuple(monomers[:4]) == n_dna["alpha"], "codon alphabet monomers differ from new DNA alphabet")
    o_prot, o_prot_stop = old_protein_tables(om.PROTEIN, "protein"), old_protein_tables(om.PROTEIN_WITH_STOP, "protein_with_stop")

    out = ["(* GENERATED on every run by harness/translators/gc_tables.py from the table objects of the",
           "   current cogent3 source (genetic codes, IUPAC ambiguity / complement tables) and from the",
           "   frozen NCBI reference spec/ncbi_genetic_codes.json; do not edit *)",
           "From Coq Require Import ZArith List.", "Import ListNotations.", "Open Scope Z_scope.", ""]
    out.append(f"(* genetic_code._bases / GeneticCode._nt *)\nDefinition old_bases : list Z := {zs(old_bases)}.")
    out.append(f"(* monomers of the codon alphabet of new_genetic_code.GeneticCode: 4 canonical, gap, missing *)\n"
               f"Definition new_monomers : list Z := {zs(monomers)}.")
    out.append(codes_literal("old_codes", old_rows, "genetic_code.NcbiGeneticCodeData: (ID, aa per codon in _codons order, start_codon_sequence)"))
    out.append(codes_literal("new_codes", new_rows, "new_genetic_code.code_mapping: (ID, ncbi_code_sequence, ncbi_start_codon_map)"))
    out.append(tables_literal("new_plus_tables", plus, "first 66 bytes of GeneticCode._translate_plus._table per code"))
    out.append(tables_literal("new_minus_tables", minus, "first 66 bytes of GeneticCode._translate_minus._table per code"))
    out.append(f"(* frozen NCBI reference ({ref['source']}) *)")
    out.append(f"Definition ncbi_base1 : list Z := {zs(ref['base1'])}.")
    out.append(f"Definition ncbi_base2 : list Z := {zs(ref['base2'])}.")
    out.append(f"Definition ncbi_base3 : list Z := {zs(ref['base3'])}.")
    out.append(codes_literal("ncbi_codes", ncbi_rows, "spec/ncbi_genetic_codes.json: (id, ncbieaa, sncbieaa)"))
    for lab, o, n in (("dna", o_dna, n_dna), ("rna", o_rna, n_rna)):
        out.append(f"Definition {lab}_alpha_old : list Z := {zs(o['alpha'])}.")
        out.append(assoc_sets(f"{lab}_ambig_old", o["ambig"], f"moltype.{lab.upper()}.ambiguities in dict order"))
        out.append(assoc_pairs(f"{lab}_comp_old", o["comp"], f"moltype.{lab.upper()}.complements (the str.translate table)"))
        out.append(assoc_sets(f"{lab}_invdeg_old", o["inv"], f"moltype.{lab.upper()}.inverse_degenerates in dict order: (symbol, sorted member set)"))
        out.append(f"Definition {lab}_alpha_new : list Z := {zs(n['alpha'])}.")
        out.append(f"(* new_moltype.{lab.upper()}.degen_gapped_alphabet *)\nDefinition {lab}_dga_new : list Z := {zs(n['dga'])}.")
        out.append(assoc_sets(f"{lab}_ambig_new", n["ambig"], f"new_moltype.{lab.upper()}.ambiguities in dict order (members sorted)"))
        out.append(assoc_pairs(f"{lab}_comp_new", n["comp"], f"bytes table new_moltype.{lab.upper()}._complement translates with, on degen_gapped_alphabet (identity elsewhere)"))
    for lab, o in (("prot", o_prot), ("prot_stop", o_prot_stop)):
        out.append(f"Definition {lab}_alpha_old : list Z := {zs(o['alpha'])}.")
        out.append(assoc_sets(f"{lab}_ambig_old", o["ambig"], f"moltype.{lab.upper()} (old) .ambiguities in dict order"))
    out.append("(* short names (also used by the sequence-view property) *)")
    out.append("Definition comp_dna : list (Z * Z) := dna_comp_new.")
    out.append("Definition comp_rna : list (Z * Z) := rna_comp_new.")
    out.append("Definition gap_sym : Z := 45.\nDefinition missing_sym : Z := 63.")
    return "\n\n".join(out) + "\n"


def freeze() -> str:
    """reference JSON from the current tree; refuses unless both implementations agree"""
    _, old_rows = old_codes()
    _, new_rows, _, _ = new_codes()
    need(old_rows == new_rows, "old and new tables differ: refusing to freeze a reference")
    from cogent3.core import new_genetic_code as ng

    names = {m[1]: m[2] for m in ng.code_mapping}
    b = "TCAG"
    ref = {
        "source": "NCBI genetic codes gc.prt (ncbieaa / sncbieaa, codon order Base1-3 as published), copied once from the pinned cogent3 tree after checking old == new",
        "base1": "".join(x for x in b for _ in range(16)),
        "base2": "".join(x for _ in range(4) for x in b for _ in range(4)),
        "base3": b * 16,
        "codes": [{"id": i, "name": names[i], "aa": aa, "starts": st} for i, aa, st in new_rows],
    }
    return json.dumps(ref, indent=1) + "\n"


if __name__ == "__main__":
    try:
        sys.stdout.write(freeze() if "--freeze" in sys.argv else generate())
    except TranslatorError as e:
        sys.stderr.write(f"TRANSLATOR-ERROR: {e}\n")
        sys.exit(3)
