"""Translator for C17: regenerate the coordinate-window clauses from the SQL
text the *current* source emits.

`cogent3.core.annotation_db._matching_conditions` formats the window bounds
into the WHERE clause with f-strings, so calling it with the symbolic bounds
QS / QE yields the exact boolean expression sqlite will evaluate.  That text
is parsed with a tiny SQL-boolean grammar (parentheses, AND, OR, comparisons
between `start`, `stop`, QS, QE) and re-emitted as Gallina boolean functions.
Fail-closed: anything outside the grammar raises.

Runs under the implementation interpreter (PYTHONPATH=/repo/src); prints Coq.
"""
import re
import sys


class TranslatorError(Exception):
    pass


TOK = re.compile(r"\s*(\(|\)|<=|>=|<>|!=|<|>|=|AND\b|OR\b|NOT\b|[A-Za-z_][A-Za-z_0-9]*|-?\d+)", re.I)


def tokens(s):
    pos, out = 0, []
    while pos < len(s):
        if s[pos:].strip() == "":
            break
        m = TOK.match(s, pos)
        if not m:
            raise TranslatorError(f"unrecognised SQL at {s[pos:pos+30]!r}")
        out.append(m.group(1))
        pos = m.end()
    return out


class P:
    def __init__(self, toks, names):
        self.t, self.i, self.names = toks, 0, names

    def peek(self):
        return self.t[self.i].upper() if self.i < len(self.t) else None

    def next(self):
        t = self.t[self.i]
        self.i += 1
        return t

    def expr(self):
        l = self.conj()
        while self.peek() == "OR":
            self.next()
            r = self.conj()
            l = f"({l} || {r})"
        return l

    def conj(self):
        l = self.atom()
        while self.peek() == "AND":
            self.next()
            r = self.atom()
            l = f"({l} && {r})"
        return l

    def atom(self):
        if self.peek() == "NOT":
            self.next()
            return f"(negb {self.atom()})"
        if self.peek() == "(":
            self.next()
            e = self.expr()
            if self.next() != ")":
                raise TranslatorError("expected )")
            return e
        a = self.term()
        op = self.next()
        b = self.term()
        ops = {"<": "<?", "<=": "<=?", ">": ">?", ">=": ">=?", "=": "=?"}
        if op in ("<>", "!="):
            return f"(negb ({a} =? {b}))"
        if op not in ops:
            raise TranslatorError(f"unsupported operator {op!r}")
        return f"({a} {ops[op]} {b})"

    def term(self):
        t = self.next()
        if re.fullmatch(r"-?\d+", t):
            return f"({t})"
        if t not in self.names:
            raise TranslatorError(f"unknown identifier {t!r} in window clause")
        return self.names[t]


def to_gallina(sql: str, names: dict) -> str:
    p = P(tokens(sql), names)
    e = p.expr()
    if p.i != len(p.t):
        raise TranslatorError(f"trailing tokens in {sql!r}")
    return e


def generate() -> str:
    from cogent3.core import annotation_db as adb

    names = {"start": "fs", "stop": "fe", "QS": "qs", "QE": "qe"}

    def clause(**kw):
        allow_partial = kw.pop("allow_partial", True)
        sql, vals = adb._matching_conditions(dict(kw), allow_partial=allow_partial)
        if vals not in ((), None, []):
            raise TranslatorError(f"window clause carries bound values {vals!r}")
        return sql

    out = ["(* GENERATED on every run by harness/translators/sql_clause.py from the SQL text",
           "   emitted by cogent3.core.annotation_db._matching_conditions; do not edit *)",
           "From Coq Require Import ZArith Bool.", "Open Scope Z_scope.", "Open Scope bool_scope.", ""]
    both_p = clause(start="QS", stop="QE", allow_partial=True)
    both_w = clause(start="QS", stop="QE", allow_partial=False)
    only_s_p = clause(start="QS", allow_partial=True)
    only_s_w = clause(start="QS", allow_partial=False)
    only_e_p = clause(stop="QE", allow_partial=True)
    only_e_w = clause(stop="QE", allow_partial=False)
    none = clause()
    if none.strip():
        raise TranslatorError(f"no-window query produced a clause: {none!r}")
    if only_s_p != only_s_w or only_e_p != only_e_w:
        raise TranslatorError("single-bound clause depends on allow_partial; model has one function per bound")
    # the window clause must be inert text when other conditions are present
    sql2, vals2 = adb._matching_conditions({"name": "x", "start": "QS", "stop": "QE"}, allow_partial=True)
    if sql2 != f"name = ? AND {both_p}" or tuple(vals2) != ("x",):
        raise TranslatorError(f"unexpected combination of conditions: {sql2!r} {vals2!r}")
    for nm, sql, args in [
        ("gen_partial", both_p, "(fs fe qs qe : Z)"),
        ("gen_within", both_w, "(fs fe qs qe : Z)"),
        ("gen_start_only", only_s_p, "(fs fe qs : Z)"),
        ("gen_stop_only", only_e_p, "(fs fe qe : Z)"),
    ]:
        out.append(f"(* SQL: {sql} *)")
        out.append(f"Definition {nm} {args} : bool :=\n  {to_gallina(sql, names)}.")
        out.append("")
    return "\n".join(out)


if __name__ == "__main__":
    try:
        sys.stdout.write(generate())
    except TranslatorError as e:
        sys.stderr.write(f"TRANSLATOR-ERROR: {e}\n")
        sys.exit(3)
