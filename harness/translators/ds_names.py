"""Translator for C13: regenerate coq/gen/DsNamesGen.v from the CURRENT text of the
identifier / file-name computations of the two data stores

    src/cogent3/app/data_store.py         DataStoreDirectory.__contains__, _write, drop_not_completed, md5
    src/cogent3/app/sqlite_data_store.py  DataStoreSqlite.write, write_not_completed, write_log

Pure `ast` (nothing is imported or executed).  The output holds one Gallina definition per
name computation, over the code-point-list string functions of Lib/Chars.v and Lib/PyStr.v;
Proofs/DsNamesEq.v proves each of them equal to the hand-written function of
Model/DataStore.v / Model/SqlStore.v (variant `repaired`).

What is extracted (everything is found structurally; a missing / duplicated anchor aborts):

  __contains__        the argument of `super().__contains__(...)`                         -> contains_key
  _write              the last component of the path of the 1st `open_(...)`, and `cmp`    -> write_name
                      the last component of the path of the 2nd `open_(...)` (under the
                      md5 table), as a function of the written name and `cmp`             -> md5_write_name
                      `unique_id=` of the DataMember built from `Path(<table>) / <name>`  -> nc_member_id
  drop_not_completed  `unique_id` on entry of the `for m in ...not_completed` loop         -> drop_pattern
                      the test of the `if ...: continue` of that loop                     -> drop_skip
                      the paths of the two `.unlink()` calls of that loop                 -> drop_file, drop_md5_file
  md5                 the last component of the md5-table path the `return` reads         -> md5_lookup_name
  sqlite write*       the `unique_id=` handed to `super().write*(...)`                     -> sq_write_id, sq_write_nc_id, sq_write_log_id

The accepted fragment (anything else that can reach one of the extracted values raises
TranslatorError = the tie is reported broken, nothing is guessed):

  expressions  str literals, None, names, `self.suffix`, `<loop var>.unique_id`, module-level str constants
               (also imported from data_store), f-strings of str values, conditional expressions,
               == != on str / optional str, `is None` / `is not None`, and / or / not with Python truthiness
               of str, optional str and bool,
               str methods replace endswith startswith rstrip lstrip strip (one argument) removesuffix
               removeprefix lower, `x.split(<1 char>)[0]` / `[-1]`,
               Path(x), Path(x).name / .stem / .suffix, `<path> / x`, str(<path built from a str>),
               re.sub with the two pattern shapes  rf"[.]{re.escape(E)}(?=[.]|$)"  and  rf"[.](A|B|..)$"
               (alternatives: plain words or {E}), `<module-level re.compile(r"\\.(a|b)$")>.search(x)`,
               get_format_suffixes(x)  (external: its text is pinned by hash, read as Model.DataStore.get_format_suffixes)
  statements   assignment, tuple unpacking of get_format_suffixes, if / elif / else (merged into conditional
               expressions; a branch that always leaves is dropped), for over the not-completed members,
               with open_(...), expression statements, return / raise / continue / assert

Statements that cannot influence an extracted value are skipped; a name assigned by something outside the
fragment becomes `opaque` and aborts the translation only if an extracted value depends on it.

Conventions that are part of the trusted reading (stated in the evidence):
  * str = list of code points; `if s` on a str is `s != ""`;
  * a joined path component is non-empty, relative and the left operand has no trailing '/':
    `(p / x).name` is `Path(x).name`, `str(Path(a) / x)` is a + "/" + x;
  * pathlib .name/.stem/.suffix as in Lib/Chars.v (Python <= 3.13, names without trailing '/', no '.' / '..' parts);
  * regular expressions: see Lib/PyStr.v (no newline in identifiers; unescaped alternatives are plain text);
  * get_format_suffixes (cogent3/util/io.py) is not translated: the hash of its text and of `_wout_period` is pinned.

usage: ds_names.py [--repo DIR] [--records FILE]     prints DsNamesGen.v on stdout
"""
from __future__ import annotations

import ast
import hashlib
import json
import os
import re
import sys

# sha1 of ast.dump (docstring removed) of cogent3.util.io.get_format_suffixes / of the `_wout_period` assignment
PINNED = {
    "get_format_suffixes": "0843d4a2f97bb1670d95bd198f01e8ac3c1f9bcd",
    "_wout_period": "f6877bb21aa3860d6c207cde3da717b6a7a29100",
}


class TranslatorError(Exception):
    pass


def fail(node, msg):
    where = f"line {getattr(node, 'lineno', '?')}" if node is not None else ""
    raise TranslatorError(f"{msg} ({where})" if where else msg)


def zstr(s: str) -> str:
    return "[" + ";".join(str(ord(c)) for c in s) + "]"


class V:
    """a translated value: ty in str | optstr | bool | path | pair | none | opaque | member"""

    def __init__(self, ty, t="", syms=(), parent=None, why=""):
        self.ty, self.t, self.syms, self.parent, self.why = ty, t, frozenset(syms), parent, why

    def __repr__(self):
        return f"V({self.ty},{self.t})"


def paren(t):
    return t if re.fullmatch(r"[\w.']+|\[[^\]]*\]|\(.*\)", t) and _balanced(t) else f"({t})"


def _balanced(t):
    if not t.startswith("("):
        return True
    d = 0
    for i, c in enumerate(t):
        d += c == "("
        d -= c == ")"
        if d == 0 and i < len(t) - 1:
            return False
    return True


def S(t, *vs):
    syms = set()
    for v in vs:
        syms |= v.syms
    return V("str", t, syms)


def B(t, *vs):
    syms = set()
    for v in vs:
        syms |= v.syms
    return V("bool", t, syms)


class Module:
    def __init__(self, path, imported_consts=None):
        self.path = path
        self.text = open(path).read()
        self.tree = ast.parse(self.text)
        self.consts = dict(imported_consts or {})
        self.regexes = {}
        for st in self.tree.body:
            if isinstance(st, ast.Assign) and len(st.targets) == 1 and isinstance(st.targets[0], ast.Name):
                n = st.targets[0].id
                if isinstance(st.value, ast.Constant) and isinstance(st.value.value, str):
                    self.consts[n] = st.value.value
                elif (isinstance(st.value, ast.Call) and isinstance(st.value.func, ast.Attribute)
                      and isinstance(st.value.func.value, ast.Name) and st.value.func.value.id == "re"
                      and st.value.func.attr == "compile" and len(st.value.args) == 1 and not st.value.keywords
                      and isinstance(st.value.args[0], ast.Constant) and isinstance(st.value.args[0].value, str)):
                    self.regexes[n] = st.value.args[0].value

    def klass(self, name):
        for st in self.tree.body:
            if isinstance(st, ast.ClassDef) and st.name == name:
                return st
        fail(None, f"class {name} not found in {self.path}")

    def method(self, cls, name):
        found = [st for st in self.klass(cls).body if isinstance(st, ast.FunctionDef) and st.name == name]
        if len(found) != 1:
            fail(None, f"{cls}.{name}: expected exactly one definition, found {len(found)}")
        return found[0]

    def record(self, cls, fn):
        seg = "\n".join(self.text.split("\n")[fn.lineno - 1: fn.end_lineno])
        return dict(function=f"{cls}.{fn.name}", file=os.path.relpath(self.path, os.path.dirname(os.path.dirname(
            os.path.dirname(os.path.dirname(self.path))))), lines=[fn.lineno, fn.end_lineno],
            sha1=hashlib.sha1(seg.encode()).hexdigest())


def always_leaves(body):
    return bool(body) and isinstance(body[-1], (ast.Return, ast.Raise, ast.Continue, ast.Break))


def assigned_names(nodes):
    out = set()
    for n in nodes:
        for x in ast.walk(n):
            if isinstance(x, ast.Name) and isinstance(x.ctx, (ast.Store, ast.Del)):
                out.add(x.id)
    return out


class Tr:
    """symbolic execution of one method body"""

    def __init__(self, mod: Module, fn: ast.FunctionDef, self_syms=("self_suffix",)):
        self.mod, self.fn = mod, fn
        self.env = {}
        self.events = []
        self.loopvars = set()
        a = fn.args
        for p in a.posonlyargs + a.args + a.kwonlyargs:
            if p.arg == "self":
                continue
            ann = p.annotation
            if isinstance(ann, ast.Name) and ann.id == "str":
                self.env[p.arg] = V("str", p.arg, {p.arg})
            else:
                self.env[p.arg] = V("opaque", why=f"parameter {p.arg} is not annotated `str`")
        if a.vararg or a.kwarg:
            fail(fn, f"{fn.name}: *args / **kwargs are outside the fragment")

    # ---------------------------------------------------------------- expressions
    def opaque(self, node, why):
        return V("opaque", why=f"{why} (line {getattr(node, 'lineno', '?')})")

    def need(self, v, node, what="value"):
        if v.ty == "opaque":
            fail(node, f"{what} depends on something outside the fragment: {v.why}")
        return v

    def ex(self, n) -> V:
        try:
            return self._ex(n)
        except TranslatorError as e:
            return V("opaque", why=str(e))

    def sx(self, n, ty="str") -> V:
        """strict: must translate, with the given type"""
        v = self._ex(n)
        self.need(v, n)
        if ty and v.ty != ty:
            fail(n, f"expected a {ty} value, found {v.ty}")
        return v

    def _ex(self, n) -> V:
        if isinstance(n, ast.Constant):
            if isinstance(n.value, str):
                return V("str", zstr(n.value))
            if n.value is None:
                return V("none")
            if isinstance(n.value, bool):
                return V("bool", "true" if n.value else "false")
            fail(n, f"constant {n.value!r} is outside the fragment")
        if isinstance(n, ast.Name):
            if n.id in self.env:
                return self.need(self.env[n.id], n, f"`{n.id}`")
            if n.id in self.mod.consts:
                return V("str", "c" + n.id)
            fail(n, f"unknown name `{n.id}`")
        if isinstance(n, ast.Attribute):
            if isinstance(n.value, ast.Name) and n.value.id == "self":
                if n.attr == "suffix":
                    return V("str", "self_suffix", {"self_suffix"})
                if n.attr == "source":
                    return V("path", "", parent="<root>")
                fail(n, f"self.{n.attr} is outside the fragment")
            if isinstance(n.value, ast.Name) and n.value.id in self.loopvars and n.attr == "unique_id":
                s = n.value.id + "_unique_id"
                return V("str", s, {s})
            base = self._ex(n.value)
            self.need(base, n)
            if base.ty == "path" and n.attr in ("name", "stem", "suffix"):
                if base.parent == "<root>" and base.t == "":
                    fail(n, "name of the store root is outside the fragment")
                nm = f"path_name {paren(base.t)}"
                t = {"name": nm, "stem": f"path_stem ({nm})", "suffix": f"path_suffix ({nm})"}[n.attr]
                return V("str", t, base.syms)
            fail(n, f"attribute .{n.attr} of a {base.ty} value is outside the fragment")
        if isinstance(n, ast.JoinedStr):
            parts, vs = [], []
            for p in n.values:
                if isinstance(p, ast.Constant) and isinstance(p.value, str):
                    parts.append(zstr(p.value))
                elif isinstance(p, ast.FormattedValue) and p.conversion == -1 and p.format_spec is None:
                    v = self.sx(p.value)
                    parts.append(paren(v.t))
                    vs.append(v)
                else:
                    fail(n, "f-string with conversion / format spec is outside the fragment")
            return S(" ++ ".join(parts) if parts else "[]", *vs)
        if isinstance(n, ast.IfExp):
            t = n.test
            if (isinstance(t, ast.Compare) and len(t.ops) == 1 and isinstance(t.ops[0], (ast.Is, ast.IsNot))
                    and isinstance(t.left, ast.Name) and isinstance(t.comparators[0], ast.Constant)
                    and t.comparators[0].value is None and t.left.id in self.env and self.env[t.left.id].ty == "optstr"):
                # `a if x is None else b`: in the other branch x is a str
                x = t.left.id
                ov = self.env[x]
                none_e, some_e = (n.body, n.orelse) if isinstance(t.ops[0], ast.Is) else (n.orelse, n.body)
                a = self._ex(none_e)
                self.need(a, none_e)
                bound = x + "_v"
                self.env[x] = V("str", bound, {bound})
                try:
                    b = self._ex(some_e)
                    self.need(b, some_e)
                finally:
                    self.env[x] = ov
                if a.ty != b.ty or a.ty not in ("str", "bool", "optstr"):
                    fail(n, f"the two branches have different types ({a.ty} / {b.ty})")
                return V(a.ty, f"match {ov.t} with None => {a.t} | Some {bound} => {b.t} end",
                         (ov.syms | a.syms | b.syms) - {bound})
            c = self.truth(n.test)
            a, b = self._ex(n.body), self._ex(n.orelse)
            self.need(a, n.body), self.need(b, n.orelse)
            return self.merge(c, a, b, n)
        if isinstance(n, ast.Compare):
            return self.compare(n)
        if isinstance(n, (ast.BoolOp, ast.UnaryOp)):
            return self.truth(n)
        if isinstance(n, ast.BinOp) and isinstance(n.op, ast.Div):
            l = self._ex(n.left)
            self.need(l, n.left)
            r = self._ex(n.right)
            self.need(r, n.right)
            if l.ty != "path" or r.ty not in ("str", "path"):
                fail(n, "`/` is only read between a path and a str / path")
            if l.parent == "<root>" and l.t == "":          # self.source / x : keep x, remember it as the directory
                return V("path", r.t, r.syms, parent=("<under-root>", r.t))
            if l.parent and l.parent[0] == "<under-root>":   # (self.source / dir) / x : a file under dir
                return V("path", r.t, r.syms, parent=("<dir>", l.parent[1]))
            if l.parent and l.parent[0] == "<plain>":        # Path(a) / x
                return V("path", f"path_join {paren(l.t)} {paren(r.t)}", l.syms | r.syms, parent=("<plainjoin>", l.t, r.t))
            fail(n, "path expression nested too deeply for the fragment")
        if isinstance(n, ast.Subscript):
            if (isinstance(n.value, ast.Call) and isinstance(n.value.func, ast.Attribute) and n.value.func.attr == "split"
                    and len(n.value.args) == 1 and not n.value.keywords):
                base = self.sx(n.value.func.value)
                sep = n.value.args[0]
                idx = n.slice
                if isinstance(idx, ast.UnaryOp) and isinstance(idx.op, ast.USub) and isinstance(idx.operand, ast.Constant):
                    i = -idx.operand.value
                elif isinstance(idx, ast.Constant):
                    i = idx.value
                else:
                    i = None
                if (isinstance(sep, ast.Constant) and isinstance(sep.value, str) and len(sep.value) == 1 and i in (0, -1)):
                    f = "split_first" if i == 0 else "split_last"
                    return S(f"{f} {ord(sep.value)} {paren(base.t)}", base)
            fail(n, "subscript outside the fragment (only x.split(<char>)[0] / [-1])")
        if isinstance(n, ast.Call):
            return self.call(n)
        fail(n, f"{type(n).__name__} expression is outside the fragment")

    def merge(self, c, a, b, n):
        if a.ty == "none" and b.ty in ("str", "optstr"):
            a = V("optstr", "None")
        if b.ty == "none" and a.ty in ("str", "optstr"):
            b = V("optstr", "None")
        if {a.ty, b.ty} == {"str", "optstr"}:
            a = a if a.ty == "optstr" else V("optstr", f"Some {paren(a.t)}", a.syms)
            b = b if b.ty == "optstr" else V("optstr", f"Some {paren(b.t)}", b.syms)
        if a.ty != b.ty or a.ty not in ("str", "optstr", "bool"):
            fail(n, f"the two branches have different types ({a.ty} / {b.ty})")
        return V(a.ty, f"if {c.t} then {a.t} else {b.t}", c.syms | a.syms | b.syms)

    def truth(self, n) -> V:
        if isinstance(n, ast.BoolOp):
            vs = [self.truth(x) for x in n.values]
            op = " && " if isinstance(n.op, ast.And) else " || "
            return B(op.join(paren(v.t) for v in vs), *vs)
        if isinstance(n, ast.UnaryOp) and isinstance(n.op, ast.Not):
            v = self.truth(n.operand)
            return B(f"negb {paren(v.t)}", v)
        v = self._ex(n)
        self.need(v, n)
        if v.ty == "bool":
            return v
        if v.ty == "str":
            return B(f"nonempty {paren(v.t)}", v)
        if v.ty == "optstr":
            return B(f"present {paren(v.t)}", v)
        fail(n, f"truth value of a {v.ty} is outside the fragment")

    def compare(self, n):
        if len(n.ops) != 1:
            fail(n, "comparison chains are outside the fragment")
        op = n.ops[0]
        a, b = self._ex(n.left), self._ex(n.comparators[0])
        self.need(a, n), self.need(b, n)
        if isinstance(op, (ast.Is, ast.IsNot)):
            if b.ty == "none" and a.ty == "optstr":
                t = f"negb (present {paren(a.t)})" if isinstance(op, ast.Is) else f"present {paren(a.t)}"
                return B(t, a)
            fail(n, "`is` is only read as `<optional str> is [not] None`")
        if not isinstance(op, (ast.Eq, ast.NotEq)):
            fail(n, "only == and != are read on strings")
        if a.ty == "str" and b.ty == "str":
            t = f"str_eqb {paren(a.t)} {paren(b.t)}"
        elif {a.ty, b.ty} <= {"str", "optstr"}:
            oa = a.t if a.ty == "optstr" else f"Some {paren(a.t)}"
            ob = b.t if b.ty == "optstr" else f"Some {paren(b.t)}"
            t = f"opt_str_eqb {paren(oa)} {paren(ob)}"
        else:
            fail(n, f"comparison of {a.ty} with {b.ty} is outside the fragment")
        return B(t if isinstance(op, ast.Eq) else f"negb ({t})", a, b)

    STR_METHODS = {"replace": ("replace_all", 2), "endswith": ("endswith", 1), "startswith": ("startswith", 1),
                   "rstrip": ("py_rstrip", 1), "lstrip": ("py_lstrip", 1), "strip": ("py_strip", 1),
                   "removesuffix": ("removesuffix", 1), "removeprefix": ("removeprefix", 1), "lower": ("ascii_lower", 0)}

    def call(self, n):
        f = n.func
        if isinstance(f, ast.Name):
            if f.id == "Path" and len(n.args) == 1 and not n.keywords:
                v = self._ex(n.args[0])
                self.need(v, n)
                if v.ty == "path":
                    return v
                if v.ty == "str":
                    return V("path", v.t, v.syms, parent=("<plain>",))
                fail(n, "Path() of a non-str")
            if f.id == "str" and len(n.args) == 1 and not n.keywords:
                v = self._ex(n.args[0])
                self.need(v, n)
                if v.ty == "str":
                    return v
                if v.ty == "path" and v.parent and v.parent[0] in ("<plain>", "<plainjoin>"):
                    return V("str", v.t, v.syms)
                fail(n, "str() of this value is outside the fragment")
            if f.id == "get_format_suffixes" and len(n.args) == 1 and not n.keywords:
                v = self.sx(n.args[0])
                return V("pair", f"get_format_suffixes {paren(v.t)}", v.syms)
            fail(n, f"call of `{f.id}` is outside the fragment")
        if isinstance(f, ast.Attribute):
            if isinstance(f.value, ast.Name) and f.value.id == "re" and f.attr == "sub":
                return self.re_sub(n)
            if isinstance(f.value, ast.Name) and f.value.id in self.mod.regexes and f.attr == "search":
                if len(n.args) != 1 or n.keywords:
                    fail(n, "pattern.search with extra arguments")
                alts = parse_dot_alts_end(self.mod.regexes[f.value.id], n)
                v = self.sx(n.args[0])
                return B(f"re_search_dot_alts_end {paren(v.t)} [{'; '.join(zstr(a) for a in alts)}]", v)
            if f.attr in self.STR_METHODS and not n.keywords:
                name, arity = self.STR_METHODS[f.attr]
                if len(n.args) != arity:
                    fail(n, f".{f.attr}() with {len(n.args)} arguments is outside the fragment")
                base = self.sx(f.value)
                args = [self.sx(a) for a in n.args]
                t = " ".join([name, paren(base.t)] + [paren(a.t) for a in args])
                if f.attr in ("endswith", "startswith"):
                    return B(t, base, *args)
                return S(t, base, *args)
        fail(n, "this call is outside the fragment")

    def re_sub(self, n):
        if len(n.args) != 3 or n.keywords:
            fail(n, "re.sub with count / flags is outside the fragment")
        pat, repl, subj = n.args
        r, s = self.sx(repl), self.sx(subj)
        toks = []          # ("lit", text) | ("esc", V) | ("raw", V)
        if isinstance(pat, ast.Constant) and isinstance(pat.value, str):
            toks.append(("lit", pat.value))
        elif isinstance(pat, ast.JoinedStr):
            for p in pat.values:
                if isinstance(p, ast.Constant):
                    toks.append(("lit", p.value))
                elif isinstance(p, ast.FormattedValue) and p.conversion == -1 and p.format_spec is None:
                    e = p.value
                    if (isinstance(e, ast.Call) and isinstance(e.func, ast.Attribute) and isinstance(e.func.value, ast.Name)
                            and e.func.value.id == "re" and e.func.attr == "escape" and len(e.args) == 1):
                        toks.append(("esc", self.sx(e.args[0])))
                    else:
                        toks.append(("raw", self.sx(e)))
                else:
                    fail(pat, "pattern f-string with conversion / format spec")
        else:
            fail(pat, "the pattern of re.sub must be a literal or an f-string")
        kinds = [k for k, _ in toks]
        # shape 1:  [.]{re.escape(E)}(?=[.]|$)
        if kinds == ["lit", "esc", "lit"] and toks[0][1] in ("[.]", r"\.") and toks[2][1] in ("(?=[.]|$)", r"(?=\.|$)"):
            e = toks[1][1]
            return S(f"re_sub_dot_lit_la {paren(s.t)} {paren(e.t)} {paren(r.t)}", s, e, r)
        # shape 2:  [.](A|B|...)$
        flat = "".join(t if k == "lit" else "\0" for k, t in toks)
        m = re.fullmatch(r"(?:\[\.\]|\\\.)\(([^()]*)\)\$", flat)
        if m:
            vals = [v for k, v in toks if k != "lit"]
            if any(k == "esc" for k in kinds):
                fail(pat, "re.escape inside the alternatives is outside the fragment")
            alts, vs = [], []
            for a in m.group(1).split("|"):
                if a == "\0":
                    v = vals.pop(0)
                    alts.append(v.t)
                    vs.append(v)
                elif re.fullmatch(r"[A-Za-z0-9_]+", a):
                    alts.append(zstr(a))
                else:
                    fail(pat, f"alternative {a!r} is not a plain word")
            return S(f"re_sub_dot_alts_end {paren(s.t)} [{'; '.join(alts)}] {paren(r.t)}", s, r, *vs)
        fail(pat, "regular expression outside the two accepted shapes")

    # ---------------------------------------------------------------- statements
    def block(self, stmts):
        for st in stmts:
            if self.stmt(st) == "leave":
                return "leave"
        return None

    def set_opaque(self, names, node, why):
        for x in names:
            self.env[x] = self.opaque(node, why)

    def stmt(self, st):
        if isinstance(st, ast.Expr):
            if isinstance(st.value, ast.Constant):
                return None
            self.hook_expr(st.value)
            return None
        if isinstance(st, ast.Assign):
            if len(st.targets) != 1:
                self.set_opaque(assigned_names([st]), st, "chained assignment")
                return None
            tgt = st.targets[0]
            if isinstance(tgt, ast.Name):
                self.hook_assign(tgt.id, st.value)
                self.env[tgt.id] = self.ex(st.value)
                return None
            if isinstance(tgt, ast.Tuple) and all(isinstance(e, ast.Name) for e in tgt.elts):
                v = self.ex(st.value)
                if v.ty == "pair" and len(tgt.elts) == 2:
                    self.env[tgt.elts[0].id] = V("optstr", f"fst ({v.t})", v.syms)
                    self.env[tgt.elts[1].id] = V("optstr", f"snd ({v.t})", v.syms)
                else:
                    self.set_opaque([e.id for e in tgt.elts], st, "tuple unpacking of something else than get_format_suffixes")
                return None
            self.set_opaque(assigned_names([st]), st, "assignment target outside the fragment")   # self.x = ..., x[i] = ...
            return None
        if isinstance(st, (ast.AugAssign, ast.AnnAssign, ast.Delete)):
            self.set_opaque(assigned_names([st]), st, type(st).__name__)
            return None
        if isinstance(st, ast.If):
            return self.if_stmt(st)
        if isinstance(st, ast.With):
            for it in st.items:
                self.hook_with(it.context_expr)
                if it.optional_vars is not None:
                    self.set_opaque(assigned_names([it.optional_vars]), st, "with ... as")
            return self.block(st.body)
        if isinstance(st, ast.For):
            return self.for_stmt(st)
        if isinstance(st, ast.Return):
            self.events.append(("return", st.value, dict(self.env)))
            return "leave"
        if isinstance(st, (ast.Raise, ast.Continue, ast.Break)):
            return "leave"
        if isinstance(st, (ast.Assert, ast.Pass)):
            return None
        # anything else (while, try, nested def, global, import ...): its assignments become opaque
        self.set_opaque(assigned_names([st]), st, f"{type(st).__name__} statement")
        return None

    def if_stmt(self, st):
        if always_leaves(st.body) and not st.orelse:
            if isinstance(st.body[-1], ast.Continue):
                self.events.append(("continue-if", st.test, dict(self.env)))
            # the rest of the function only runs when the test is false; nothing assigned here survives
            return None
        names = assigned_names(st.body) | assigned_names(st.orelse)
        c = None
        try:
            c = self.truth(st.test)
        except TranslatorError as e:
            why = str(e)
        a, b = self.fork(), self.fork()
        ra, rb = a.block(st.body), b.block(st.orelse)
        n0 = len(self.events)
        for br in (a, b):
            for e in br.events[n0:]:
                if e[0] == "member":
                    self.events.append(e)
                elif e[0] != "return":
                    fail(st, f"an extracted anchor ({e[0]}) sits inside a conditional that falls through")
        if ra == "leave" and rb == "leave":
            return "leave"
        for x in names:
            va, vb = a.env.get(x), b.env.get(x)
            if ra == "leave":
                self.env[x] = vb if vb is not None else self.opaque(st, f"`{x}` unbound")
                continue
            if rb == "leave":
                self.env[x] = va if va is not None else self.opaque(st, f"`{x}` unbound")
                continue
            if c is None:
                self.env[x] = self.opaque(st, f"`{x}` is assigned under a test outside the fragment: {why}")
            elif va is None or vb is None:
                self.env[x] = self.opaque(st, f"`{x}` may be unbound")
            elif va.ty == "opaque" or vb.ty == "opaque":
                self.env[x] = va if va.ty == "opaque" else vb
            else:
                try:
                    self.env[x] = self.merge(c, va, vb, st)
                except TranslatorError as e:
                    self.env[x] = V("opaque", why=str(e))
        return None

    def fork(self):
        o = Tr.__new__(Tr)
        o.mod, o.fn = self.mod, self.fn
        o.env = dict(self.env)
        o.events = list(self.events)
        o.loopvars = set(self.loopvars)
        return o

    def for_stmt(self, st):
        it = st.iter
        if isinstance(it, ast.Call) and isinstance(it.func, ast.Name) and it.func.id == "list" and len(it.args) == 1:
            it = it.args[0]
        ok = (isinstance(it, ast.Attribute) and isinstance(it.value, ast.Name) and it.value.id == "self"
              and it.attr == "not_completed" and isinstance(st.target, ast.Name) and not st.orelse)
        if not ok:
            self.set_opaque(assigned_names([st]), st, "for loop outside the fragment")
            return None
        self.events.append(("loop-entry", None, dict(self.env)))
        body = self.fork()
        body.loopvars.add(st.target.id)
        body.env.pop(st.target.id, None)
        # cut: inside the loop the values computed before it are inputs (named like the variables that hold them)
        for x, v in list(body.env.items()):
            if v.ty in ("str", "optstr") and x != "cmp":
                body.env[x] = V(v.ty, x, {x})
        n0 = len(body.events)
        body.block(st.body)
        self.events += [("in-loop",) + e for e in body.events[n0:]]
        # a name assigned in the loop body is not a function of the inputs any more
        self.set_opaque(assigned_names(st.body) | {st.target.id}, st, "assigned inside a loop")
        return None

    # ---------------------------------------------------------------- anchors
    def hook_expr(self, e):
        if not isinstance(e, ast.Call):
            return
        f = e.func
        if (isinstance(f, ast.Attribute) and isinstance(f.value, ast.Call) and isinstance(f.value.func, ast.Name)
                and f.value.func.id == "super" and f.attr in ("write", "write_log", "write_not_completed", "__contains__")):
            kw = {k.arg: k.value for k in e.keywords}
            arg = kw.get("unique_id") if "unique_id" in kw else (e.args[0] if len(e.args) == 1 else None)
            if arg is None:
                fail(e, f"super().{f.attr}() without a recognisable identifier argument")
            self.events.append(("super", f.attr, self.ex(arg)))
        if isinstance(f, ast.Attribute) and f.attr == "unlink" and not e.args:
            self.events.append(("unlink", None, self.ex(f.value)))

    def hook_with(self, e):
        if isinstance(e, ast.Call) and isinstance(e.func, ast.Name) and e.func.id == "open_" and e.args:
            self.events.append(("open", None, self.ex(e.args[0]), dict(self.env)))

    def hook_assign(self, name, value):
        if isinstance(value, ast.Call) and isinstance(value.func, ast.Name) and value.func.id == "DataMember":
            kw = {k.arg: k.value for k in value.keywords}
            if "unique_id" in kw:
                self.events.append(("member", None, self.ex(kw["unique_id"])))


def parse_dot_alts_end(pattern, node):
    m = re.fullmatch(r"(?:\\\.|\[\.\])\(([A-Za-z0-9_|]+)\)\$", pattern)
    if not m:
        fail(node, f"compiled pattern {pattern!r} is outside the accepted shape  \\.(a|b)$")
    return m.group(1).split("|")


# ------------------------------------------------------------------ per-function extraction

def only(events, kind, fn, what, n=1):
    got = [e for e in events if e[0] == kind]
    if len(got) != n:
        fail(fn, f"{fn.name}: expected {n} {what}, found {len(got)}")
    return got


def need(v, fn, what):
    if v.ty == "opaque":
        fail(fn, f"{fn.name}: {what} depends on something outside the fragment: {v.why}")
    return v


def definition(name, params, ty, v, fn, what):
    extra = sorted(v.syms - set(params))
    if extra:
        fail(fn, f"{fn.name}: {what} depends on {extra}, which are not inputs of the reading ({', '.join(params)})")
    ps = " ".join(f"({p} : {'option str' if p == 'cmp' else 'str'})" for p in params)
    return f"Definition {name} {ps} : {ty} :=\n  {v.t}."


def tr_contains(mod):
    fn = mod.method("DataStoreDirectory", "__contains__")
    tr = Tr(mod, fn)
    tr.block(fn.body)
    rets = only(tr.events, "return", fn, "return statement")
    val = rets[0][1]
    ok = (isinstance(val, ast.Call) and isinstance(val.func, ast.Attribute) and val.func.attr == "__contains__"
          and isinstance(val.func.value, ast.Call) and isinstance(val.func.value.func, ast.Name)
          and val.func.value.func.id == "super" and len(val.args) == 1 and not val.keywords)
    if not ok:
        fail(fn, "__contains__ must end in `return super().__contains__(<item>)`")
    sub = tr.fork()
    sub.env = rets[0][2]
    v = need(sub.ex(val.args[0]), fn, "the looked-up item")
    if v.ty != "str":
        fail(fn, "the looked-up item is not a str")
    return [definition("contains_key", ["self_suffix", "item"], "str", v, fn, "the looked-up item")], fn


def tr_write(mod):
    fn = mod.method("DataStoreDirectory", "_write")
    tr = CutTr(mod, fn)
    tr.block(fn.body)
    opens = only(tr.events, "open", fn, "`with open_(...)` statements", 2)
    p1, env1 = need(opens[0][2], fn, "the path of the first open_"), opens[0][3]
    if p1.ty != "path" or not p1.parent or p1.parent[0] != "<dir>":
        fail(fn, "_write: the first open_ must be on self.source / <subdir> / <name>")
    cmp1 = need(env1.get("cmp", V("opaque", why="`cmp` is not bound")), fn, "`cmp` at the first open_")
    if cmp1.ty != "optstr":
        fail(fn, "_write: `cmp` is not an optional str")
    v1 = V("pair", f"({paren(p1.t)}, {paren(cmp1.t)})", p1.syms | cmp1.syms)
    p2 = need(opens[1][2], fn, "the path of the second open_")
    if p2.ty != "path" or not p2.parent or p2.parent != ("<dir>", "c_MD5_TABLE"):
        fail(fn, "_write: the second open_ must be on self.source / _MD5_TABLE / <name>")
    members = [e for e in tr.events if e[0] == "member"]
    nc = [e[2] for e in members if e[2].ty == "path" and e[2].parent and e[2].parent[0] == "<plainjoin>"]
    if len(nc) != 1:
        fail(fn, f"_write: expected one DataMember(unique_id=Path(<table>) / <name>), found {len(nc)}")
    defs = [
        definition("write_name", ["self_suffix", "suffix", "unique_id"], "str * option str", v1, fn, "the written file name"),
        definition("md5_write_name", ["suffix", "cmp", "unique_id"], "str", V("str", p2.t, p2.syms), fn, "the md5 file name"),
        definition("nc_member_id", ["unique_id"], "str", V("str", nc[0].t, nc[0].syms), fn, "the not-completed member id"),
    ]
    return defs, fn


class CutTr(Tr):
    """_write: after the file has been written, `unique_id` (the written name) and `cmp` become the inputs
    of the md5-name computation"""

    def hook_with(self, e):
        n_before = len([x for x in self.events if x[0] == "open"])
        super().hook_with(e)
        n_after = len([x for x in self.events if x[0] == "open"])
        if n_before == 0 and n_after == 1:
            self.env["unique_id"] = V("str", "unique_id", {"unique_id"})
            self.env["cmp"] = V("optstr", "cmp", {"cmp"})
            self.env.pop("sfx", None)

    def fork(self):
        o = CutTr.__new__(CutTr)
        o.mod, o.fn = self.mod, self.fn
        o.env = dict(self.env)
        o.events = list(self.events)
        o.loopvars = set(self.loopvars)
        return o


def tr_drop(mod):
    fn = mod.method("DataStoreDirectory", "drop_not_completed")
    tr = Tr(mod, fn)
    tr.block(fn.body)
    entry = only(tr.events, "loop-entry", fn, "loop over self.not_completed")
    pat = need(entry[0][2].get("unique_id", V("opaque", why="unbound")), fn, "`unique_id` at the loop")
    if pat.ty != "str":
        fail(fn, "drop_not_completed: `unique_id` at the loop is not a str")
    inloop = [e[1:] for e in tr.events if e[0] == "in-loop"]
    conts = only(inloop, "continue-if", fn, "`if ...: continue` in the loop")
    sub = tr.fork()
    sub.env = conts[0][2]
    sub.loopvars = {"m"} | {n for n in _loop_target(fn)}
    skip = sub.truth(conts[0][1])
    unl = only(inloop, "unlink", fn, "`.unlink()` calls in the loop", 2)
    f1, f2 = need(unl[0][2], fn, "the first unlinked path"), need(unl[1][2], fn, "the second unlinked path")
    if f1.ty != "path" or f1.parent != ("<dir>", "c_NOT_COMPLETED_TABLE"):
        fail(fn, "drop_not_completed: the first unlink must be on self.source / _NOT_COMPLETED_TABLE / <name>")
    if f2.ty != "path" or f2.parent != ("<dir>", "c_MD5_TABLE"):
        fail(fn, "drop_not_completed: the second unlink must be on self.source / _MD5_TABLE / <name>")
    lv = next(iter(_loop_target(fn)))
    ren = lambda v: V(v.ty, re.sub(rf"\b{lv}_unique_id\b", "m_unique_id", v.t),
                      {("m_unique_id" if s == f"{lv}_unique_id" else s) for s in v.syms})
    defs = [
        definition("drop_pattern", ["self_suffix", "unique_id"], "str", pat, fn, "the drop pattern"),
        definition("drop_skip", ["unique_id", "m_unique_id"], "bool", ren(skip), fn, "the skip test"),
        definition("drop_file", ["m_unique_id"], "str", ren(V("str", f1.t, f1.syms)), fn, "the unlinked record file"),
        definition("drop_md5_file", ["m_unique_id"], "str", ren(V("str", f2.t, f2.syms)), fn, "the unlinked md5 file"),
    ]
    return defs, fn


def _loop_target(fn):
    out = []
    for x in ast.walk(fn):
        if isinstance(x, ast.For) and isinstance(x.target, ast.Name):
            out.append(x.target.id)
    return out


def tr_md5(mod):
    fn = mod.method("DataStoreDirectory", "md5")
    tr = Tr(mod, fn)
    tr.block(fn.body)
    rets = only(tr.events, "return", fn, "return statement")
    env = rets[0][2]
    used = {x.id for x in ast.walk(rets[0][1]) if isinstance(x, ast.Name)} if rets[0][1] is not None else set()
    paths = [env[x] for x in used if x in env and env[x].ty == "path"]
    if len(paths) != 1 or paths[0].parent != ("<dir>", "c_MD5_TABLE"):
        opq = [env[x].why for x in used if x in env and env[x].ty == "opaque"]
        fail(fn, "md5: the return must read exactly one path self.source / _MD5_TABLE / <name>" + (": " + opq[0] if opq else ""))
    v = paths[0]
    return [definition("md5_lookup_name", ["self_suffix", "unique_id"], "str", V("str", v.t, v.syms), fn, "the md5 file looked up")], fn


def tr_sql(mod, meth, name):
    fn = mod.method("DataStoreSqlite", meth)
    tr = Tr(mod, fn, ())
    tr.block(fn.body)
    sup = [e for e in tr.events if e[0] == "super" and e[1] == meth]
    if len(sup) != 1:
        fail(fn, f"{meth}: expected one super().{meth}(unique_id=...) call, found {len(sup)}")
    v = need(sup[0][2], fn, "the identifier handed to the base class")
    if v.ty != "str":
        fail(fn, f"{meth}: the identifier is not a str")
    return [definition(name, ["unique_id"], "str", v, fn, "the normalised identifier")], fn


def pinned_hash(node):
    node = ast.parse(ast.unparse(node)).body[0]
    if isinstance(node, ast.FunctionDef) and node.body and isinstance(node.body[0], ast.Expr) \
            and isinstance(node.body[0].value, ast.Constant) and isinstance(node.body[0].value.value, str):
        node.body = node.body[1:]
    return hashlib.sha1(ast.dump(node).encode()).hexdigest()


def check_pinned(src):
    io = ast.parse(open(os.path.join(src, "cogent3/util/io.py")).read())
    misc = ast.parse(open(os.path.join(src, "cogent3/util/misc.py")).read())
    gfs = [s for s in io.body if isinstance(s, ast.FunctionDef) and s.name == "get_format_suffixes"]
    wop = [s for s in misc.body if isinstance(s, ast.Assign) and len(s.targets) == 1 and isinstance(s.targets[0], ast.Name)
           and s.targets[0].id == "_wout_period"]
    if len(gfs) != 1 or len(wop) != 1:
        fail(None, "get_format_suffixes / _wout_period not found")
    got = {"get_format_suffixes": pinned_hash(gfs[0]), "_wout_period": pinned_hash(wop[0])}
    return got


def generate(repo_src):
    ds_path = os.path.join(repo_src, "cogent3/app/data_store.py")
    sq_path = os.path.join(repo_src, "cogent3/app/sqlite_data_store.py")
    ds = Module(ds_path)
    for c in ("_NOT_COMPLETED_TABLE", "_LOG_TABLE", "_MD5_TABLE"):
        if c not in ds.consts:
            fail(None, f"module constant {c} not found in data_store.py")
    imported = {}
    sq_tree = ast.parse(open(sq_path).read())
    for st in sq_tree.body:
        if isinstance(st, ast.ImportFrom) and st.module == "cogent3.app.data_store":
            for a in st.names:
                if a.name in ds.consts:
                    imported[a.asname or a.name] = ds.consts[a.name]
    sq = Module(sq_path, imported)
    if "_RESULT_TABLE" not in sq.consts or "_LOG_TABLE" not in sq.consts:
        fail(None, "module constants _RESULT_TABLE / _LOG_TABLE not visible in sqlite_data_store.py")
    got = check_pinned(repo_src)
    for k, v in got.items():
        if PINNED[k] != v:
            fail(None, f"the text of {k} changed (hash {v}, pinned {PINNED[k]}): its reading as Model.DataStore.get_format_suffixes "
                       "is no longer vouched for")
    defs, records = [], []
    for f, m, cls in ((tr_contains, ds, "DataStoreDirectory"), (tr_write, ds, "DataStoreDirectory"),
                      (tr_drop, ds, "DataStoreDirectory"), (tr_md5, ds, "DataStoreDirectory")):
        d, fn = f(m)
        defs += d
        r = m.record(cls, fn)
        r["generated"] = [re.match(r"Definition (\w+)", x).group(1) for x in d]
        records.append(r)
    for meth, name in (("write", "sq_write_id"), ("write_not_completed", "sq_write_nc_id"), ("write_log", "sq_write_log_id")):
        d, fn = tr_sql(sq, meth, name)
        defs += d
        r = sq.record("DataStoreSqlite", fn)
        r["generated"] = [name]
        records.append(r)
    consts = []
    allc = dict(ds.consts)
    allc.update({k: v for k, v in sq.consts.items()})
    for c in ("_NOT_COMPLETED_TABLE", "_LOG_TABLE", "_MD5_TABLE", "_RESULT_TABLE"):
        consts.append(f"Definition c{c} : str := {zstr(allc[c])}.   (* {allc[c]!r} *)")
    records.append(dict(function="cogent3.util.io.get_format_suffixes (pinned, not translated)", file="src/cogent3/util/io.py",
                        sha1_ast=got["get_format_suffixes"], read_as="Model.DataStore.get_format_suffixes"))
    out = ["(** GENERATED by harness/translators/ds_names.py from the current text of",
           "    src/cogent3/app/data_store.py and src/cogent3/app/sqlite_data_store.py - do not edit. *)",
           "From CG3 Require Import Lib.PyZ Lib.Val Lib.Chars Lib.PyStr Model.DataStore Spec.DataStoreSpec.",
           "", "Module DsNamesGen.", ""] + consts + [""]
    for d in defs:
        out += [d, ""]
    out += ["End DsNamesGen."]
    return "\n".join(out) + "\n", records


def main(argv):
    repo = os.environ.get("VERIF_REPO", "/repo")
    rec = None
    i = 1
    while i < len(argv):
        if argv[i] == "--repo":
            repo = argv[i + 1]
            i += 2
        elif argv[i] == "--records":
            rec = argv[i + 1]
            i += 2
        elif argv[i] == "--hashes":
            print(json.dumps(check_pinned(os.path.join(repo, "src"))))
            return 0
        else:
            print(__doc__)
            return 2
    try:
        text, records = generate(os.path.join(repo, "src"))
    except TranslatorError as e:
        print(f"ds_names translator: {e}", file=sys.stderr)
        return 1
    except (OSError, SyntaxError) as e:
        print(f"ds_names translator: cannot read the source: {e}", file=sys.stderr)
        return 1
    if rec:
        with open(rec, "w") as f:
            json.dump(records, f, indent=1)
    sys.stdout.write(text)
    return 0


if __name__ == "__main__":
    sys.exit(main(sys.argv))
