"""Translator for C08: regenerate coq/gen/IndelMapGen.v from the CURRENT text of the
integer / array kernel of `IndelMap` in src/cogent3/core/location.py.

Pure `ast` (nothing is imported or executed).  One Gallina definition per
translated Python function, over the `imap` record, `res` type, `bind` and the
list primitives of Model/IndelMap.v, Model/IndelMapFixed.v and Model/NumpyPrims.v.
Proofs/IndelMapGenEq.v then proves every generated function equal to the
hand-written model function.

Translated:  _gap_spans, IndelMap.__post_init__ (both keyword forms), __len__, get_gap_lengths,
             get_seq_index, get_align_index, __getitem__ (int and slice registrations),
             __add__, __mul__, nucleic_reversed, get_coordinates, get_gap_coordinates,
             get_gap_align_coordinates
Not translated (generators with loops / dict code; they stay behaviourally tied):
             nongap, spans, merge_maps, joined_segments, minus_gaps, shared_gaps, from_aligned_segments, ...

The accepted fragment (everything else raises TranslatorError = the tie is reported
broken, nothing is guessed):

  int exprs    literals, names, + - * unary -, int(), len(), min/max (also of one tuple), comparisons
               (chains), and/or/not, conditional expressions, truthiness of ints and arrays,
               `x or 0`, `x is None` / `is not None` on the optional slice bounds, tuples
  arrays       self.gap_pos / self.cum_gap_lengths / other.<field>, a[i] (Python negative wrap, `pyget`),
               a[i:j] a[i:] a[:j] a[:-k] a[::-1], .copy() .tolist() .cumsum() numpy.cumsum numpy.diff,
               elementwise array+array, array(+|-|*)int, int(+|-)array, python-list + python-list,
               list literals, numpy.array(<list>, dtype=...), numpy.searchsorted(a, x, side=...),
               numpy.delete(a, i), (m := x == a).any() with numpy.where(m)[0], list(zip(a, b)),
               numpy.array([a, b]).T(.tolist()), x.reshape((0, 2))
  statements   assignment (names, tuples, a[i] = e, a[k:] = e), augmented assignment (names, a[i] -= e,
               a[k:] += e, array -= int), del a[i], a.append(e), if/elif/else (early return or merge of the
               assigned variables), return, raise, docstrings
  calls        _gap_spans, methods of self that are translated, self.__class__(gap_pos=, cum_gap_lengths= |
               gap_lengths=, parent_length=), self[a : b]

Conventions that are part of the trusted reading (repeated in the evidence):
  * Python int / numpy integer = Z (no overflow, no dtype); numpy arrays and Python lists = `list Z`
    (the translator tracks which of the two a value is, because `+` differs);
  * `a[i]` is the TOTAL read `pyget a i` (negative wrap, 0 when out of range) and `a[i:j]` with non-literal bounds
    is `zslice a i j` (bounds non-negative): the same conventions as Model/IndelMap.v; that every read is in range and
    every such bound non-negative is observed by the behavioural correspondence (an IndexError would show);
  * `numpy.searchsorted` = first index with element >= v (> v): equal to the binary search on sorted arrays;
  * falling off the end of a function whose other exits return a value is `Err E_None` (the function returns None);
  * `(idx,) = numpy.where(m)[0]` raises ValueError unless exactly one index matches;
  * `x.reshape((0, 2))` is the empty listing (it raises for a non-empty array);
  * in-place updates of a local array are read as rebinding the local (no alias of a local array is ever kept:
    every array taken from self is `.copy()`ed or freshly computed before it is updated - checked: an update of a
    name bound directly to a field of self aborts the translation);
  * `__post_init__` : `.flags.writeable = False` and `_serialisable.pop` are dropped.

usage: indelmap.py [--repo DIR] [--records FILE]     prints IndelMapGen.v on stdout
"""
from __future__ import annotations

import ast
import hashlib
import json
import os
import sys


class TranslatorError(Exception):
    pass


def fail(node, msg):
    where = f"line {getattr(node, 'lineno', '?')}" if node is not None else ""
    raise TranslatorError(f"{msg} ({where})" if where else msg)


# ------------------------------------------------------------------ values

class V:
    """kind: Z B L(list Z; py=True for a Python list) OPT(option Z) NONE P(list of pairs) M(imap) EQ(mask a == x)
    T(tuple of V) RES(call returning res; only as a whole statement value)"""

    def __init__(self, kind, t=None, py=False, items=None, field=False, extra=None):
        self.kind, self.t, self.py, self.items, self.field, self.extra = kind, t, py, items, field, extra


def zlit(n):
    return str(n) if n >= 0 else f"({n})"


EXC = {"IndexError": "E_Index", "ValueError": "E_Value", "TypeError": "E_Type", "NotImplementedError": "E_Other",
       "AssertionError": "E_Other", "RuntimeError": "E_Other"}

# name -> (parameter kinds, return kind, pure?)   return kinds: Z L LL M P
SIGS = {
    "_gap_spans": (["L", "L"], "LL", True),
    "_update_lengths": (["L", "L", "L", "L"], "L", True),        # mutates its 2nd argument in place: the new value is returned
    "merge_maps": (["M", "OPT"], "M", False),
    "span_and_span": (["T2", "T2"], "OPAIR", False),
    "coords_intersect": (["P", "P"], "P", False),
    "coords_minus_coords": (["P", "P"], "P", False),
    "shared_gaps:arr": (["P"], "P", False),
    "shared_gaps:map": (["M"], "P", False),
    "minus_gaps:arr": (["P"], "M", False),
    "minus_gaps:map": (["M"], "M", False),
    "make_seq_feature_map": (["FM"], "FM", False),
    "joined_segments": (["P"], "M", False),
    "from_aligned_segments": (["P", "Z"], "M", False),      # classmethod: cls(...) is the constructor
    "gap_coords_to_map": (["D", "Z"], "M", False),
    "nongap": ([], "GP", True),          # generator of Span(start, end): the list of (start, end)
    "spans": ([], "GS", True),           # generator of Span / LostSpan: list ispan
    "__len__": ([], "Z", True),
    "get_gap_lengths": ([], "L", True),
    "get_seq_index": (["Z"], "Z", False),
    "get_align_index": (["Z", "B"], "Z", False),
    "__getitem__int": (["Z"], "M", False),
    "__getitem__slice": (["SLICE"], "M", False),
    "__add__": (["M"], "M", False),
    "__mul__": (["Z"], "M", False),
    "nucleic_reversed": ([], "M", False),
    "get_coordinates": ([], "P", True),
    "get_gap_coordinates": ([], "P", True),
    "get_gap_align_coordinates": ([], "P", True),
}
COQNAME = {"shared_gaps:arr": "shared_gaps_coords", "shared_gaps:map": "shared_gaps", "minus_gaps:arr": "minus_gaps_coords", "minus_gaps:map": "minus_gaps", "_gap_spans": "gap_spans", "_update_lengths": "update_lengths", "__len__": "len", "__getitem__int": "getitem_int", "__getitem__slice": "getitem_slice",
           "__add__": "add", "__mul__": "mul"}
COQTYPE = {"S": "fspan", "SL": "list fspan", "Q": "list quad", "FM": "fmap", "D": "list (Z * Z)", "OPAIR": "option (Z * Z)", "T2": "(Z * Z)", "GP": "list (Z * Z)", "GS": "list ispan", "OPT": "option Z", "Z": "Z", "L": "list Z", "LL": "(list Z * list Z)", "M": "imap", "P": "list (Z * Z)", "B": "bool"}


def coqname(f):
    # every generated function carries the prefix g_, so that a reference can never be captured by the model's function
    # of the same name
    return "g_" + COQNAME.get(f, f)


class Fn:
    """translation of one function body"""

    def __init__(self, tr, name, rkind, pure):
        self.tr, self.name, self.rkind, self.pure = tr, name, rkind, pure
        self.fresh = 0

    # ---------------------------------------------------------------- helpers
    def tmp(self, base="t"):
        self.fresh += 1
        return f"{base}_{self.fresh}"

    def wrap_ret(self, t):
        return t if self.pure else f"Ok {paren(t)}"

    # ---------------------------------------------------------------- expressions
    # `binds` collects (name, res-term) of res-valued calls met in evaluation order

    def truth(self, v, node):
        if v.kind == "B":
            return v.t
        if v.kind == "Z":
            return f"negb ({v.t} =? 0)"
        if v.kind in ("L", "P", "D", "SL", "Q"):
            return f"negb (zlen {paren(v.t)} =? 0)"
        if v.kind == "OPT":
            return f"match {v.t} with Some v_ => negb (v_ =? 0) | None => false end"
        if v.kind == "NONE":
            return "false"
        fail(node, f"truth value of a {v.kind}")

    def cond(self, e, env, binds):
        return self.truth(self.expr(e, env, binds), e)

    def need(self, v, kind, node):
        if v.kind == "EMPTYLIST" and kind in ("L", "P"):
            return V(kind, "[]", py=v.py)
        if v.kind != kind:
            fail(node, f"expected {kind}, found {v.kind}")
        return v

    def expr(self, e, env, binds):
        if isinstance(e, ast.Constant):
            if isinstance(e.value, bool):
                return V("B", "true" if e.value else "false")
            if isinstance(e.value, int):
                return V("Z", zlit(e.value))
            if e.value is None:
                return V("NONE")
            fail(e, f"constant {e.value!r}")
        if isinstance(e, ast.Name) and e.id == "_empty" and e.id not in env:
            if not self.tr.empty_is_none_pair:
                fail(e, "_empty is not `None, None`")
            return V("T", items=[V("NONE"), V("NONE")])
        if isinstance(e, ast.Name) and e.id in ("LostSpan", "TerminalPadding") and e.id not in env:
            return V("CLS", "lost")
        if isinstance(e, ast.Name):
            if e.id not in env:
                fail(e, f"undefined or unsupported name {e.id}")
            if env[e.id].kind == "OPC":
                return self.opc(env[e.id].items[0], env[e.id].items[1], env, e)
            return env[e.id]
        if isinstance(e, ast.NamedExpr):
            v = self.expr(e.value, env, binds)
            if v.kind != "EQ":
                fail(e, "walrus of a value that is not an elementwise comparison")
            env[e.target.id] = v
            return v
        if isinstance(e, ast.UnaryOp):
            if isinstance(e.op, ast.Not):
                return V("B", f"negb ({self.cond(e.operand, env, binds)})")
            if isinstance(e.op, ast.USub):
                if isinstance(e.operand, ast.Constant) and isinstance(e.operand.value, int) and not isinstance(e.operand.value, bool):
                    return V("Z", zlit(-e.operand.value))
                v = self.need(self.expr(e.operand, env, binds), "Z", e)
                return V("Z", f"(- {v.t})")
            fail(e, "unary operator")
        if isinstance(e, ast.BoolOp):
            vals = [self.expr(x, env, binds) for x in e.values]
            if isinstance(e.op, ast.Or) and len(vals) == 2 and vals[0].kind in ("OPT", "NONE", "Z") and vals[1].kind == "Z":
                a, b = vals
                if a.kind == "NONE":
                    return b
                if a.kind == "Z":
                    return V("Z", f"(if {a.t} =? 0 then {b.t} else {a.t})")
                return V("Z", f"(match {a.t} with Some v_ => if v_ =? 0 then {b.t} else v_ | None => {b.t} end)")
            op = " && " if isinstance(e.op, ast.And) else " || "
            return V("B", "(" + op.join(paren(self.truth(v, e)) for v in vals) + ")")
        if isinstance(e, ast.Compare):
            parts = []
            left = self.expr(e.left, env, binds)
            for op, rn in zip(e.ops, e.comparators):
                right = self.expr(rn, env, binds)
                if isinstance(op, (ast.Is, ast.IsNot)):
                    if right.kind != "NONE":
                        fail(e, "`is` against something other than None")
                    if left.kind == "NONE":
                        t = "true"
                    elif left.kind == "OPT":
                        t = f"match {left.t} with None => true | Some _ => false end"
                    else:
                        t = "false"
                    parts.append(t if isinstance(op, ast.Is) else f"negb ({t})")
                elif left.kind == "Z" and right.kind in ("OPT", "NONE") and isinstance(op, (ast.NotEq, ast.Eq)) and len(e.ops) == 1:
                    # an int never equals None
                    t = "false" if right.kind == "NONE" else f"match {right.t} with Some v_ => ({left.t} =? v_) | None => false end"
                    return V("B", t if isinstance(op, ast.Eq) else f"negb ({t})")
                elif left.kind == "Z" and right.kind == "L" and isinstance(op, ast.Eq) and len(e.ops) == 1:
                    return V("EQ", items=(right.t, left.t))
                elif left.kind == "L" and right.kind == "Z" and isinstance(op, ast.Eq) and len(e.ops) == 1:
                    return V("EQ", items=(left.t, right.t))
                else:
                    self.need(left, "Z", e), self.need(right, "Z", e)
                    sym = {ast.Lt: "<?", ast.LtE: "<=?", ast.Gt: ">?", ast.GtE: ">=?", ast.Eq: "=?"}.get(type(op))
                    if sym:
                        parts.append(f"({left.t} {sym} {right.t})")
                    elif isinstance(op, ast.NotEq):
                        parts.append(f"negb ({left.t} =? {right.t})")
                    else:
                        fail(e, "comparison operator")
                left = right
            return V("B", parts[0] if len(parts) == 1 else "(" + " && ".join(parts) + ")")
        if isinstance(e, ast.IfExp):
            a, b = self.expr(e.body, env, binds), self.expr(e.orelse, env, binds)
            if a.kind == "CLS" and b.kind == "CLS":
                # LostSpan / TerminalPadding: both are lost spans of the given length (termini_unknown is not modelled);
                # the test must be free of effects
                for n in ast.walk(e.test):
                    if not isinstance(n, (ast.BoolOp, ast.And, ast.Or, ast.Compare, ast.Eq, ast.Name, ast.Attribute, ast.Constant,
                                          ast.BinOp, ast.Sub, ast.Add, ast.Load, ast.Not, ast.UnaryOp)):
                        fail(e, "test of a class-valued conditional expression")
                return V("CLS", "lost")
            # `x if x is not None else d` on an optional bound
            if (isinstance(e.test, ast.Compare) and len(e.test.ops) == 1 and isinstance(e.test.ops[0], ast.IsNot)
                    and a.kind == "OPT" and b.kind == "Z" and ast.dump(e.test.left) == ast.dump(e.body)):
                return V("Z", f"(match {a.t} with Some v_ => v_ | None => {b.t} end)")
            c = self.cond(e.test, env, binds)
            if a.kind != b.kind or a.kind not in ("Z", "L", "B"):
                fail(e, f"conditional expression of kinds {a.kind}/{b.kind}")
            return V(a.kind, f"(if {c} then {a.t} else {b.t})", py=a.py)
        if isinstance(e, ast.BinOp):
            a, b = self.expr(e.left, env, binds), self.expr(e.right, env, binds)
            sym = {ast.Add: "+", ast.Sub: "-", ast.Mult: "*"}.get(type(e.op))
            if sym is None:
                fail(e, "binary operator")
            if a.kind == "Z" and b.kind == "Z":
                return V("Z", f"({a.t} {sym} {b.t})")
            if a.kind == "P" and b.kind == "P" and sym == "+" and a.py and b.py:
                return V("P", f"({a.t} ++ {b.t})", py=True)
            if a.kind == "L" and b.kind == "L" and not a.py and not b.py and sym == "-":
                return V("L", f"(sub2 {paren(a.t)} {paren(b.t)})")
            if a.kind == "L" and b.kind == "L":
                if a.py and b.py and sym == "+":
                    return V("L", f"({a.t} ++ {b.t})", py=True)
                if not a.py and not b.py and sym == "+":
                    return V("L", f"(add2 {paren(a.t)} {paren(b.t)})")
                fail(e, "array/list operator")
            if a.kind == "L" and b.kind == "Z" and not a.py:
                return V("L", f"(map (fun p_ => p_ {sym} {b.t}) {paren(a.t)})")
            if a.kind == "Z" and b.kind == "L" and not b.py and sym in "+-":
                return V("L", f"(map (fun p_ => {a.t} {sym} p_) {paren(b.t)})")
            fail(e, f"binary operator on {a.kind}/{b.kind}")
        if isinstance(e, ast.Tuple):
            return V("T", items=[self.expr(x, env, binds) for x in e.elts])
        if isinstance(e, ast.List):
            items = [self.expr(x, env, binds) for x in e.elts]
            if not items:
                return V("EMPTYLIST", py=True)
            if all(v.kind == "Z" for v in items):
                return V("L", "[" + "; ".join(v.t for v in items) + "]", py=True)
            if items and all(v.kind == "T" and len(v.items) == 2 and all(w.kind == "Z" for w in v.items) for v in items):
                return V("P", "[" + "; ".join(f"({v.items[0].t}, {v.items[1].t})" for v in items) + "]", py=True)
            if all(v.kind == "S" for v in items):
                return V("SL", "[" + "; ".join(v.t for v in items) + "]", py=True)
            if len(items) == 2 and all(v.kind == "L" for v in items):
                return V("LPAIR", items=items)
            fail(e, "list literal")
        if isinstance(e, ast.Dict) and not e.keys:
            return V("D", "[]")
        if isinstance(e, ast.Attribute):
            return self.attribute(e, env, binds)
        if isinstance(e, ast.Subscript):
            return self.subscript(e, env, binds)
        if isinstance(e, ast.Call):
            return self.call(e, env, binds)
        fail(e, f"expression {type(e).__name__}")

    def attribute(self, e, env, binds):
        if isinstance(e.value, ast.Name) and e.value.id in env and env[e.value.id].kind == "M":
            m = env[e.value.id]
            key = f"{e.value.id}.{e.attr}"
            if key in env:                      # a field re-assigned inside __post_init__
                return env[key]
            if e.attr in ("gap_pos", "cum_gap_lengths"):
                return V("L", f"({e.attr} {m.t})", field=True)
            if e.attr == "parent_length":
                return V("Z", f"(parent_length {m.t})")
            if e.attr == "num_gaps":
                self.tr.uses_num_gaps = True
                return V("Z", f"(num_gaps {m.t})")
            fail(e, f"attribute {e.attr} of a map")
        if isinstance(e.value, ast.Name) and e.value.id in env and env[e.value.id].kind == "FM":
            m = env[e.value.id]
            if e.attr == "spans":
                return V("SL", f"(fspans {m.t})", py=True)
            if e.attr == "parent_length":
                return V("Z", f"(fplen {m.t})")
            fail(e, f"attribute {e.attr} of a feature map")
        if isinstance(e.value, ast.Name) and e.value.id in env and env[e.value.id].kind == "S":
            sp = env[e.value.id]
            if e.attr == "lost":
                return V("B", f"(is_lost {sp.t})")
            if e.attr == "reverse":
                return V("B", f"(sp_rev {sp.t})")
            if e.attr in ("start", "end"):
                return V("Z", f"(sp_{e.attr} {sp.t})")
            if e.attr == "length":
                return V("Z", f"(slen {sp.t})")
            fail(e, f"attribute {e.attr} of a span")
        if isinstance(e.value, ast.Name) and e.value.id in env and env[e.value.id].kind == "SLICE":
            parts = env[e.value.id].items
            if e.attr in parts:
                return parts[e.attr]
            fail(e, f"slice attribute {e.attr}")
        v = self.expr(e.value, env, binds)
        if e.attr == "T" and v.kind == "P":
            return V("T", items=[V("L", f"(map fst {paren(v.t)})"), V("L", f"(map snd {paren(v.t)})")])
        if e.attr == "T" and v.kind == "LPAIR":
            a, b = v.items
            return V("P", f"(combine {paren(a.t)} {paren(b.t)})")
        if e.attr in ("size",) and v.kind == "L":
            return V("Z", f"(zlen {paren(v.t)})")
        fail(e, f"attribute .{e.attr}")

    def subscript(self, e, env, binds):
        if isinstance(e.value, ast.Name) and e.value.id in env and env[e.value.id].kind == "M":
            # self[a : b]
            sl = e.slice
            if not isinstance(sl, ast.Slice) or sl.step is not None or sl.lower is None or sl.upper is None:
                fail(e, "self[...] with something other than a : b")
            a = self.need(self.expr(sl.lower, env, binds), "Z", e)
            b = self.need(self.expr(sl.upper, env, binds), "Z", e)
            return V("RES", f"g_getitem_slice {env[e.value.id].t} (Some {a.t}) (Some {b.t})", extra="M")
        # numpy.where(m)[0]
        if (isinstance(e.value, ast.Call) and dotted(e.value.func) == "numpy.where" and len(e.value.args) == 1
                and isinstance(e.slice, ast.Constant) and e.slice.value == 0):
            m = self.expr(e.value.args[0], env, binds)
            if m.kind != "EQ":
                fail(e, "numpy.where of something other than an elementwise comparison")
            return V("L", f"(where_eq 0 {paren(m.items[0])} {m.items[1]})")
        # shape[0]
        if isinstance(e.value, ast.Attribute) and e.value.attr == "shape" and isinstance(e.slice, ast.Constant) and e.slice.value == 0:
            v = self.need(self.expr(e.value.value, env, binds), "L", e)
            return V("Z", f"(zlen {paren(v.t)})")
        a = self.expr(e.value, env, binds)
        if a.kind == "OPAIR" and isinstance(e.slice, ast.Constant) and e.slice.value in (0, 1):
            return self.opc(a.t, e.slice.value, env, e)
        if a.kind == "P" and isinstance(e.slice, ast.UnaryOp) and isinstance(e.slice.op, ast.USub) \
                and isinstance(e.slice.operand, ast.Constant) and e.slice.operand.value == 1:
            return V("LASTROW", a.t)
        if a.kind == "P" and not isinstance(e.slice, (ast.Slice, ast.Tuple)):
            i = self.expr(e.slice, env, binds)
            if i.kind == "Z":
                return V("ROW", f"(np_row {paren(a.t)} {i.t})")
        if a.kind in ("ROW", "LASTROW") and (isinstance(e.slice, ast.Constant) or isinstance(e.slice, ast.UnaryOp)):
            j = self.expr(e.slice, env, binds)
            if j.kind == "Z" and j.t in ("0", "1", "(-1)") and not (a.kind == "LASTROW" and j.t == "(-1)"):
                row = a.t if a.kind == "ROW" else f"(np_row {paren(a.t)} (-1))"
                return V("Z", f"({'fst' if j.t == '0' else 'snd'} {row})")
        if a.kind == "P" and isinstance(e.slice, ast.Tuple) and len(e.slice.elts) == 2 and all(isinstance(x, ast.Slice) for x in e.slice.elts):
            r_, c_ = e.slice.elts
            if r_.lower is None and r_.upper is None and r_.step is None and c_.lower is None and c_.upper is None \
                    and isinstance(c_.step, ast.UnaryOp) and isinstance(c_.step.op, ast.USub) and getattr(c_.step.operand, "value", None) == 1:
                return V("P", f"(map (fun r_ => (snd r_, fst r_)) {paren(a.t)})")
        if a.kind == "LASTROW" and isinstance(e.slice, ast.UnaryOp) and isinstance(e.slice.op, ast.USub) \
                and isinstance(e.slice.operand, ast.Constant) and e.slice.operand.value == 1:
            return V("Z", f"(last_end {paren(a.t)})")
        if a.kind != "L":
            fail(e, f"subscript of a {a.kind}")
        sl = e.slice
        if isinstance(sl, ast.Slice):
            if sl.step is not None:
                if (sl.lower is None and sl.upper is None and isinstance(sl.step, ast.UnaryOp) and isinstance(sl.step.op, ast.USub)
                        and isinstance(sl.step.operand, ast.Constant) and sl.step.operand.value == 1):
                    return V("L", f"(rev {paren(a.t)})", py=a.py)
                fail(e, "slice step")
            lo = "0" if sl.lower is None else self.bound(sl.lower, a, env, binds)
            hi = f"(zlen {paren(a.t)})" if sl.upper is None else self.bound(sl.upper, a, env, binds)
            # a basic slice of a numpy array is a VIEW of it (of a Python list: a copy)
            base = e.value.id if (isinstance(e.value, ast.Name) and not a.py) else None
            return V("L", f"(zslice {paren(a.t)} {lo} {hi})", py=a.py, extra=base)
        i = self.expr(sl, env, binds)
        if i.kind == "L" and not a.py:
            return V("L", f"(np_take {paren(a.t)} {paren(i.t)})")
        self.need(i, "Z", e)
        return V("Z", f"(pyget {paren(a.t)} {i.t})")

    def opc(self, t, idx, env, node):
        """component idx of the optional pair t: an int where t is known to be a pair, else only testable against None"""
        known = env.get("$known:" + t)
        if known:
            return V("Z", known[idx])
        return V("OPC", items=(t, idx))

    def bound(self, node, a, env, binds):
        # a negative literal counts from the end; anything else is read as non-negative
        if isinstance(node, ast.UnaryOp) and isinstance(node.op, ast.USub) and isinstance(node.operand, ast.Constant):
            return f"(zlen {paren(a.t)} - {node.operand.value})"
        return self.need(self.expr(node, env, binds), "Z", node).t

    def call(self, e, env, binds):
        fn = dotted(e.func)
        args = e.args
        kw = {k.arg: k.value for k in e.keywords}
        if fn == "Span" and len(args) <= 2 and set(kw) <= {"start", "end", "reverse"}:
            parts = dict(zip(("start", "end"), args))
            parts.update(kw)
            if "start" not in parts or "end" not in parts:
                fail(e, "Span without start / end")
            a = self.need(self.expr(parts["start"], env, binds), "Z", e)
            b = self.need(self.expr(parts["end"], env, binds), "Z", e)
            r = self.cond(parts["reverse"], env, binds) if "reverse" in parts else "false"
            return V("S", f"(mk_span {a.t} {b.t} {paren(r)})")
        if fn == "LostSpan" and len(args) == 1 and not kw:
            n = self.need(self.expr(args[0], env, binds), "Z", e)
            return V("S", f"(FL {n.t})")
        if fn == "abs" and len(args) == 1 and not kw:
            n = self.need(self.expr(args[0], env, binds), "Z", e)
            return V("Z", f"(Z.abs {n.t})")
        if fn == "tuple" and len(args) == 1 and not kw:
            v = self.expr(args[0], env, binds)
            if v.kind in ("SL", "EMPTYLIST"):
                return v
        if fn == "_spans_from_locations" and not args and set(kw) == {"locations", "parent_length"}:
            l_ = self.need(self.expr(kw["locations"], env, binds), "P", e)
            n = self.need(self.expr(kw["parent_length"], env, binds), "Z", e)
            name = self.tmp("r")
            binds.append((name, f"g_spans_from_locations {paren(l_.t)} {n.t}"))
            return V("SL", name, py=True)
        if fn in ("int",) and len(args) == 1:
            return self.need(self.expr(args[0], env, binds), "Z", e)
        if fn == "len" and len(args) == 1:
            if isinstance(args[0], ast.Name) and args[0].id in env and env[args[0].id].kind == "M":
                return V("Z", f"(g_len {env[args[0].id].t})")
            if isinstance(args[0], ast.Name) and args[0].id in env and env[args[0].id].kind == "FM":
                return V("Z", f"(flen {env[args[0].id].t})")
            v = self.expr(args[0], env, binds)
            if v.kind in ("L", "P", "D", "SL", "Q"):
                return V("Z", f"(zlen {paren(v.t)})")
            if v.kind == "FM":
                return V("Z", f"(flen {paren(v.t)})")
            fail(e, f"len of a {v.kind}")
        if fn in ("min", "max") and not kw:
            vals = [self.expr(a, env, binds) for a in args]
            if len(vals) == 1 and vals[0].kind == "T":
                vals = vals[0].items
            if len(vals) != 2 or any(v.kind != "Z" for v in vals):
                fail(e, f"{fn} of something other than two ints")
            return V("Z", f"(Z.{fn} {vals[0].t} {vals[1].t})")
        if fn in ("span_and_span", "coords_intersect", "coords_minus_coords") and not kw and len(args) == 2:
            pk, rk, pure = SIGS[fn]
            ts = []
            for a, k in zip(args, pk):
                v = self.expr(a, env, binds)
                if k == "T2":
                    if v.kind != "T" or len(v.items) != 2 or any(x.kind != "Z" for x in v.items):
                        fail(e, "a pair of ints expected")
                    ts.append(f"({v.items[0].t}, {v.items[1].t})")
                else:
                    ts.append(paren(self.need(v, k, e).t))
            name = self.tmp("r")
            binds.append((name, f"{coqname(fn)} " + " ".join(ts)))
            return V(rk, name)
        if fn == "list" and len(args) == 1 and not kw and isinstance(args[0], ast.Name):
            v = self.expr(args[0], env, binds)
            if v.kind in ("P", "L"):
                return V(v.kind, v.t, py=True)
        if fn == "cls" and self.name == "from_aligned_segments" and not args and set(kw) == {"gap_pos", "cum_gap_lengths", "parent_length"}:
            gp = self.need(self.expr(kw["gap_pos"], env, binds), "L", e)
            cl = self.need(self.expr(kw["cum_gap_lengths"], env, binds), "L", e)
            pl = self.need(self.expr(kw["parent_length"], env, binds), "Z", e)
            return V("RES", f"g_post_init_cum {paren(gp.t)} {paren(cl.t)} {pl.t}", extra="M")
        if fn == "sorted" and len(args) == 1 and not kw:
            v = self.expr(args[0], env, binds)
            if v.kind in ("P", "D"):
                return V("P", f"(sort_pairs {paren(v.t)})", py=True)
            fail(e, f"sorted of a {v.kind}")
        if fn == "range" and len(args) == 1 and not kw:
            n = self.need(self.expr(args[0], env, binds), "Z", e)
            return V("L", f"(zrange 0 {n.t})", py=True)
        if fn == "numpy.empty" and len(args) == 1 and set(kw) <= {"dtype"} and not isinstance(args[0], ast.Tuple):
            n = self.need(self.expr(args[0], env, binds), "Z", e)
            return V("L", f"(np_empty {n.t})")
        if fn == "list" and len(args) == 1 and isinstance(args[0], ast.Call) and dotted(args[0].func) == "zip" \
                and len(args[0].args) == 1 and isinstance(args[0].args[0], ast.Starred):
            v = self.need(self.expr(args[0].args[0].value, env, binds), "P", e)
            return V("T", items=[V("L", f"(map fst {paren(v.t)})", py=True), V("L", f"(map snd {paren(v.t)})", py=True)])
        if fn == "FeatureMap" and not args and set(kw) == {"spans", "parent_length"}:
            sp = self.need(self.expr(kw["spans"], env, binds), "SL", e)
            n = self.need(self.expr(kw["parent_length"], env, binds), "Z", e)
            return V("FM", f"(mk_fmap {paren(sp.t)} {n.t})")
        if fn == "IndelMap" and not args and set(kw) == {"gap_pos", "gap_lengths", "parent_length"}:
            gp = self.need(self.expr(kw["gap_pos"], env, binds), "L", e)
            cl = self.need(self.expr(kw["gap_lengths"], env, binds), "L", e)
            pl = self.need(self.expr(kw["parent_length"], env, binds), "Z", e)
            return V("RES", f"g_post_init_len {paren(gp.t)} {paren(cl.t)} {pl.t}", extra="M")
        if fn == "numpy.empty" and len(args) == 1 and set(kw) <= {"dtype"} and isinstance(args[0], ast.Tuple) and len(args[0].elts) == 2 \
                and isinstance(args[0].elts[1], ast.Constant) and args[0].elts[1].value == 2:
            n = self.need(self.expr(args[0].elts[0], env, binds), "Z", e)
            return V("P", f"(np_empty_pairs {n.t})")
        if fn == "getattr":
            return V("OPQ")
        if fn == "numpy.array":
            if len(args) != 1 or set(kw) - {"dtype"}:
                fail(e, "numpy.array arguments")
            v = self.expr(args[0], env, binds)
            if v.kind == "EMPTYLIST":
                # an empty array: of ints, or (returned where pairs are returned) of pairs
                return V("EMPTYLIST", py=False)
            if v.kind == "P":
                return V("P", v.t, py=False)
            if v.kind == "L":
                return V("L", v.t)
            if v.kind == "LPAIR":
                return v
            fail(e, "numpy.array of this value")
        if fn == "numpy.searchsorted":
            if len(args) != 2 or set(kw) != {"side"} or not isinstance(kw["side"], ast.Constant) or kw["side"].value not in ("left", "right"):
                fail(e, "numpy.searchsorted(a, x, side='left'|'right') expected")
            a = self.need(self.expr(args[0], env, binds), "L", e)
            x = self.need(self.expr(args[1], env, binds), "Z", e)
            return V("Z", f"(ss_{kw['side'].value} {paren(a.t)} {x.t})")
        if fn in ("numpy.cumsum", "numpy.diff") and len(args) == 1 and not kw:
            a = self.need(self.expr(args[0], env, binds), "L", e)
            return V("L", f"({'cumsum' if fn.endswith('cumsum') else 'np_diff'} {paren(a.t)})")
        if fn == "numpy.union1d" and len(args) == 2 and not kw:
            a = self.need(self.expr(args[0], env, binds), "L", e)
            b = self.need(self.expr(args[1], env, binds), "L", e)
            return V("L", f"(union1d {paren(a.t)} {paren(b.t)})")
        if fn == "numpy.zeros" and len(args) == 1 and set(kw) <= {"dtype"} and isinstance(args[0], ast.Attribute) and args[0].attr == "shape":
            a = self.need(self.expr(args[0].value, env, binds), "L", e)
            return V("L", f"(np_zeros_like {paren(a.t)})")
        if fn == "numpy.intersect1d" and len(args) == 2 and set(kw) == {"assume_unique", "return_indices"} \
                and all(isinstance(kw[k], ast.Constant) and kw[k].value is True for k in kw):
            a = self.need(self.expr(args[0], env, binds), "L", e)
            b = self.need(self.expr(args[1], env, binds), "L", e)
            return V("T", items=[V("L", f"(np_isect_vals {paren(a.t)} {paren(b.t)})"), V("L", f"(np_isect_a {paren(a.t)} {paren(b.t)})"),
                                 V("L", f"(np_isect_b {paren(a.t)} {paren(b.t)})")])
        if fn == "numpy.delete" and len(args) == 2 and not kw:
            a = self.need(self.expr(args[0], env, binds), "L", e)
            i = self.need(self.expr(args[1], env, binds), "Z", e)
            return V("L", f"(del_at {paren(a.t)} {i.t})")
        if fn == "list" and len(args) == 1 and isinstance(args[0], ast.Call) and dotted(args[0].func) == "zip" and len(args[0].args) == 2:
            a = self.need(self.expr(args[0].args[0], env, binds), "L", e)
            b = self.need(self.expr(args[0].args[1], env, binds), "L", e)
            return V("P", f"(combine {paren(a.t)} {paren(b.t)})")
        if fn == "_gap_spans" and len(args) == 2 and not kw:
            a = self.need(self.expr(args[0], env, binds), "L", e)
            b = self.need(self.expr(args[1], env, binds), "L", e)
            self.tr.want("_gap_spans")
            t = self.tmp("sp")
            return V("T", items=[V("L", f"(fst (g_gap_spans {paren(a.t)} {paren(b.t)}))"), V("L", f"(snd (g_gap_spans {paren(a.t)} {paren(b.t)}))")])
        if isinstance(e.func, ast.Attribute):
            attr = e.func.attr
            recv = e.func.value
            # feature maps: self.__class__(spans=, parent_length=) / self.__class__.from_locations(...) / methods
            if attr == "__class__" and isinstance(recv, ast.Name) and recv.id in env and env[recv.id].kind == "FM":
                if args or set(kw) != {"spans", "parent_length"}:
                    fail(e, "FeatureMap constructor keywords")
                sp = self.need(self.expr(kw["spans"], env, binds), "SL", e)
                n = self.need(self.expr(kw["parent_length"], env, binds), "Z", e)
                return V("FM", f"(mk_fmap {paren(sp.t)} {n.t})")
            if attr == "from_locations" and isinstance(recv, ast.Attribute) and recv.attr == "__class__" \
                    and isinstance(recv.value, ast.Name) and recv.value.id in env and env[recv.value.id].kind == "FM" \
                    and not args and set(kw) == {"locations", "parent_length"}:
                l_ = self.need(self.expr(kw["locations"], env, binds), "P", e)
                n = self.need(self.expr(kw["parent_length"], env, binds), "Z", e)
                name = self.tmp("r")
                binds.append((name, f"g_from_locations {paren(l_.t)} {n.t}"))
                return V("FM", name)
            if attr in ("inverse", "gaps") and not args and not kw:
                v = self.expr(recv, env, binds)
                if v.kind == "FM":
                    name = self.tmp("r")
                    binds.append((name, f"g_fm_{attr} {paren(v.t)}"))
                    return V("FM", name)
            # self.__class__(...)
            if attr == "__class__" and isinstance(recv, ast.Name) and recv.id in env and env[recv.id].kind == "M":
                if args or set(kw) not in ({"gap_pos", "cum_gap_lengths", "parent_length"}, {"gap_pos", "gap_lengths", "parent_length"}):
                    fail(e, "constructor keywords")
                gp = self.need(self.expr(kw["gap_pos"], env, binds), "L", e)
                pl = self.need(self.expr(kw["parent_length"], env, binds), "Z", e)
                if "cum_gap_lengths" in kw:
                    cl = self.need(self.expr(kw["cum_gap_lengths"], env, binds), "L", e)
                    return V("RES", f"g_post_init_cum {paren(gp.t)} {paren(cl.t)} {pl.t}", extra="M")
                cl = self.need(self.expr(kw["gap_lengths"], env, binds), "L", e)
                return V("RES", f"g_post_init_len {paren(gp.t)} {paren(cl.t)} {pl.t}", extra="M")
            # singledispatch methods: the registration is chosen by the kind of the argument
            if isinstance(recv, ast.Name) and recv.id in env and env[recv.id].kind == "M" and attr in ("shared_gaps", "minus_gaps") \
                    and len(args) == 1 and not kw:
                v = self.expr(args[0], env, binds)
                key = f"{attr}:{'map' if v.kind == 'M' else 'arr' if v.kind == 'P' else '?'}"
                if key not in SIGS:
                    fail(e, f"{attr} of a {v.kind}")
                name = self.tmp("r")
                binds.append((name, f"{coqname(key)} {env[recv.id].t} {paren(v.t)}"))
                return V(SIGS[key][1], name)
            # methods of self / of another map
            if isinstance(recv, ast.Name) and recv.id in env and env[recv.id].kind == "M" and attr in SIGS:
                pk, rk, pure = SIGS[attr]
                if kw or len(args) != len(pk):
                    fail(e, f"arguments of {attr}")
                ts = []
                for a, k in zip(args, pk):
                    ts.append(paren(self.need(self.expr(a, env, binds), k, e).t))
                self.tr.want(attr)
                t = f"{coqname(attr)} {env[recv.id].t}" + "".join(" " + x for x in ts)
                if pure:
                    return V(rk, f"({t})")
                name = self.tmp("r")
                binds.append((name, t))
                return V(rk, name)
            v = self.expr(recv, env, binds)
            if attr == "flatten" and v.kind == "P" and not args:
                return V("L", f"(flatten_pairs {paren(v.t)})")
            if attr == "reshape" and v.kind == "L" and len(args) == 1 and isinstance(args[0], ast.Tuple) and len(args[0].elts) == 2 \
                    and getattr(args[0].elts[1], "value", None) == 2:
                return V("P", f"(pair_up {paren(v.t)})")
            if attr == "get" and v.kind == "D" and len(args) == 2 and not kw:
                k_ = self.need(self.expr(args[0], env, binds), "Z", e)
                d_ = self.need(self.expr(args[1], env, binds), "Z", e)
                return V("Z", f"(np_dict_get {paren(v.t)} {k_.t} {d_.t})")
            if attr == "items" and v.kind == "D" and not args:
                return V("D", v.t)
            if attr in ("copy",) and v.kind == "L" and not args:
                return V("L", v.t, py=v.py)
            if attr == "tolist" and not args:
                if v.kind == "L":
                    return V("L", v.t, py=True)
                if v.kind == "P":
                    return v
            if attr == "cumsum" and v.kind == "L" and not args:
                return V("L", f"(cumsum {paren(v.t)})")
            if attr == "any" and v.kind == "EQ" and not args:
                return V("B", f"negb (zlen (where_eq 0 {paren(v.items[0])} {v.items[1]}) =? 0)")
            if attr == "reshape" and v.kind == "P" and len(args) == 1 and isinstance(args[0], ast.Tuple) \
                    and [getattr(x, "value", None) for x in args[0].elts] == [0, 2]:
                return V("P", "[]")
        fail(e, f"call of {fn or ast.dump(e.func)[:60]}")

    # ---------------------------------------------------------------- statements

    def with_binds(self, binds, body):
        for name, t in reversed(binds):
            body = f"bind ({t}) (fun {name} =>\n{body})"
        return body

    def block(self, stmts, env, k):
        """k(env) -> term for what follows the block; None = end of the function"""
        if not stmts:
            if k is None and self.rkind in ("GP", "GS"):
                return "[]"
            if k is None:
                if self.pure:
                    fail(None, f"{self.name}: a path of a pure function does not return")
                return "Err E_None"
            return k(env)
        s, rest = stmts[0], stmts[1:]

        def cont(env2):
            return self.block(rest, env2, k)

        if isinstance(s, ast.Break):
            if not getattr(self, "break_k", None):
                fail(s, "break outside a loop")
            return self.break_k[-1](env)
        if isinstance(s, ast.Continue):
            if not getattr(self, "loop_k", None):
                fail(s, "continue outside a loop")
            return self.loop_k[-1](env)
        if isinstance(s, ast.For):
            return self.for_stmt(s, env, cont)
        if isinstance(s, ast.Expr) and isinstance(s.value, ast.Yield):
            if self.rkind not in ("GP", "GS"):
                fail(s, "yield outside a generator")
            return f"{self.yielded(s.value.value, env)} ::\n{cont(env)}"
        if isinstance(s, ast.Return) and s.value is None and self.rkind in ("GP", "GS"):
            return "[]"
        if isinstance(s, ast.Expr):
            if isinstance(s.value, ast.Constant) and isinstance(s.value.value, str):
                return cont(env)
            if isinstance(s.value, ast.Call) and isinstance(s.value.func, ast.Attribute) and s.value.func.attr == "append" \
                    and isinstance(s.value.func.value, ast.Name) and len(s.value.args) == 1:
                name = s.value.func.value.id
                binds = []
                a = self.expr(s.value.func.value, env, binds)
                x = self.expr(s.value.args[0], env, binds)
                if not a.py:
                    fail(s, "append to an array")
                if a.kind == "SL" and x.kind == "S":
                    return self.bind_name(name, V("SL", f"({a.t} ++ [{x.t}])", py=True), env, binds, cont)
                if a.kind == "Q" and x.kind == "T" and len(x.items) == 4 and all(w.kind == "Z" for w in x.items):
                    return self.bind_name(name, V("Q", f"({a.t} ++ [({', '.join(w.t for w in x.items)})])", py=True), env, binds, cont)
                if a.kind == "P" and x.kind == "T" and len(x.items) == 2 and all(w.kind == "Z" for w in x.items):
                    return self.bind_name(name, V("P", f"({a.t} ++ [({x.items[0].t}, {x.items[1].t})])", py=True), env, binds, cont)
                self.need(a, "L", s), self.need(x, "Z", s)
                return self.bind_name(name, V("L", f"({a.t} ++ [{x.t}])", py=True), env, binds, cont)
            if isinstance(s.value, ast.Call) and isinstance(s.value.func, ast.Attribute) and s.value.func.attr in ("reverse", "sort") \
                    and isinstance(s.value.func.value, ast.Name) and not s.value.args and not s.value.keywords:
                name = s.value.func.value.id
                a = self.expr(s.value.func.value, env, [])
                if s.value.func.attr == "reverse" and a.kind == "SL":
                    return self.bind_name(name, V("SL", f"(rev {paren(a.t)})", py=True), env, [], cont)
                if s.value.func.attr == "sort" and a.kind == "Q":
                    return self.bind_name(name, V("Q", f"(sort_quads {paren(a.t)})", py=True), env, [], cont)
                fail(s, f".{s.value.func.attr}() of a {a.kind}")
            if isinstance(s.value, ast.Call) and dotted(s.value.func) == "_update_lengths" and len(s.value.args) == 4 \
                    and not s.value.keywords and isinstance(s.value.args[1], ast.Name):
                binds = []
                name = s.value.args[1].id
                self.local_array(name, env, s)
                ts = [paren(self.need(self.expr(a, env, binds), "L", s).t) for a in s.value.args]
                return self.bind_name(name, V("L", f"(g_update_lengths {' '.join(ts)})"), env, binds, cont)
            if isinstance(s.value, ast.Call) and dotted(s.value.func) in ("self._serialisable.pop",):
                return cont(env)
            fail(s, "expression statement")
        if isinstance(s, ast.Return):
            binds = []
            if s.value is None:
                fail(s, "bare return")
            v = self.expr(s.value, env, binds)
            if v.kind == "RES":
                if self.pure or v.extra != self.rkind:
                    fail(s, "returning a raising call from a pure function")
                return self.with_binds(binds, v.t)
            return self.with_binds(binds, self.wrap_ret(self.as_kind(v, self.rkind, s)))
        if isinstance(s, ast.Raise):
            if self.pure:
                fail(s, "raise in a pure function")
            exc = s.exc.func if isinstance(s.exc, ast.Call) else s.exc
            name = getattr(exc, "id", None)
            if name not in EXC:
                fail(s, f"raise of {name}")
            return f"Err {EXC[name]}"
        if isinstance(s, ast.Assert):
            if self.static_true(s.test, env):
                return cont(env)
            if self.pure:
                fail(s, "assert in a pure function")
            binds = []
            c = self.cond(s.test, env, binds)
            if binds:
                fail(s, "raising call in an assert")
            return f"if {c}\nthen ({cont(env)})\nelse (Err E_Other)"
        if isinstance(s, ast.Assign):
            if len(s.targets) != 1:
                fail(s, "chained assignment")
            return self.assign(s.targets[0], s.value, env, cont, s)
        if isinstance(s, ast.AugAssign):
            return self.augassign(s, env, cont)
        if isinstance(s, ast.Delete):
            if len(s.targets) != 1 or not isinstance(s.targets[0], ast.Subscript) or not isinstance(s.targets[0].value, ast.Name):
                fail(s, "del")
            name = s.targets[0].value.id
            binds = []
            a = self.local_array(name, env, s)
            i = self.need(self.expr(s.targets[0].slice, env, binds), "Z", s)
            return self.bind_name(name, V("L", f"(del_at {paren(a.t)} {i.t})", py=a.py), env, binds, cont)
        if isinstance(s, ast.If):
            return self.if_stmt(s, env, cont, rest, k)
        fail(s, f"statement {type(s).__name__}")

    def yielded(self, e, env):
        """Span(a, b) / LostSpan(n) / cls(n) with cls one of LostSpan, TerminalPadding"""
        if not isinstance(e, ast.Call) or e.keywords:
            fail(e, "yield of something other than a span")
        binds = []
        f = e.func
        name = f.id if isinstance(f, ast.Name) else None
        if name in env and env[name].kind == "CLS":
            name = "LostSpan"
        vals = [self.need(self.expr(a, env, binds), "Z", e) for a in e.args]
        if binds:
            fail(e, "raising call in a yield")
        if name == "Span" and len(vals) == 2:
            return f"({vals[0].t}, {vals[1].t})" if self.rkind == "GP" else f"ISpan {vals[0].t} {vals[1].t}"
        if name in ("LostSpan", "TerminalPadding") and len(vals) == 1 and self.rkind == "GS":
            return f"ILost {vals[0].t}"
        fail(e, "yield of this value")

    def for_stmt(self, s, env, cont):
        """for [i,] x in [enumerate](<array>) / for [i,] (a, b) in [enumerate](<rows>): a structural fixpoint over the list; the
        variables that are defined before the loop and assigned in its body are its state; what follows the loop is its []
        case (and the target of `break`)"""
        if s.orelse:
            fail(s, "for ... else")
        binds = []
        it = s.iter
        counter = None
        target = s.target
        if isinstance(it, ast.Call) and dotted(it.func) == "enumerate" and len(it.args) == 1 and not it.keywords:
            if not (isinstance(target, ast.Tuple) and len(target.elts) == 2 and isinstance(target.elts[0], ast.Name)):
                fail(s, "enumerate target")
            counter, target = target.elts[0].id, target.elts[1]
            arr = self.expr(it.args[0], env, binds)
        else:
            arr = self.expr(it, env, binds)
        if binds:
            fail(s, "raising call in a loop header")
        if arr.kind == "L" and isinstance(target, ast.Name):
            elems = [target.id]
            ety = "Z"
        elif arr.kind == "P" and isinstance(target, ast.Tuple) and len(target.elts) == 2 and all(isinstance(x, ast.Name) for x in target.elts):
            elems = [x.id for x in target.elts]
            ety = "Z * Z"
        elif arr.kind == "Q" and isinstance(target, ast.Tuple) and len(target.elts) == 4 and all(isinstance(x, ast.Name) for x in target.elts):
            elems = [x.id for x in target.elts]
            ety = "quad"
        elif arr.kind == "SL" and isinstance(target, ast.Name):
            elems = [target.id]
            ety = "fspan"
        else:
            fail(s, f"loop over a {arr.kind} with this target")
        bound = set(elems) | ({counter} if counter else set())
        state = sorted(n for n in assigned(s.body) if n in env and n not in bound)
        kinds = {}
        for n in state:
            k = env[n].kind
            if k == "NONE" or k == "OPT":
                k = "OPT"
            elif k not in ("Z", "L", "B", "P", "D", "S", "SL", "Q"):
                fail(s, f"loop assigns {n}, which cannot be carried")
            kinds[n] = k
        self.fresh += 1
        loop, xs = f"loop_{self.fresh}", f"xs_{self.fresh}"
        cnt = cn(counter) if counter else f"i_{self.fresh}"
        env_in = dict(env)
        for n in state:
            env_in[n] = V(kinds[n], cn(n), py=env[n].py)
        env_body = dict(env_in)
        for x in elems:
            env_body[x] = V("S" if ety == "fspan" else "Z", cn(x))
        if counter:
            env_body[counter] = V("Z", cnt)

        def args_of(e2):
            return "".join(" " + paren(coerce(e2[n], kinds[n], s)) for n in state)

        def next_iter(e2):
            return f"{loop} ({cnt} + 1) {xs}{args_of(e2)}"

        def after(e2):
            # only the state survives the loop
            e3 = dict(env_in)
            out = ""
            for n in state:
                t = coerce(e2[n], kinds[n], s)
                if t != cn(n):
                    out += f"let {cn(n)} := {t} in\n"
            return out + cont(e3)

        for attr in ("loop_k", "break_k"):
            if getattr(self, attr, None) is None:
                setattr(self, attr, [])
        self.loop_k.append(next_iter)
        self.break_k.append(after)
        body = self.block(s.body, env_body, next_iter)
        self.loop_k.pop()
        self.break_k.pop()
        done = after(env_in)
        rt = COQTYPE[self.rkind] if self.pure else f"res ({COQTYPE[self.rkind]})"
        params = "".join(f" ({cn(n)} : {COQTYPE[kinds[n]]})" for n in state)
        init = "".join(" " + paren(coerce(env[n], kinds[n], s)) for n in state)
        pat = cn(elems[0]) if len(elems) == 1 else "(" + ", ".join(cn(x) for x in elems) + ")"
        return (f"(fix {loop} ({cnt} : Z) ({xs} : list ({ety})){params} {{struct {xs}}} : {rt} :=\n"
                f"match {xs} with\n| [] =>\n{done}\n| {pat} :: {xs} =>\n{body}\nend) 0 {paren(arr.t)}{init}")

    def static_true(self, test, env):
        return self.name == "__post_init__"      # `assert gap_lengths is None or self.cum_gap_lengths is None`: one of the two is None in each form

    def as_kind(self, v, kind, node):
        if kind == "LL":
            if v.kind == "T" and len(v.items) == 2 and all(x.kind == "L" for x in v.items):
                return f"({v.items[0].t}, {v.items[1].t})"
            fail(node, "expected a pair of arrays")
        if kind == "M" and v.kind == "M":
            return v.t
        if kind == "FM" and v.kind == "FM":
            return v.t
        if kind == "OPAIR" and v.kind == "T" and len(v.items) == 2:
            if all(x.kind == "Z" for x in v.items):
                return f"Some ({v.items[0].t}, {v.items[1].t})"
            if all(x.kind == "NONE" for x in v.items):
                return "None"
        if v.kind == "EMPTYLIST" and kind in ("L", "P", "SL"):
            return "[]"
        if kind == "SL" and v.kind == "T" and not v.items:
            return "[]"
        if v.kind != kind:
            fail(node, f"returns a {v.kind}, expected {kind}")
        return v.t

    def appends_pairs(self, name):
        for n in ast.walk(self.node):
            if isinstance(n, ast.Call) and isinstance(n.func, ast.Attribute) and n.func.attr == "append" \
                    and isinstance(n.func.value, ast.Name) and n.func.value.id == name and n.args and isinstance(n.args[0], ast.Tuple):
                return True
        return False

    def bind_name(self, name, v, env, binds, cont):
        env2 = dict(env)
        if v.kind == "EMPTYLIST":
            hint = getattr(self.tr, "list_hints", {}).get((self.name, name))
            v = V(hint or ("P" if self.appends_pairs(name) else "L"), "[]", py=v.py)
        if v.kind in ("OPAIR", "OPT") and v.t is not None:
            env2[name] = V(v.kind, cn(name))
            return self.with_binds(binds, f"let {cn(name)} := {v.t} in\n{cont(env2)}")
        if v.kind in ("Z", "L", "B", "P", "D", "S", "SL", "Q", "FM"):
            env2[name] = V(v.kind, cn(name), py=v.py, extra=(v.extra if v.kind == "L" and v.extra != name else None))
            return self.with_binds(binds, f"let {cn(name)} := {v.t} in\n{cont(env2)}")
        if v.kind == "RES":
            env2[name] = V(v.extra, cn(name))
            return self.with_binds(binds, f"bind ({v.t}) (fun {cn(name)} =>\n{cont(env2)})")
        env2[name] = v           # OPT / EQ / NONE / T / M: symbolic
        return self.with_binds(binds, cont(env2))

    def local_array(self, name, env, node):
        if name not in env or env[name].kind != "L":
            fail(node, f"{name} is not a local array")
        if env[name].field:
            fail(node, f"in-place update of {name}, which is bound directly to a field of a map")
        # aliasing: the array this one is a view of, and the views of this one, change too - reading them afterwards
        # is outside the fragment (they are removed from the environment: a later use aborts the translation)
        base = env[name].extra
        if base is not None and base in env and base != name:
            if env[base].field:
                fail(node, f"in-place update of {name}, a view of a field of a map")
            del env[base]
        for other in [n for n, w in env.items() if isinstance(w, V) and w.kind == "L" and w.extra == name and n != name]:
            del env[other]
        return env[name]

    def assign(self, target, value, env, cont, s):
        binds = []
        if isinstance(target, ast.Name):
            v = self.expr(value, env, binds)
            return self.bind_name(target.id, v, env, binds, cont)
        if isinstance(target, ast.Tuple) and all(isinstance(x, ast.Name) for x in target.elts):
            v = self.expr(value, env, binds)
            names = [x.id for x in target.elts]
            if len(names) == 1 and v.kind == "L":
                # (idx,) = <array>
                if self.pure:
                    fail(s, "unpacking in a pure function")
                env2 = dict(env)
                env2[names[0]] = V("Z", cn(names[0]))
                return self.with_binds(binds, f"match {v.t} with\n| [{cn(names[0])}] =>\n{cont(env2)}\n| _ => Err E_Value\nend")
            if v.kind == "OPAIR" and len(names) == 2:
                env2 = dict(env)
                env2[names[0]] = self.opc(v.t, 0, env, s)
                env2[names[1]] = self.opc(v.t, 1, env, s)
                return self.with_binds(binds, cont(env2))
            if v.kind == "T" and len(v.items) == len(names):
                env2 = dict(env)
                out = ""
                for n, item in zip(names, v.items):
                    if n == "_":
                        continue
                    if item.kind not in ("Z", "L"):
                        fail(s, "tuple unpacking of this value")
                    out += f"let {cn(n)} := {item.t} in\n"
                    env2[n] = V(item.kind, cn(n), py=item.py)
                return self.with_binds(binds, out + cont(env2))
            fail(s, "tuple assignment")
        if isinstance(target, ast.Subscript) and isinstance(target.value, ast.Name) and target.value.id in env \
                and env[target.value.id].kind == "D":
            name = target.value.id
            k_ = self.need(self.expr(target.slice, env, binds), "Z", s)
            v = self.need(self.expr(value, env, binds), "Z", s)
            return self.bind_name(name, V("D", f"(np_dict_set {paren(env[name].t)} {k_.t} {v.t})"), env, binds, cont)
        if isinstance(target, ast.Subscript) and isinstance(target.value, ast.Name) and target.value.id in env \
                and env[target.value.id].kind == "P":
            name = target.value.id
            a = env[name]
            i = self.need(self.expr(target.slice, env, binds), "Z", s)
            v = self.expr(value, env, binds)
            if v.kind != "T" or len(v.items) != 2 or any(w.kind != "Z" for w in v.items):
                fail(s, "row assignment of something other than a pair of ints")
            return self.bind_name(name, V("P", f"(np_set_pair {paren(a.t)} {i.t} ({v.items[0].t}, {v.items[1].t}))", py=a.py), env, binds, cont)
        if isinstance(target, ast.Subscript) and isinstance(target.value, ast.Name):
            name = target.value.id
            a = self.local_array(name, env, s)
            v = self.expr(value, env, binds)
            sl = target.slice
            if isinstance(sl, ast.Slice):
                k = self.const_lower_slice(sl, s)
                self.need(v, "L", s)
                return self.bind_name(name, V("L", f"(firstn {k} {paren(a.t)} ++ {v.t})", py=a.py), env, binds, cont)
            i = self.expr(sl, env, binds)
            if i.kind == "L" and v.kind == "L" and not a.py:
                return self.bind_name(name, V("L", f"(np_set_at {paren(a.t)} {paren(i.t)} {paren(v.t)})"), env, binds, cont)
            self.need(i, "Z", s)
            self.need(v, "Z", s)
            return self.bind_name(name, V("L", f"(np_set {paren(a.t)} {i.t} {v.t})", py=a.py), env, binds, cont)
        if isinstance(target, ast.Attribute) and isinstance(target.value, ast.Name) and target.value.id == "self" \
                and self.name == "__post_init__":
            if target.attr in ("gap_pos", "cum_gap_lengths"):
                v = self.need(self.expr(value, env, binds), "L", s)
                env2 = dict(env)
                loc = "f_" + target.attr
                env2["self." + target.attr] = V("L", loc)
                return self.with_binds(binds, f"let {loc} := {v.t} in\n{cont(env2)}")
            if target.attr == "num_gaps":
                v = self.need(self.expr(value, env, binds), "Z", s)
                env2 = dict(env)
                env2["self.num_gaps"] = V("Z", "f_num_gaps")
                return self.with_binds(binds, f"let f_num_gaps := {v.t} in\n{cont(env2)}")
        if isinstance(target, ast.Attribute) and target.attr == "writeable" and self.name == "__post_init__":
            return cont(env)
        fail(s, "assignment target")

    def const_lower_slice(self, sl, node):
        if sl.upper is not None or sl.step is not None or not isinstance(sl.lower, ast.Constant) or not isinstance(sl.lower.value, int) \
                or sl.lower.value < 0:
            fail(node, "only a[k:] with a literal k >= 0 may be assigned")
        return f"{sl.lower.value}%nat"

    def augassign(self, s, env, cont):
        binds = []
        sym = {ast.Add: "+", ast.Sub: "-", ast.Mult: "*"}.get(type(s.op))
        if sym is None:
            fail(s, "augmented operator")
        v = self.expr(s.value, env, binds)
        t = s.target
        if isinstance(t, ast.Name):
            if t.id not in env:
                fail(s, f"undefined {t.id}")
            a = env[t.id]
            if a.kind == "Z" and v.kind == "Z":
                return self.bind_name(t.id, V("Z", f"({a.t} {sym} {v.t})"), env, binds, cont)
            if a.kind == "P" and v.kind == "P" and a.py and v.py and sym == "+":
                return self.bind_name(t.id, V("P", f"({a.t} ++ {v.t})", py=True), env, binds, cont)
            if a.kind == "SL" and v.kind == "SL" and sym == "+":
                return self.bind_name(t.id, V("SL", f"({a.t} ++ {v.t})", py=True), env, binds, cont)
            if a.kind == "L" and v.kind == "Z" and not a.py:
                self.local_array(t.id, env, s)
                return self.bind_name(t.id, V("L", f"(map (fun p_ => p_ {sym} {v.t}) {paren(a.t)})"), env, binds, cont)
            fail(s, "augmented assignment kinds")
        if isinstance(t, ast.Subscript) and isinstance(t.value, ast.Name):
            a = self.local_array(t.value.id, env, s)
            if isinstance(t.slice, ast.Slice):
                k = self.const_lower_slice(t.slice, s)
                if sym not in "+-" or v.kind != "L":
                    fail(s, "a[k:] op= e")
                op2 = "add2" if sym == "+" else "sub2"
                return self.bind_name(t.value.id, V("L", f"(firstn {k} {paren(a.t)} ++ {op2} (skipn {k} {paren(a.t)}) {paren(v.t)})", py=a.py),
                                      env, binds, cont)
            i = self.expr(t.slice, env, binds)
            if i.kind == "L" and v.kind == "L" and not a.py and sym == "+":
                return self.bind_name(t.value.id, V("L", f"(np_add_at {paren(a.t)} {paren(i.t)} {paren(v.t)})"), env, binds, cont)
            self.need(i, "Z", s)
            self.need(v, "Z", s)
            if sym == "-":
                return self.bind_name(t.value.id, V("L", f"(sub_at {paren(a.t)} {i.t} {v.t})", py=a.py), env, binds, cont)
            fail(s, "a[i] op= e with op other than -")
        fail(s, "augmented assignment target")

    def opt_test(self, test, env):
        """`x is not None` / `x is None` where x is a component of an optional pair that is not yet known: (term, negated)"""
        if isinstance(test, ast.Compare) and len(test.ops) == 1 and isinstance(test.ops[0], (ast.Is, ast.IsNot)) \
                and isinstance(test.comparators[0], ast.Constant) and test.comparators[0].value is None:
            try:
                v = self.expr(test.left, dict(env), [])
            except TranslatorError:
                return None
            if v.kind == "OPC":
                return v.items[0], isinstance(test.ops[0], ast.Is)
        return None

    def if_stmt(self, s, env, cont, rest, k):
        # `if item.step is not None: raise ...` : the step of the slice is statically None
        binds = []
        env_t = dict(env)
        ot = self.opt_test(s.test, env)
        if ot is not None:
            t, negated = ot
            self.fresh += 1
            p0, p1 = f"p0_{self.fresh}", f"p1_{self.fresh}"
            env_some = dict(env)
            env_some["$known:" + t] = (p0, p1)
            some_branch, none_branch = (s.orelse, s.body) if negated else (s.body, s.orelse)

            def mk_if(some_term, none_term):
                return f"match {t} with\n| Some ({p0}, {p1}) => ({some_term})\n| None => ({none_term})\nend"

            env_b, env_o, body_b, body_o = env_some, env, some_branch, none_branch
            walrus = {}
        else:
            c = self.cond(s.test, env_t, binds)
            if binds:
                fail(s, "raising call inside a condition")
            walrus = {n: v for n, v in env_t.items() if n not in env}
            if c in ("negb (true)", "false"):
                return self.block(s.orelse, env, lambda e2: cont(e2)) if s.orelse else cont(env)
            if c in ("negb (false)", "true"):
                return self.block(s.body, env_t, lambda e2: cont(strip(e2, walrus)))

            def mk_if(then_term, else_term):
                return f"if {c}\nthen ({then_term})\nelse ({else_term})"

            env_b, env_o, body_b, body_o = env_t, env, s.body, s.orelse
        for n in ast.walk(s):
            if isinstance(n, (ast.Assign, ast.AugAssign)):
                for t_ in (n.targets if isinstance(n, ast.Assign) else [n.target]):
                    if isinstance(t_, ast.Attribute):
                        fail(s, "assignment to an attribute under a condition that is not decided statically")

        def leave(e2):
            e3 = strip(e2, walrus)
            return {n: v for n, v in e3.items() if not n.startswith("$known:") or n in env}

        exits = has_exit(s.body) or has_exit(s.orelse)
        if exits:
            # continuation style: what follows is repeated in every branch that falls through
            body = self.block(body_b, env_b, lambda e2: cont(leave(e2)))
            orelse = self.block(body_o, env_o, lambda e2: cont(leave(e2))) if body_o else cont(env)
            return mk_if(body, orelse)
        # merge of the variables assigned in the branches
        assigned_b, assigned_o = assigned(body_b), assigned(body_o)
        names = sorted(n for n in assigned_b | assigned_o if n in env or (n in assigned_b and n in assigned_o))
        if not names:
            return cont(env)
        env2 = dict(env)
        kinds = {}
        for n in names:
            kb = kind_after(self, body_b, env_b, n) if body_b else env[n]
            ko = kind_after(self, body_o, env_o, n) if body_o else env[n]
            kinds[n] = join_kind(kb, ko, s)
            if kinds[n] not in ("Z", "L", "B", "P", "D", "OPT", "S", "SL", "Q"):
                fail(s, f"variable {n} cannot be merged")
            env2[n] = V(kinds[n], cn(n), py=kb.py)

        def pack(e2):
            for n in names:
                if n not in e2:
                    fail(s, f"variable {n} cannot be merged")
            return tup([coerce(e2[n], kinds[n], s) for n in names])

        tb = self.block(body_b, env_b, pack) if body_b else pack(env)
        to = self.block(body_o, env_o, pack) if body_o else pack(env)
        # names assigned in only one branch and not defined before become undefined
        for n in (assigned_b | assigned_o) - set(names):
            env2.pop(n, None)
        pat = cn(names[0]) if len(names) == 1 else "'" + tup([cn(n) for n in names])
        return f"let {pat} :=\n  {mk_if(tb, to)} in\n{cont(env2)}"


def coerce(v, kind, node=None):
    if v.kind == kind:
        return v.t
    if kind == "OPT" and v.kind == "Z":
        return f"(Some {v.t})"
    if kind == "OPT" and v.kind == "NONE":
        return "None"
    fail(node, f"a {v.kind} where a {kind} is needed")


def join_kind(a, b, node=None):
    if a.kind == b.kind and a.py == b.py:
        return a.kind
    if {a.kind, b.kind} <= {"Z", "OPT", "NONE"}:
        return "OPT"
    fail(node, f"kinds {a.kind}/{b.kind} cannot be merged")


def kind_after(fn, stmts, env, name):
    """the value kind of `name` after the (exit-free) block: re-run the block with a probe continuation"""
    box = {}

    def probe(e2):
        box["v"] = e2.get(name)
        return "tt"

    saved = fn.fresh
    fn.block(stmts, dict(env), probe)
    fn.fresh = saved
    if box.get("v") is None:
        fail(None, f"variable {name} undefined after a branch")
    return box["v"]


def strip(env, walrus):
    return {n: v for n, v in env.items() if n not in walrus}


def cn(name):
    """Coq name of a Python local or parameter: primed, so that it cannot capture a global (record accessors, list functions)"""
    return name + "'"


def tup(ts):
    return ts[0] if len(ts) == 1 else "(" + ", ".join(ts) + ")"


def paren(t):
    t = t.strip()
    if t.startswith("(") and matching(t) or " " not in t or t.startswith("["):
        return t
    return f"({t})"


def matching(t):
    d = 0
    for i, ch in enumerate(t):
        d += ch == "("
        d -= ch == ")"
        if d == 0 and i < len(t) - 1:
            return False
    return True


def dotted(f):
    if isinstance(f, ast.Name):
        return f.id
    if isinstance(f, ast.Attribute):
        b = dotted(f.value)
        return f"{b}.{f.attr}" if b else None
    return None


def has_exit(stmts):
    for s in stmts or []:
        for n in ast.walk(s):
            if isinstance(n, (ast.Return, ast.Raise, ast.Yield, ast.YieldFrom, ast.Continue, ast.Break, ast.Assert)):
                return True
    return False


def assigned(stmts):
    out = set()
    for s in stmts or []:
        for n in ast.walk(s):
            if isinstance(n, (ast.Assign, ast.AugAssign)):
                for t in (n.targets if isinstance(n, ast.Assign) else [n.target]):
                    for x in ast.walk(t):
                        if isinstance(x, ast.Name) and isinstance(x.ctx, ast.Store):
                            out.add(x.id)
                        if isinstance(x, ast.Subscript) and isinstance(x.value, ast.Name):
                            out.add(x.value.id)
            if isinstance(n, ast.Delete):
                for t in n.targets:
                    if isinstance(t, ast.Subscript) and isinstance(t.value, ast.Name):
                        out.add(t.value.id)
            if isinstance(n, ast.Call) and isinstance(n.func, ast.Attribute) and n.func.attr == "append" and isinstance(n.func.value, ast.Name):
                out.add(n.func.value.id)
            if isinstance(n, ast.NamedExpr):
                out.add(n.target.id)
    return out


# ------------------------------------------------------------------ the translation unit

class Translator:
    def __init__(self, repo):
        self.path = os.path.join(repo, "src", "cogent3", "core", "location.py")
        self.rel = "src/cogent3/core/location.py"
        self.text = open(self.path).read()
        self.lines = self.text.split("\n")
        self.tree = ast.parse(self.text)
        self.defs = {}
        self.records = []
        self.uses_num_gaps = False
        self.list_hints = {("make_seq_feature_map", "spans"): "SL"}
        self.wanted = []
        self.find()

    def find(self):
        cls = None
        for n in self.tree.body:
            if isinstance(n, ast.FunctionDef) and n.name in ("_gap_spans", "_update_lengths", "span_and_span", "coords_intersect", "coords_minus_coords", "gap_coords_to_map"):
                self.defs[n.name] = n
            if isinstance(n, ast.ClassDef) and n.name == "IndelMap":
                cls = n
        if cls is None or "_gap_spans" not in self.defs:
            fail(None, "class IndelMap / function _gap_spans not found")
        for n in cls.body:
            if isinstance(n, ast.FunctionDef):
                if n.name in ("__getitem__", "_"):
                    ann = n.args.args[1].annotation if len(n.args.args) > 1 else None
                    kind = getattr(ann, "id", None)
                    if kind in ("int", "slice"):
                        if "__getitem__" + kind in self.defs:
                            fail(n, f"two registrations of __getitem__ for {kind}")
                        self.defs["__getitem__" + kind] = n
                    for d in n.decorator_list:
                        if isinstance(d, ast.Attribute) and d.attr == "register" and isinstance(d.value, ast.Name) \
                                and d.value.id in ("shared_gaps", "minus_gaps"):
                            which = "map" if (isinstance(ann, ast.Constant) and ann.value == "IndelMap") or kind == "IndelMap" else \
                                    "arr" if dotted(ann) in ("numpy.ndarray", "ndarray") else None
                            if which is None:
                                fail(n, f"registration of {d.value.id} for an unknown type")
                            key = f"{d.value.id}:{which}"
                            if key in self.defs:
                                fail(n, f"two registrations {key}")
                            self.defs[key] = n
                elif n.name in ("shared_gaps", "minus_gaps"):
                    # the singledispatch base: taken for every argument that is not an ndarray (an IndelMap)
                    if not any(dotted(d) == "functools.singledispatchmethod" for d in n.decorator_list):
                        fail(n, f"{n.name} is not a singledispatchmethod")
                    self.defs[n.name + ":map"] = n
                elif n.name in SIGS or n.name == "__post_init__":
                    if n.name in self.defs:
                        fail(n, f"two definitions of {n.name}")
                    self.defs[n.name] = n
        self.empty_is_none_pair = False
        for n in self.tree.body:
            if isinstance(n, ast.Assign) and len(n.targets) == 1 and isinstance(n.targets[0], ast.Name) and n.targets[0].id == "_empty":
                self.empty_is_none_pair = ast.dump(n.value) == ast.dump(ast.parse("None, None", mode="eval").body)
        for f in list(SIGS) + ["__post_init__"]:
            if f not in self.defs:
                fail(None, f"function {f} not found")
        for n in cls.body:
            if isinstance(n, ast.FunctionDef) and n.name in ("__getattr__", "__getattribute__", "__setattr__", "__bool__", "__new__"):
                fail(n, f"IndelMap defines {n.name}")

    def want(self, f):
        pass

    def record(self, name, node):
        first = min([node.lineno] + [d.lineno for d in node.decorator_list])
        src = "\n".join(self.lines[first - 1: node.end_lineno])
        coq = "G.g_post_init_cum, G.g_post_init_len" if name == "__post_init__" else "G." + coqname(name)
        self.records.append(dict(function=name, coq=coq, file=self.rel, lines=[first, node.end_lineno],
                                 sha1=hashlib.sha1(src.encode()).hexdigest()))

    def function(self, key):
        node = self.defs[key]
        pk, rk, pure = SIGS[key]
        fn = Fn(self, key, rk, pure)
        fn.node = node
        params = [a.arg for a in node.args.args]
        if node.args.vararg or node.args.kwarg or node.args.kwonlyargs:
            fail(node, "star arguments")
        env = {}
        sig = []
        if key == "from_aligned_segments":
            if params[0] != "cls":
                fail(node, "from_aligned_segments is not a classmethod")
            params = params[1:]
        elif key not in ("_gap_spans", "_update_lengths", "span_and_span", "coords_intersect", "coords_minus_coords", "gap_coords_to_map"):
            if params[0] != "self":
                fail(node, "first parameter is not self")
            env["self"] = V("M", "self")
            sig.append("(self : imap)")
            params = params[1:]
        if len(params) != len(pk):
            fail(node, f"{key}: {len(params)} parameters, expected {len(pk)}")
        for p, k in zip(params, pk):
            if k == "SLICE":
                env[p] = V("SLICE", items={"start": V("OPT", f"{p}_start"), "stop": V("OPT", f"{p}_stop"), "step": V("NONE")})
                sig.append(f"({p}_start {p}_stop : option Z)")
            elif k == "M":
                env[p] = V("M", p)
                sig.append(f"({p} : imap)")
            elif k == "FM":
                env[p] = V("FM", cn(p))
                sig.append(f"({cn(p)} : fmap)")
            elif k == "D":
                env[p] = V("D", cn(p))
                sig.append(f"({cn(p)} : list (Z * Z))")
            elif k == "T2":
                env[p] = V("T", items=[V("Z", f"(fst {cn(p)})"), V("Z", f"(snd {cn(p)})")])
                sig.append(f"({cn(p)} : Z * Z)")
            elif k == "OPT":
                env[p] = V("OPT", cn(p))
                sig.append(f"({cn(p)} : option Z)")
            else:
                env[p] = V(k, cn(p), field=(k == "L" and (key == "_gap_spans" or (key == "_update_lengths" and p != params[1]))))
                sig.append(f"({cn(p)} : {COQTYPE[k]})")
        # defaults: only `slice_stop: bool = False` style literals are tolerated (every call in the kernel is positional)
        if key == "_update_lengths":
            mut = params[1]
            if has_exit(node.body):
                fail(node, "_update_lengths returns / raises")
            body = fn.block(node.body, env, lambda e2: e2[mut].t)
        else:
            body = fn.block(node.body, env, None)
        rt = COQTYPE[rk] if pure else f"res ({COQTYPE[rk]})"
        self.record(key, node)
        rec = "Fixpoint" if False else "Definition"
        return f"{rec} {coqname(key)} {' '.join(sig)} : {rt} :=\n{body}."

    def post_init(self, form):
        """__post_init__ specialised to the keyword form `cum_gap_lengths=` ('cum') or `gap_lengths=` ('len')"""
        node = self.defs["__post_init__"]
        params = [a.arg for a in node.args.args]
        if params != ["self", "gap_lengths"]:
            fail(node, "__post_init__ parameters")
        fn = Fn(self, "__post_init__", "M", False)
        env = {"self": V("M", "self"), "self.gap_pos": V("L", "gp"), "self.parent_length": V("Z", "plen")}
        if form == "cum":
            env["gap_lengths"] = V("NONE")
            env["self.cum_gap_lengths"] = V("L", "arr")
        else:
            env["gap_lengths"] = V("L", "arr")
            env["self.cum_gap_lengths"] = V("NONE")

        def end(e2):
            for f in ("self.gap_pos", "self.cum_gap_lengths"):
                if e2.get(f) is None or e2[f].kind != "L":
                    fail(node, f"{f} is not an array at the end of __post_init__")
            if "self.num_gaps" not in e2 or e2["self.num_gaps"].t != "f_num_gaps":
                fail(node, "__post_init__ does not set num_gaps")
            return f"Ok (mk_imap {paren(e2['self.gap_pos'].t)} {paren(e2['self.cum_gap_lengths'].t)} {e2['self.parent_length'].t})"

        body = fn.block(node.body, env, end)
        # num_gaps must be the length of gap_pos: that is how every other function reads it
        ok = False
        for s in ast.walk(node):
            if isinstance(s, ast.Assign) and isinstance(s.targets[0], ast.Attribute) and s.targets[0].attr == "num_gaps":
                ok = ast.dump(s.value) == ast.dump(ast.parse("self.gap_pos.shape[0]", mode="eval").body)
        if not ok:
            fail(node, "self.num_gaps is not set to self.gap_pos.shape[0]")
        if form == "cum":
            self.record("__post_init__", node)
        return f"Definition g_post_init_{form} (gp arr : list Z) (plen : Z) : res imap :=\nlet self := mk_imap gp arr plen in\n{body}."

    def emit(self):
        out = [
            "(* GENERATED by harness/translators/indelmap.py from src/cogent3/core/location.py - do not edit *)",
            "From CG3 Require Import Lib.PyZ Lib.Val Model.IndelMap Model.IndelMapFixed Model.NumpyPrims Model.FeatureMap Model.FeatureMapPrims.",
            "",
            "Module G.",
            "",
        ]
        # attribute reads of fields inside __post_init__ go through env keys "self.x"
        out.append(self.post_init("cum"))
        out.append("")
        out.append(self.post_init("len"))
        out.append("")
        order = ["_gap_spans", "_update_lengths", "__len__", "get_gap_lengths", "get_seq_index", "get_align_index", "__getitem__slice", "__getitem__int",
                 "__add__", "__mul__", "nucleic_reversed", "get_coordinates", "get_gap_coordinates", "get_gap_align_coordinates", "merge_maps", "nongap", "spans",
                 "span_and_span", "coords_intersect", "coords_minus_coords", "shared_gaps:arr", "shared_gaps:map",
                 "minus_gaps:arr", "minus_gaps:map", "joined_segments", "gap_coords_to_map", "from_aligned_segments", "make_seq_feature_map"]
        for f in order:
            out.append(self.function(f))
            out.append("")
        out.append("End G.")
        return "\n".join(out) + "\n"


def main(argv):
    repo = os.environ.get("VERIF_REPO", "/repo")
    records = None
    i = 0
    while i < len(argv):
        if argv[i] == "--repo":
            repo = argv[i + 1]
            i += 2
        elif argv[i] == "--records":
            records = argv[i + 1]
            i += 2
        else:
            print("usage: indelmap.py [--repo DIR] [--records FILE]", file=sys.stderr)
            return 2
    try:
        tr = Translator(repo)
        text = tr.emit()
    except TranslatorError as e:
        print(f"TranslatorError: {e}", file=sys.stderr)
        return 3
    except (OSError, SyntaxError) as e:
        print(f"TranslatorError: cannot read the source: {e}", file=sys.stderr)
        return 3
    if records:
        with open(records, "w") as f:
            json.dump(tr.records, f, indent=1)
    sys.stdout.write(text)
    return 0


if __name__ == "__main__":
    sys.exit(main(sys.argv[1:]))
