"""Translator for C08, part 2: regenerate coq/gen/FeatureMapGen.v from the CURRENT text of
`_spans_from_locations`, `MapABC.from_locations` and `FeatureMap.gaps / nongap / nucleic_reversed / inverse / shadow`
in src/cogent3/core/location.py (pure `ast`, fail-closed; same fragment and conventions as
harness/translators/indelmap.py, whose statement / expression translation it reuses).

Spans are `fspan` (`FS start end reverse | FL length`) of Model/FeatureMap.v: `Span(a, b, reverse=r)` is `mk_span a b r`
(start and end swapped when start > end, as `Span._new_init` does), `LostSpan(n)` is `FL n`; `span.lost/.start/.end/.length/
.reverse` are `is_lost / sp_start / sp_end / slen / sp_rev`; a feature map is `mk_fmap spans parent_length`, `len(self)`
is `flen self` (the `length` computed by `__post_init__`), `self.spans` is `fspans self`; `tidy_start`, `tidy_end`, `value`
are not modelled.  `MapABC.from_locations` is read as "spans = _spans_from_locations(...) if len(locations) else ();
cls(spans, parent_length)" - its text is checked to be exactly that.

Not translated (they stay behaviourally tied): FeatureMap.__getitem__ / Span.remap_with / Span.__getitem__ (bisect and in-place
list surgery on span objects), covered (the sweep keeps an Optional start inside the emitted pairs), __mul__, __add__,
without_gaps, get_coordinates (comprehensions), zeroed, absolute/relative_position.

usage: featuremap.py [--repo DIR] [--records FILE]     prints FeatureMapGen.v on stdout
"""
from __future__ import annotations

import ast
import hashlib
import json
import os
import sys

sys.path.insert(0, os.path.dirname(os.path.abspath(__file__)))
import indelmap as I  # noqa: E402

SIGS = {
    "_spans_from_locations": (["P", "Z"], "SL", False),
    "gaps": ([], "FM", False),
    "nongap": ([], "SL", False),
    "nucleic_reversed": ([], "FM", False),
    "inverse": ([], "FM", False),
    "shadow": ([], "FM", False),
}
COQ = {"_spans_from_locations": "g_spans_from_locations", "gaps": "g_fm_gaps", "nongap": "g_fm_nongap",
       "nucleic_reversed": "g_fm_nucleic_reversed", "inverse": "g_fm_inverse", "shadow": "g_fm_shadow"}
HINTS = {("_spans_from_locations", "spans"): "SL", ("nucleic_reversed", "spans"): "SL", ("inverse", "new_spans"): "SL",
         ("inverse", "temp"): "Q", ("gaps", "locations"): "P", ("nongap", "locations"): "P"}

FROM_LOCATIONS = '''
if len(locations):
    spans = _spans_from_locations(locations, parent_length=parent_length)
else:
    spans = ()
return cls.from_spans(spans=spans, parent_length=parent_length, **kwargs)
'''
FROM_SPANS = "return cls(spans=spans, parent_length=parent_length)"


class Translator:
    def __init__(self, repo):
        self.path = os.path.join(repo, "src", "cogent3", "core", "location.py")
        self.rel = "src/cogent3/core/location.py"
        self.text = open(self.path).read()
        self.lines = self.text.split("\n")
        self.tree = ast.parse(self.text)
        self.defs = {}
        self.records = []
        self.list_hints = HINTS
        self.empty_is_none_pair = False
        fm = mapabc = None
        for n in self.tree.body:
            if isinstance(n, ast.FunctionDef) and n.name == "_spans_from_locations":
                self.defs[n.name] = n
            if isinstance(n, ast.ClassDef) and n.name == "FeatureMap":
                fm = n
            if isinstance(n, ast.ClassDef) and n.name == "MapABC":
                mapabc = n
        if fm is None or mapabc is None or "_spans_from_locations" not in self.defs:
            I.fail(None, "FeatureMap / MapABC / _spans_from_locations not found")
        if [dotted for dotted in (I.dotted(b) for b in fm.bases)] != ["MapABC"]:
            I.fail(fm, "FeatureMap does not derive from MapABC alone")
        for n in fm.body:
            if isinstance(n, ast.FunctionDef) and n.name in SIGS:
                if n.name in self.defs:
                    I.fail(n, f"two definitions of {n.name}")
                self.defs[n.name] = n
            if isinstance(n, ast.FunctionDef) and n.name in ("from_locations", "__getattr__", "__getattribute__", "__len__") \
                    and n.name != "__len__":
                I.fail(n, f"FeatureMap defines {n.name}")
        for f in SIGS:
            if f not in self.defs:
                I.fail(None, f"function {f} not found")
        # the structural readings
        self.check_body(mapabc, "from_locations", FROM_LOCATIONS, ["cls", "locations", "parent_length"])
        self.check_body(fm, "from_spans", FROM_SPANS, ["cls", "spans", "parent_length"])
        ln = [n for n in fm.body if isinstance(n, ast.FunctionDef) and n.name == "__len__"]
        if len(ln) != 1 or self.body_dump(ln[0]) != self.dump_src("return self.length"):
            I.fail(fm, "FeatureMap.__len__ is not `return self.length`")

    @staticmethod
    def dump_src(src):
        return [ast.dump(x) for x in ast.parse(src.strip()).body]

    @staticmethod
    def body_dump(node):
        body = [x for x in node.body if not (isinstance(x, ast.Expr) and isinstance(x.value, ast.Constant))]
        return [ast.dump(x) for x in body]

    def check_body(self, cls, name, src, params):
        fs = [n for n in cls.body if isinstance(n, ast.FunctionDef) and n.name == name]
        if len(fs) != 1:
            I.fail(cls, f"{cls.name}.{name} not found")
        f = fs[0]
        if [a.arg for a in f.args.args] != params:
            I.fail(f, f"{name} parameters")
        if self.body_dump(f) != self.dump_src(src):
            I.fail(f, f"{cls.name}.{name} is not the expected text")
        self.record(f"{cls.name}.{name} (structural reading)", f, "-")

    def want(self, f):
        pass

    def record(self, name, node, coq):
        first = min([node.lineno] + [d.lineno for d in node.decorator_list])
        src = "\n".join(self.lines[first - 1: node.end_lineno])
        self.records.append(dict(function=name, coq=coq, file=self.rel, lines=[first, node.end_lineno],
                                 sha1=hashlib.sha1(src.encode()).hexdigest()))

    def function(self, key):
        node = self.defs[key]
        pk, rk, pure = SIGS[key]
        fn = I.Fn(self, key, rk, pure)
        fn.node = node
        params = [a.arg for a in node.args.args]
        env, sig = {}, []
        if key != "_spans_from_locations":
            if params[0] != "self":
                I.fail(node, "first parameter is not self")
            env["self"] = I.V("FM", "self")
            sig.append("(self : fmap)")
            params = params[1:]
        if len(params) != len(pk) or node.args.vararg or node.args.kwarg or node.args.kwonlyargs:
            I.fail(node, f"{key}: parameters")
        for p, k in zip(params, pk):
            env[p] = I.V(k, I.cn(p))
            sig.append(f"({I.cn(p)} : {I.COQTYPE[k]})")
        body = fn.block(node.body, env, None)
        self.record(("FeatureMap." if key != "_spans_from_locations" else "") + key, node, "GF." + COQ[key])
        return f"Definition {COQ[key]} {' '.join(sig)} : res ({I.COQTYPE[rk]}) :=\n{body}."

    def emit(self):
        out = ["(* GENERATED by harness/translators/featuremap.py from src/cogent3/core/location.py - do not edit *)",
               "From CG3 Require Import Lib.PyZ Lib.Val Model.IndelMap Model.NumpyPrims Model.FeatureMap Model.FeatureMapPrims.", "", "Module GF.", ""]
        out.append(self.function("_spans_from_locations"))
        out.append("")
        out.append("(* MapABC.from_locations with cls = FeatureMap (text checked by the translator) *)\n"
                   "Definition g_from_locations (locations' : list (Z * Z)) (parent_length' : Z) : res (fmap) :=\n"
                   "if negb (zlen locations' =? 0)\n"
                   "then (bind (g_spans_from_locations locations' parent_length') (fun spans' => Ok (mk_fmap spans' parent_length')))\n"
                   "else (Ok (mk_fmap [] parent_length')).")
        out.append("")
        for f in ("gaps", "nongap", "nucleic_reversed", "inverse", "shadow"):
            out.append(self.function(f))
            out.append("")
        out.append("End GF.")
        return "\n".join(out) + "\n"


def main(argv):
    repo = os.environ.get("VERIF_REPO", "/repo")
    records = None
    i = 0
    while i < len(argv):
        if argv[i] == "--repo":
            repo, i = argv[i + 1], i + 2
        elif argv[i] == "--records":
            records, i = argv[i + 1], i + 2
        else:
            print("usage: featuremap.py [--repo DIR] [--records FILE]", file=sys.stderr)
            return 2
    try:
        tr = Translator(repo)
        text = tr.emit()
    except I.TranslatorError as e:
        print(f"TranslatorError: {e}", file=sys.stderr)
        return 3
    except (OSError, SyntaxError) as e:
        print(f"TranslatorError: cannot read the source: {e}", file=sys.stderr)
        return 3
    if records:
        with open(records, "w") as f:
            json.dump(tr.records, f, indent=1)
    sys.stdout.write(text)
    return 0


if __name__ == "__main__":
    sys.exit(main(sys.argv[1:]))
