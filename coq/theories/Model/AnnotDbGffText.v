(** C17 — model of the GFF line -> row step: [parse.gff._gff_parser] (one line)
    followed by the name / parent extraction of [merged_gff_records], with
    [attribute_parser=_leave_attributes] as [_db_from_gff] calls it.
    Strings are lists of code points.  Transcribed branch for branch:

      if "#" in line: line, comments = line.split("#", 1)
      line = line.strip(); if not line: continue
      cols = [c.strip() for c in line.split("\t")]; 8 columns -> append ""
      assert len(cols) == 9
      start, end = int(start) - 1, int(end); abs() if negative; swap if start > end
      ID:     re.search(r"(?<=ID=)[^;\s]+", attrs)
      Parent: re.search(r"(?<=Parent=)[^;\s]+", attrs)

    Nothing is unescaped (%3B stays %3B), the attribute text is kept raw.
    Limits: [int()] is modelled for [+-]?[0-9]+ only (no underscores, no
    non-ASCII digits); a text is cut into lines at "\n" only. *)
From CG3 Require Import Lib.PyZ Lib.Val Model.AnnotDb Model.AnnotDbGff.

(** [str.isspace] / regex [\s] *)
Definition is_ws (c : Z) : bool :=
  ((9 <=? c) && (c <=? 13)) || ((28 <=? c) && (c <=? 32)) || (c =? 133) || (c =? 160)
  || (c =? 5760) || ((8192 <=? c) && (c <=? 8202)) || (c =? 8232) || (c =? 8233)
  || (c =? 8239) || (c =? 8287) || (c =? 12288).

Fixpoint lstrip (s : str) : str :=
  match s with
  | c :: t => if is_ws c then lstrip t else s
  | [] => []
  end.
Definition rstrip (s : str) : str := rev (lstrip (rev s)).
Definition strip (s : str) : str := rstrip (lstrip s).

(** [line.split("#", 1)[0]] *)
Fixpoint before_hash (s : str) : str :=
  match s with
  | [] => []
  | c :: t => if c =? 35 then [] else c :: before_hash t
  end.

(** [s.split(d)]: at least one piece *)
Fixpoint split_on (d : Z) (s : str) : list str :=
  match s with
  | [] => [[]]
  | c :: t =>
      if c =? d then [] :: split_on d t
      else match split_on d t with
           | p :: ps => (c :: p) :: ps
           | [] => [[c]]
           end
  end.

Definition is_digit (c : Z) : bool := (48 <=? c) && (c <=? 57).

Fixpoint digits_val (acc : Z) (s : str) : option Z :=
  match s with
  | [] => Some acc
  | c :: t => if is_digit c then digits_val (10 * acc + (c - 48)) t else None
  end.

(** [int(s)] for [+-]?[0-9]+ *)
Definition parse_int (s : str) : option Z :=
  match s with
  | [] => None
  | c :: t =>
      if c =? 45 then match t with [] => None | _ => option_map Z.opp (digits_val 0 t) end
      else if c =? 43 then match t with [] => None | _ => digits_val 0 t end
      else digits_val 0 s
  end.

(** [[^;\s]+] from the start of [s] *)
Fixpoint take_val (s : str) : str :=
  match s with
  | c :: t => if (c =? 59) || is_ws c then [] else c :: take_val t
  | [] => []
  end.

Fixpoint starts_with (p s : str) : bool :=
  match p, s with
  | [], _ => true
  | a :: p', b :: s' => (a =? b) && starts_with p' s'
  | _ :: _, [] => false
  end.

(** [re.search("(?<=" ++ pat ++ ")[^;\s]+", s)]: leftmost place right after an
    occurrence of [pat] where at least one value character follows *)
Fixpoint find_after (pat : str) (s : str) : option str :=
  match s with
  | [] => None
  | _ :: t =>
      if starts_with pat s then
        match take_val (skipn (length pat) s) with
        | [] => find_after pat t
        | v => Some v
        end
      else find_after pat t
  end.

Definition pat_id : str := [73; 68; 61].                       (* "ID=" *)
Definition pat_parent : str := [80; 97; 114; 101; 110; 116; 61]. (* "Parent=" *)

Definition id_of_attrs (a : str) : option str := find_after pat_id a.
Definition parent_of_attrs (a : str) : option str := find_after pat_parent a.

Inductive parsed := PSkip | PRow (l : gline) | PErr (code : Z).

Definition parse_line (line : str) : parsed :=
  let body := strip (before_hash line) in
  match body with
  | [] => PSkip
  | _ =>
      let cols := map strip (split_on 9 body) in
      let cols := if Nat.eqb (length cols) 8 then cols ++ [[]] else cols in
      match cols with
      | [seqid; _source; type_; start; end_; _score; strand; _phase; attrs] =>
          match parse_int start with
          | None => PErr E_Value
          | Some s =>
              match parse_int end_ with
              | None => PErr E_Value
              | Some e =>
                  PRow {| gl_id := id_of_attrs attrs; gl_seqid := seqid; gl_biotype := type_;
                          gl_strand := strand; gl_attrs := attrs; gl_s := s; gl_e := e |}
              end
          end
      | _ => PErr E_Other  (* AssertionError *)
      end
  end.

(** a whole file: [None] when some line makes the parser raise *)
Fixpoint parse_lines (ls : list str) : option (list (option gline)) :=
  match ls with
  | [] => Some []
  | l :: t =>
      match parse_line l, parse_lines t with
      | PSkip, Some r => Some (None :: r)
      | PRow g, Some r => Some (Some g :: r)
      | _, _ => None
      end
  end.

(** text -> lines at "\n"; a final newline does not open a further line *)
Definition lines_of (text : str) : list str :=
  match rev (split_on 10 text) with
  | [] :: r => rev r
  | _ => split_on 10 text
  end.

(** [load_annotations] of one GFF text with [lines_per_block = N] (repaired rules) *)
Definition load_text (N : Z) (text : str) : option gstate :=
  option_map (load true N) (parse_lines (lines_of text)).

(** ---------- observation ---------- *)
Definition run_parse_line (line : str) : val :=
  match parse_line line with
  | PSkip => VN
  | PErr c => VE c
  | PRow g =>
      VL [vostr (gl_id g); vostr (parent_of_attrs (gl_attrs g)); VS (gl_seqid g); VS (gl_biotype g);
          VS (gl_strand g); VS (gl_attrs g); vpairZ (gl_span g)]
  end.

(** ---------- get_feature_children / get_feature_parent on the gff table ----------
    The parent of a stored record is the Parent= value of its FIRST row (the raw
    text up to ';' or white space, a comma-separated list is kept as one string).

    children(q): [parent_id LIKE '%q%'] (optionally [AND biotype = b]) — so a
                 name that is merely PART of a parent name is accepted as well
                 (g1 / g10), unless [strict];
    parent(q):   for every record whose [name LIKE '%q%'], in table order: stop
                 altogether at the first one without parent_id, else for each
                 name of its parent list the first record with [name = it]
                 ([LIKE] when it holds a '%').
    Names of ID-less records (unknown-<k>) are not rendered as text here: the
    model is used for queries [q] that cannot match them. *)
Definition wrap_pct (q : str) : str := 37 :: q ++ [37].

Definition row_parent (r : grow) : option str := parent_of_attrs (gl_attrs (gr_line r)).

(** [strict = true]: the rule of notes/proposed_fixes/C17-5.diff — a record is kept
    only if [q] IS one of the names of its parent list (unless [q] holds a '%') *)
Definition gff_children (strict : bool) (q : str) (bt : option str) (db : list grow) : list grow :=
  filter (fun r =>
            match row_parent r with
            | Some p => like (wrap_pct q) p
                        && (if strict && negb (has_pct q) then existsb (str_eqb q) (split_on 44 p) else true)
            | None => false
            end && match bt with None => true | Some b => str_eqb b (gl_biotype (gr_line r)) end) db.

Definition name_like (q : str) (n : gname) : bool :=
  match n with GReal s => like (wrap_pct q) s | GFake _ => false end.

Definition name_is (nm : str) (n : gname) : bool :=
  match n with
  | GReal s => if has_pct nm then like nm s else str_eqb nm s
  | GFake _ => false
  end.

(** [parent_id.replace(" ", "").split(",")] (a parent_id never holds a blank) *)
Definition parent_names (p : str) : list str := split_on 44 p.

Fixpoint parents_of (cands : list grow) (db : list grow) : list grow :=
  match cands with
  | [] => []
  | r :: t =>
      match row_parent r with
      | None => []
      | Some p =>
          flat_map (fun nm => match find (fun x => name_is nm (gr_name x)) db with Some x => [x] | None => [] end)
                   (parent_names p)
          ++ parents_of t db
      end
  end.

Definition name_exact (q : str) (n : gname) : bool :=
  match n with GReal s => str_eqb q s | GFake _ => false end.

(** [strict = true] (C17-5.diff): candidates whose name merely contains [q] are skipped *)
Definition gff_parents (strict : bool) (q : str) (db : list grow) : list grow :=
  let cands := filter (fun r => name_like q (gr_name r)) db in
  parents_of (if strict && negb (has_pct q) then filter (fun r => name_exact q (gr_name r)) cands else cands) db.

(** a case: variants, file, block size, queries; per query (children, children of biotype CDS, parents) *)
Definition run_family (c : bool * bool * list (option gline) * Z * list str) : val :=
  let '(fixed, strict, lines, N, qs) := c in
  let db := st_db (load fixed N lines) in
  VL (map (fun q => VL [VL (map grow_val (gff_children strict q None db));
                        VL (map grow_val (gff_children strict q (Some [67; 68; 83]) db));
                        VL (map grow_val (gff_parents strict q db))]) qs).
