(** C17 — executable runner used by the correspondence check: builds a database
    from raw inputs with the model's own constructors, applies a history of
    operations and answers queries with the clauses regenerated from the
    current source. *)
From CG3 Require Import Lib.PyZ Lib.Val Model.AnnotDb.
From CG3gen Require Import OverlapGen.

Inductive raw :=
| RawUser (seqid biotype name : str) (strand attrs : option str) (on : option bool) (spans : list (Z * Z))
| RawGff (seqid biotype name : str) (strand attrs : option str) (lines : list (Z * Z))
| RawGb (seqid biotype name : str) (x : loc).

Definition mk_row (r : raw) : row :=
  match r with
  | RawUser s b n st a on sp => add_feature s b n st a on sp
  | RawGff s b n st a ls => gff_row s b n st a ls
  | RawGb s b n x => gb_row s b n x
  end.

Definition gq := query_db gen_partial gen_within gen_start_only gen_stop_only.
Definition gc := count_db gen_partial gen_within gen_start_only gen_stop_only.

Inductive op :=
| OAdd (r : raw)
| OUnion (otables : list Z) (other : list raw)      (* self.union(other), other of the class with tables otables *)
| OUpdate (otables : list Z) (other : list raw)     (* self.update(other) *)
| OSubset (q : query)            (* self.subset(...) *)
| OCopy                          (* deepcopy / pickle / write+reload *)
| OJson.                         (* to_rich_dict -> json -> from_dict *)

Definition apply_op (tables : list Z) (db : list row) (o : op) : list row :=
  match o with
  | OAdd r => db ++ [mk_row r]
  | OUnion otables other => db_union_tw tables otables db (map mk_row other)
  | OUpdate otables other => db_update_tw otables db (map mk_row other)
  | OSubset q => gq tables db q
  | OCopy => db
  | OJson => from_rich (to_rich tables db)
  end.

Definition feat_val (r : row) : val :=
  VL [vostr (r_seqid r); vostr (r_biotype r); vostr (r_name r); vostr (r_strand r);
      vobool (r_on_aln r); VL (map vpairZ (r_spans r))].
Definition rec_val (r : row) : val :=
  VL [vostr (r_seqid r); vostr (r_biotype r); vostr (r_name r); vostr (r_strand r);
      vobool (r_on_aln r); VL (map vpairZ (r_spans r)); VZ (r_start r); VZ (r_stop r)].

(** num_matches takes no window and (in the harness) no attributes; on_alignment
    only for the single-table class *)
Definition count_q (tables : list Z) (q : query) : query :=
  {| q_biotype := q_biotype q; q_seqid := q_seqid q; q_name := q_name q; q_strand := q_strand q;
     q_attrs := None; q_attrs_lit := q_attrs_lit q;
     q_on_aln := match tables with [1] => q_on_aln q | _ => None end;
     q_start := None; q_stop := None; q_partial := q_partial q |}.

(** a case: tables of the class, history, queries; the answer to each query is
    (features, records, count-without-window) *)
Definition run_case (c : list Z * list op * list query) : val :=
  let '(tables, ops, qs) := c in
  let db := fold_left (apply_op tables) ops [] in
  VL (map (fun q =>
             let rows := gq tables db q in
             VL [VL (map feat_val rows); VL (map rec_val rows); VZ (gc tables db (count_q tables q))]) qs).

Definition mkql (lit : bool) (bt sid nm : qval) (st at_ : option str) (on : option bool) (qs qe : option Z) (p : bool) : query :=
  {| q_biotype := bt; q_seqid := sid; q_name := nm; q_strand := st; q_attrs := at_; q_attrs_lit := lit;
     q_on_aln := on; q_start := qs; q_stop := qe; q_partial := p |}.
Definition mkq := mkql false.

(** count_distinct on the database a history produces *)
Definition voostr (o : option (option str)) : val := match o with Some v => VL [vostr v] | None => VL [] end.
Definition cd_val (o : option (list (key * Z))) : val :=
  match o with
  | None => VN
  | Some l => VL (map (fun p => VL [VL [voostr (fst (fst (fst p))); voostr (snd (fst (fst p))); voostr (snd (fst p))]; VZ (snd p)]) l)
  end.
Definition run_cd_case (c : list Z * list op * list (cdarg * cdarg * cdarg)) : val :=
  let '(tables, ops, cds) := c in
  let db := fold_left (apply_op tables) ops [] in
  VL (map (fun a => cd_val (count_distinct tables db (fst (fst a)) (snd (fst a)) (snd a))) cds).
