(** C17 — executable runner used by the correspondence check: builds a database
    from raw inputs with the model's own constructors, applies a history of
    operations and answers queries with the clauses regenerated from the
    current source. *)
From CG3 Require Import Lib.PyZ Lib.Val Model.AnnotDb.
From CG3gen Require Import OverlapGen.

Inductive raw :=
| RawUser (seqid biotype name : str) (strand attrs : option str) (on : option bool) (spans : list (Z * Z))
| RawGff (seqid biotype name : str) (strand attrs : option str) (lines : list (Z * Z)).

Definition mk_row (r : raw) : row :=
  match r with
  | RawUser s b n st a on sp => add_feature s b n st a on sp
  | RawGff s b n st a ls => gff_row s b n st a ls
  end.

Definition gq := query_db gen_partial gen_within gen_start_only gen_stop_only.
Definition gc := count_db gen_partial gen_within gen_start_only gen_stop_only.

Inductive op :=
| OAdd (r : raw)
| OUnion (other : list raw)      (* self.union(other) *)
| OUpdate (other : list raw)     (* self.update(other) *)
| OSubset (q : query)            (* self.subset(...) *)
| OCopy.                         (* deepcopy / pickle / json / write+reload *)

Definition apply_op (tables : list Z) (db : list row) (o : op) : list row :=
  match o with
  | OAdd r => db ++ [mk_row r]
  | OUnion other => db_union db (map mk_row other)
  | OUpdate other => db_update db (map mk_row other)
  | OSubset q => gq tables db q
  | OCopy => db
  end.

Definition feat_val (r : row) : val :=
  VL [vostr (r_seqid r); vostr (r_biotype r); vostr (r_name r); vostr (r_strand r);
      vobool (r_on_aln r); VL (map vpairZ (r_spans r))].
Definition rec_val (r : row) : val :=
  VL [vostr (r_seqid r); vostr (r_biotype r); vostr (r_name r); vostr (r_strand r);
      vobool (r_on_aln r); VL (map vpairZ (r_spans r)); VZ (r_start r); VZ (r_stop r)].

(** num_matches takes no window and (in the harness) no attributes; on_alignment
    only for the single-table class *)
Definition count_q (tables : list Z) (q : query) : query :=
  {| q_biotype := q_biotype q; q_seqid := q_seqid q; q_name := q_name q; q_strand := q_strand q;
     q_attrs := None;
     q_on_aln := match tables with [1] => q_on_aln q | _ => None end;
     q_start := None; q_stop := None; q_partial := q_partial q |}.

(** a case: tables of the class, history, queries; the answer to each query is
    (features, records, count-without-window) *)
Definition run_case (c : list Z * list op * list query) : val :=
  let '(tables, ops, qs) := c in
  let db := fold_left (apply_op tables) ops [] in
  VL (map (fun q =>
             let rows := gq tables db q in
             VL [VL (map feat_val rows); VL (map rec_val rows); VZ (gc tables db (count_q tables q))]) qs).

Definition mkq (bt sid nm st at_ : option str) (on : option bool) (qs qe : option Z) (p : bool) : query :=
  {| q_biotype := bt; q_seqid := sid; q_name := nm; q_strand := st; q_attrs := at_;
     q_on_aln := on; q_start := qs; q_stop := qe; q_partial := p |}.
