(** Model of [Table.count_unique] (util/table.py l.1205-1229) and of the argument forms it shares
    with [Table.distinct_values] (l.1231-1237): both select with
    [Columns.take_columns(columns)] (l.387-398), which accepts a bare column name, an int position
    (negative ones count from the end), or a list / tuple of names; [count_unique] also accepts no
    argument (all columns).  The keys are scalars exactly when ONE column was selected (however it
    was spelled), tuples otherwise.

    No proofs in this file. *)
From Coq Require Import QArith.
From CG3 Require Import Lib.PyZ Lib.Chars Lib.StableSort Lib.Val Model.Csv Model.Table.
Import ListNotations.
Open Scope Z_scope.

Inductive carg :=
| CNone                   (* no argument / None *)
| CName (s : str)         (* "a" *)
| CInt (i : Z)            (* 0, -1 : a position in the column order *)
| CList (l : list str).   (* ["a"], ("a",), ["a", "b"] *)

(* Columns._get_key_ / _get_keys_ *)
Definition resolve_carg (t : table) (a : carg) (none_is_all : bool) : res (list str) :=
  match a with
  | CNone => if none_is_all then Ok (hdr t) else Er E_Key
  | CName s => Ok [s]
  | CInt i =>
      let n := zlen (hdr t) in
      if (0 <=? i) && (i <? n) then Ok [nth (Z.to_nat i) (hdr t) []]
      else if (- n <=? i) && (i <? 0) then Ok [nth (Z.to_nat (n + i)) (hdr t) []]
      else Er E_Key
  | CList l => Ok l
  end.

(* take_columns: result[c] = self[c] for c in columns -- a repeated name is one column *)
Fixpoint first_occurrences (seen l : list str) : list str :=
  match l with
  | [] => []
  | c :: l' => if mem_str c seen then first_occurrences seen l' else c :: first_occurrences (c :: seen) l'
  end.

Definition take_columns (t : table) (names : list str) : res (list str * list (list cell)) :=
  let ns := first_occurrences [] names in
  bind (get_cols t names) (fun _ => bind (get_cols t ns) (fun vs => Ok (ns, vs))).

(* Columns.array of the selection: one row per table row (no column is dropped for an empty table) *)
Definition selected_rows (t : table) (vs : list (list cell)) : list (list cell) :=
  map (row_at vs) (seq 0 (nrows t)).

(* CategoryCounter(data): a dict keyed with Python equality, the first key object is kept *)
Fixpoint counter_add (k : list cell) (m : list (list cell * Z)) : list (list cell * Z) :=
  match m with
  | [] => [(k, 1)]
  | (k', n) :: m' => if key_eqb k k' then (k', n + 1) :: m' else (k', n) :: counter_add k m'
  end.

Definition counter (data : list (list cell)) : list (list cell * Z) :=
  fold_left (fun m k => counter_add k m) data [].

(* (keys are scalars?, [(key, count)]) *)
Definition count_unique (t : table) (a : carg) : res (bool * list (list cell * Z)) :=
  bind (resolve_carg t a true) (fun names =>
    bind (take_columns t names) (fun nv =>
      Ok (Nat.eqb (length (fst nv)) 1, counter (selected_rows t (snd nv))))).

(* (values are scalars?, distinct keys) *)
Definition distinct_values_arg (t : table) (a : carg) : res (bool * list (list cell)) :=
  bind (resolve_carg t a false) (fun names =>
    bind (take_columns t names) (fun nv =>
      Ok (Nat.eqb (length (fst nv)) 1, dedup [] (selected_rows t (snd nv))))).
