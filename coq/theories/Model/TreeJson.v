(** C09 — the REPAIRED JSON (rich dict) writer (notes/proposed_fixes/C09-4.diff):
    [to_rich_dict] writes the newick with names escaped and with names that
    contain blanks quoted instead of munged to underscores
    ([get_newick(escape_name=True, quote_blanks=True)]); the reader is unchanged
    ([make_tree(newick)], underscore_unmunge = False).  The pinned writer is
    [json_roundtrip] in Model/Tree.v.  No proofs in this file. *)
From CG3 Require Import Lib.PyZ Lib.Val Lib.Rose Model.Tree.

Definition escape_name_qb (s : name) : name :=
  if starts_with_sq s && ends_with_sq s then s
  else if existsb needs_quote_char s || existsb (fun c => c =? c_sp) s then [c_sq] ++ double_sq s ++ [c_sq]
  else blanks_to_us s.

Fixpoint newick_node_qb (is_root : bool) (t : tree) : list Z :=
  match t with
  | Node n l cs =>
      (match cs with
       | [] => []
       | _ => [c_open] ++ join_with [c_comma] (map (newick_node_qb false) cs) ++ [c_close]
       end)
      ++ (if is_root then [] else escape_name_qb n)
  end.

Definition json_roundtrip_fixed (t : tree) : res tree :=
  match make_tree false (newick_node_qb true t) with
  | Err e => Err e
  | Ok t' => Ok (apply_attrs (edge_attributes t) t')
  end.

Definition json_roundtrip_v (fx : bool) (t : tree) : res tree :=
  if fx then json_roundtrip_fixed t else json_roundtrip t.
