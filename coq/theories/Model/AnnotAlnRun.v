(** Runner for the alignment block of the C04 correspondence check. *)
From CG3 Require Import Lib.PyZ Lib.Val Lib.PySlice Model.View Model.Annot.
From CG3 Require Import Model.IndelMap Model.IndelMapFixed Model.FeatureMap Model.Aligned Model.AnnotAln.

Inductive alop := ASlice (a b : Z) | ARc.

Definition apply_alop (rows : res (list arow)) (o : alop) : res (list arow) :=
  bind rows (fun l =>
    mapM (fun r => match o with
                   | ASlice a b => row_getitem_slice repaired r (Some a) (Some b)
                   | ARc => row_rc r
                   end) l).

(** correspondence only: [aln.deepcopy(sliced)] / [aln.copy()] as further history steps.
    [Aligned.deepcopy(sliced=True)]: same map, [data.copy(sliced=True)] (C01's CopySliced);
    unsliced copies leave map and view as they are *)
Inductive alhop := AOp (o : alop) | ACopy (sliced : bool).

Definition apply_alhop (rows : res (list arow)) (h : alhop) : res (list arow) :=
  match h with
  | AOp o => apply_alop rows o
  | ACopy false => rows
  | ACopy true =>
      bind rows (fun l =>
        mapM (fun r => bind (of_view (View.apply_op Fixed (adata r) CopySliced)) (fun d => Ok (mkRow (amap r) d))) l)
  end.

Definition vres2 {A} (f : A -> val) (r : res A) : val :=
  match r with Ok a => f a | Err e => VE e end.

Definition vpairs (l : list (Z * Z)) : val := VL (map vpairZ l).

(** one feature on the alignment view: VN = not returned *)
Definition obs_aln_feature (fx : Annot.fixes) (rows : list arow) (x : Z * list (Z * Z) * bool) : val :=
  let '(k, spans, minus) := x in
  match nth_error rows (Z.to_nat k) with
  | None => VE E_Index
  | Some r =>
      match aln_feature fx r (mkF spans minus) true with
      | Err e => VE e
      | Ok None => VN
      | Ok (Some (m, am)) =>
          VL [VB m; vpairs (fm_get_coordinates am);
              VL (map (fun r' => vres2 VS (row_feature_slice r' m am)) rows);
              VL (map (fun jr => if fst jr =? k then VN else vres2 VS (projected_slice (snd jr) m am))
                      (index_from 0 rows))]
      end
  end.

Definition alcase : Type :=
  ((bool * bool * bool) * list (list Z) * list (Z * list (Z * Z) * bool) * list alhop)%type.

Definition run_alcase (c : alcase) : val :=
  let '(fxs, strs, feats, ops) := c in
  let '(f1, f2, f3) := fxs in
  let fx := mkFx f1 f2 f3 in
  match fold_left apply_alhop ops (mapM (row_of_string KDna) strs) with
  | Err e => VE e
  | Ok rows => VL (map (obs_aln_feature fx rows) feats)
  end.
